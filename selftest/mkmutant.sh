#!/bin/sh
# mkmutant.sh <name> <property> <expected obligation substring> <file relative to repo> <sed expression>
# Records a must-fail mutant: a small patch against /repo that breaks a property and must make the
# named obligation fail.  Nothing is changed in /repo: the patch is made on a scratch copy.
set -e
name="$1"; prop="$2"; obl="$3"; file="$4"; expr="$5"
S=/var/tmp/mkmutant.$$
trap 'rm -rf "$S"' EXIT
mkdir -p "$S/a/$(dirname "$file")" "$S/b/$(dirname "$file")"
cp "/repo/$file" "$S/a/$file"; cp "/repo/$file" "$S/b/$file"
sed -i "$expr" "$S/b/$file"
if cmp -s "$S/a/$file" "$S/b/$file"; then echo "mutant $name: sed expression changed nothing" >&2; exit 1; fi
d="$(dirname "$0")/mutants"
(cd "$S" && diff -u "a/$file" "b/$file" > "$S/p.diff" || true)
cp "$S/p.diff" "$d/$name.diff"
printf '{"property": "%s", "obligation": "%s"}\n' "$prop" "$obl" > "$d/$name.json"
echo "recorded $d/$name.diff"
