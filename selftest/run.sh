#!/bin/sh
# Must-fail corpus: every mutant (a patch that breaks a property while compiling) must make the
# check of its property report the named obligation.  A mutant that still verifies is an engine bug.
# Usage: selftest/run.sh [name-substring]
cd "$(dirname "$0")/.."
[ -x bin/govc ] || ./setup.sh >/dev/null
rc=0
for j in selftest/mutants/*.json; do
  n=$(basename "$j" .json)
  case "$n" in *"$1"*) ;; *) continue;; esac
  prop=$(jq -r .property "$j"); obl=$(jq -r .obligation "$j")
  S=/var/tmp/selftest.$$.$n
  rm -rf "$S"; mkdir -p "$S"
  rsync -a --exclude=.git --exclude=stgutgmain --exclude='*.png' /repo/ "$S/repo/"
  if ! (cd "$S/repo" && patch -s -p1 < "/verif/selftest/mutants/$n.diff"); then echo "MUTANT $n: patch does not apply"; rc=1; rm -rf "$S"; continue; fi
  out=$(GOVC_NO_REPLAY=1 VERIF_SCRATCH="$S/scratch" ./bin/govc check --repo "$S/repo" --verif "$(pwd)" --prop "$prop" --no-evidence --replay-dir "$S/replays" 2>&1)
  if echo "$out" | grep -q "FAILED-OBLIGATION: .*$obl"; then echo "MUTANT $n: caught ($prop $obl)"; else echo "MUTANT $n: NOT CAUGHT (expected $prop $obl)"; echo "$out" | tail -5; rc=1; fi
  rm -rf "$S"
done
exit $rc
