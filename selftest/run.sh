#!/bin/sh
# Must-fail corpus: every mutant (a patch that breaks a property while compiling) must make the
# check of its property report the named obligation.  A mutant that still verifies is an engine bug.
# Usage: selftest/run.sh [name-substring]
cd "$(dirname "$0")/.."
[ -x bin/govc ] || ./setup.sh >/dev/null
# private copies, so that the run is not disturbed by later rebuilds or edits: the verifier binary,
# and the committed state of /repo (HEAD) as the base the mutants are applied to
B=/var/tmp/selftest.$$.base
rm -rf "$B"; mkdir -p "$B/repo"
cp bin/govc "$B/govc"
git -C /repo archive HEAD | tar -x -C "$B/repo"
trap 'rm -rf "$B"' EXIT
rc=0
for j in selftest/mutants/*.json; do
  n=$(basename "$j" .json)
  case "$n" in *"$1"*) ;; *) continue;; esac
  prop=$(jq -r .property "$j"); obl=$(jq -r .obligation "$j")
  S=/var/tmp/selftest.$$.$n
  rm -rf "$S"; mkdir -p "$S"
  rsync -a --exclude=stgutgmain --exclude='*.png' "$B/repo/" "$S/repo/"
  if ! (cd "$S/repo" && patch -s -p1 < "/verif/selftest/mutants/$n.diff"); then echo "MUTANT $n: patch does not apply"; rc=1; rm -rf "$S"; continue; fi
  out=$(GOVC_NO_REPLAY=1 VERIF_SCRATCH="$S/scratch" "$B/govc" check --repo "$S/repo" --verif "$(pwd)" --prop "$prop" --no-evidence --replay-dir "$S/replays" 2>&1)
  if echo "$out" | grep -q "FAILED-OBLIGATION: .*$obl"; then echo "MUTANT $n: caught ($prop $obl)"; else echo "MUTANT $n: NOT CAUGHT (expected $prop $obl)"; echo "$out" | tail -5; rc=1; fi
  rm -rf "$S"
done
exit $rc
