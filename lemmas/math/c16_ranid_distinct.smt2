; C16, arithmetic step over the mathematical integers (linked to the contract of stgutg.CreateUE, clause
; `ranid`: RanUeNgapId = (n + index) mod 10^4): two indices 0 <= i < j < 10^4 give different identifiers.
; Negated claim; expected answer: unsat.
(set-logic ALL)
(declare-const n Int) (declare-const i Int) (declare-const j Int)
(assert (and (>= n 0) (<= 0 i) (< i j) (< j 10000)))
(assert (= (mod (+ n i) 10000) (mod (+ n j) 10000)))
(check-sat)
