//go:build verif

package stgutg

import (
	"vspec/strspec"
	"vspec/vc"
)

// Distinct identities (C16): two UEs created from the same initial IMSI with different indices
// below 10^4 have different SUPIs with the number of digits of the configured IMSI.  (That the
// RAN-UE-NGAP-IDs differ and that the MCC/MNC digits are kept while the MSIN does not overflow are
// the integer lemmas lemmas/math/c16_*.smt2 over the clauses `ranid` and `supi` of CreateUE.)
//
// prop: C16
// shape: imsi 15
func vcLemma_distinct_ues(imsi string, i, j int, K, OPC, OP string) {
	vc.Assume(vc.Forall(0, 15, func(k int) bool { return '0' <= imsi[k] && imsi[k] <= '9' }))
	vc.Assume(0 <= i && i < j && j < 10000)
	n := strspec.Value(imsi)
	vc.Assume(n+j < 1000000000000000)
	a := CreateUE(imsi, i, K, OPC, OP)
	b := CreateUE(imsi, j, K, OPC, OP)
	vc.Assert("supi", a.Supi != b.Supi)
	vc.Assert("digits", len(a.Supi) == 5+15 && len(b.Supi) == 5+15)
	vc.Assert("prefix", a.Supi[0] == 'i' && a.Supi[1] == 'm' && a.Supi[2] == 's' && a.Supi[3] == 'i' && a.Supi[4] == '-')
}

