//go:build verif

package stgutg

import (
	"tglib"

	"github.com/ishidawataru/sctp"

	"vspec/ids"
	"vspec/trace"
	"vspec/vc"
)

// One PDU session identity over the life of a UE: the procedures derive the identity
// independently of each other (none stores it in the UE), so that they agree is a relational
// fact about the three bodies.  The lemma runs establishment, service request and release one
// after the other on the same UE over the ghost association (every reply of the network
// arbitrary) and compares the identities recorded by the NAS constructors and the NGAP
// build-and-encode wrappers: the establishment request, the setup response, the service
// request's context setup response, the release request, the release response and the release
// complete all carry the same value.
//
// prop: C02
// mode: driver
// inline: EstablishPDU ServiceRequest ReleasePDU
// shape: ue.Supi 20
func vcLemma_onePsiOverTheLifeOfAUE(sst int32, sd string, ue *tglib.RanUeContext, conn *sctp.SCTPConn, gnb_gtp string, pdu []byte) {
	vc.Assume(ids.IsImsiSupi(ue.Supi))
	EstablishPDU(sst, sd, ue, conn, gnb_gtp)
	ServiceRequest(pdu, ue, conn, gnb_gtp)
	ReleasePDU(sst, sd, ue, conn)
	vc.Assert("messages", vc.GhostLen("ngap.built") == 7 && vc.GhostLen("nas.built") == 4)
	psi := trace.A(vc.GhostBytes("nas.built", 0))
	vc.Assert("kinds", trace.Kind(vc.GhostBytes("nas.built", 0)) == trace.PDUSessionEstablishmentRequest &&
		trace.Kind(vc.GhostBytes("ngap.built", 1)) == trace.PDUSessionResourceSetupResponse &&
		trace.Kind(vc.GhostBytes("ngap.built", 3)) == trace.InitialContextSetupResponseForService &&
		trace.Kind(vc.GhostBytes("nas.built", 2)) == trace.PDUSessionReleaseRequest &&
		trace.Kind(vc.GhostBytes("ngap.built", 5)) == trace.PDUSessionResourceReleaseResponse &&
		trace.Kind(vc.GhostBytes("nas.built", 3)) == trace.PDUSessionReleaseComplete)
	vc.Assert("establish", trace.C(vc.GhostBytes("ngap.built", 1)) == psi)
	vc.Assert("service", trace.C(vc.GhostBytes("ngap.built", 3)) == psi)
	vc.Assert("release", trace.A(vc.GhostBytes("nas.built", 2)) == psi && trace.C(vc.GhostBytes("ngap.built", 5)) == psi && trace.A(vc.GhostBytes("nas.built", 3)) == psi)
}
