//go:build verif

package stgutg

import (
	"free5gclib/nas/nasConvert"
	"free5gclib/openapi/models"

	"vspec/vc"
)

// An independent decoder of the 5GS mobile identity (TS 24.501 figure
// 9.11.3.4.3/4, read in the decoding direction) recovers the MCC, the MNC and
// digit k of the MSIN from what EncodeSuci returns, for every IMSI.  Decimal
// digits are below 10, so the filler nibble 1111 is never mistaken for one.
//
// prop: C11
func vcLemma_suci_decode(imsi []byte, mncLen int, k int) {
	vc.Assume(mncLen == 2 || mncLen == 3)
	vc.Assume(len(imsi) >= 3+mncLen && len(imsi) < 1<<16)
	vc.Assume(vc.Forall(0, len(imsi), func(i int) bool { return '0' <= imsi[i] && imsi[i] <= '9' }))
	s := EncodeSuci(imsi, mncLen)
	b := s.Buffer
	n := len(imsi) - 3 - mncLen
	vc.Assert("count", len(b) == 8+(n+1)/2 && int(s.Len) == len(b))
	vc.Assert("type", b[0]&7 == 1 && (b[0]>>4)&7 == 0 && b[6]&0xf == 0)
	vc.Assert("mcc", b[1]&0xf == imsi[0]-'0' && b[1]>>4 == imsi[1]-'0' && b[2]&0xf == imsi[2]-'0')
	vc.Assert("mnc", b[3]&0xf == imsi[3]-'0' && b[3]>>4 == imsi[4]-'0')
	vc.Assert("mnc3", (mncLen == 3 && b[2]>>4 == imsi[5]-'0') || (mncLen == 2 && b[2]>>4 == 0xf))
	vc.Assume(0 <= k && k < n)
	o := b[8+k/2]
	d := imsi[3+mncLen+k] - '0'
	vc.Assert("msin", d < 10 && ((k%2 == 0 && o&0xf == d) || (k%2 == 1 && o>>4 == d)))
	vc.Assert("filler", n%2 == 0 || b[len(b)-1]>>4 == 0xf)
}

// The PLMN octets of the SUCI (announced in NG Setup and repeated in every user
// location IE) agree with the library's own PLMN conversion, for 2- and 3-digit MNCs.
//
// prop: C11
func vcLemma_plmn_agree_mnc2(imsi []byte) {
	vc.Assume(len(imsi) >= 5 && len(imsi) < 1<<16)
	vc.Assume(vc.Forall(0, len(imsi), func(i int) bool { return '0' <= imsi[i] && imsi[i] <= '9' }))
	s := EncodeSuci(imsi, 2)
	p := nasConvert.PlmnIDToNas(models.PlmnId{Mcc: string(imsi[0:3]), Mnc: string(imsi[3:5])})
	vc.Assert("agree", len(p) == 3 && p[0] == s.Buffer[1] && p[1] == s.Buffer[2] && p[2] == s.Buffer[3])
}

// prop: C11
func vcLemma_plmn_agree_mnc3(imsi []byte) {
	vc.Assume(len(imsi) >= 6 && len(imsi) < 1<<16)
	vc.Assume(vc.Forall(0, len(imsi), func(i int) bool { return '0' <= imsi[i] && imsi[i] <= '9' }))
	s := EncodeSuci(imsi, 3)
	p := nasConvert.PlmnIDToNas(models.PlmnId{Mcc: string(imsi[0:3]), Mnc: string(imsi[3:6])})
	vc.Assert("agree", len(p) == 3 && p[0] == s.Buffer[1] && p[1] == s.Buffer[2] && p[2] == s.Buffer[3])
}
