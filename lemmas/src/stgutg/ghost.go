//go:build verif

package stgutg

// Ghost helpers used by the contracts of this package (specification only).

import (
	"free5gclib/nas"
	"free5gclib/nas/nasType"

	"vspec/ids"
	"vspec/vc"
)

// vcIsSuciOf: the 5GS mobile identity holds the null-scheme SUCI (TS 24.501 9.11.3.4, spec/ids) of
// the IMSI in the SUPI "imsi-<digits>" for an MNC of mncLen digits.
func vcIsSuciOf(m nasType.MobileIdentity5GS, supi string, mncLen int) bool {
	imsi := []byte(supi[5:])
	return len(m.Buffer) == ids.SUCILen(len(imsi), mncLen) && int(m.Len) == len(m.Buffer) &&
		vc.Forall(0, len(m.Buffer), func(j int) bool { return m.Buffer[j] == ids.SUCIByte(imsi, mncLen, j) })
}

func vcSameOctets(a, b []byte) bool {
	return len(a) == len(b) && vc.Forall(0, len(a), func(i int) bool { return a[i] == b[i] })
}

// vcIsChallengeOf: autn and rand are the AUTN and RAND of the decoded Authentication Request.
func vcIsChallengeOf(autn [16]uint8, rand []byte, m *nas.Message) bool {
	if len(rand) != 16 {
		return false
	}
	a := m.AuthenticationRequest.AuthenticationParameterAUTN.GetAUTN()
	r := m.AuthenticationRequest.AuthenticationParameterRAND.GetRANDValue()
	for k := 0; k < 16; k++ {
		if autn[k] != a[k] || rand[k] != r[k] {
			return false
		}
	}
	return true
}
