//go:build verif

package tglib

// What each build-and-encode wrapper must hand to ngap.Encoder (C13; used by the `call Encoder`
// clauses of the wrappers' contracts): the NGAP message of the procedure the wrapper is named after
// (class, procedure code of TS 38.413 9.4 as transcribed in spec/ngap38413) with the wrapper's own
// arguments at their places.  Specification only.

import (
	"free5gclib/ngap/ngapType"

	"vspec/ngap38413"
	"vspec/vc"
)

func vcSameBytes(a, b []byte) bool {
	return len(a) == len(b) && vc.Forall(0, len(a), func(i int) bool { return a[i] == b[i] })
}

func vcInit(pdu ngapType.NGAPPDU, proc int64) bool {
	return pdu.Present == 1 && pdu.InitiatingMessage != nil && pdu.InitiatingMessage.ProcedureCode.Value == proc
}

func vcSucc(pdu ngapType.NGAPPDU, proc int64) bool {
	return pdu.Present == 2 && pdu.SuccessfulOutcome != nil && pdu.SuccessfulOutcome.ProcedureCode.Value == proc
}

func vcHandsNGSetup(pdu ngapType.NGAPPDU, gnbId []byte, bitlength uint64, name string) bool {
	if !vcInit(pdu, ngap38413.ProcNGSetup) || pdu.InitiatingMessage.Value.NGSetupRequest == nil {
		return false
	}
	l := pdu.InitiatingMessage.Value.NGSetupRequest.ProtocolIEs.List
	if len(l) < 2 || l[0].Value.GlobalRANNodeID == nil || l[0].Value.GlobalRANNodeID.GlobalGNBID == nil || l[0].Value.GlobalRANNodeID.GlobalGNBID.GNBID.GNBID == nil || l[1].Value.RANNodeName == nil {
		return false
	}
	g := l[0].Value.GlobalRANNodeID.GlobalGNBID.GNBID.GNBID
	return g.BitLength == bitlength && vcSameBytes(g.Bytes, gnbId) && l[1].Value.RANNodeName.Value == name
}

func vcHandsInitialUE(pdu ngapType.NGAPPDU, ran int64, nas []byte) bool {
	if !vcInit(pdu, ngap38413.ProcInitialUEMessage) || pdu.InitiatingMessage.Value.InitialUEMessage == nil {
		return false
	}
	l := pdu.InitiatingMessage.Value.InitialUEMessage.ProtocolIEs.List
	return len(l) >= 2 && l[0].Value.RANUENGAPID != nil && l[0].Value.RANUENGAPID.Value == ran &&
		l[1].Value.NASPDU != nil && vcSameBytes(l[1].Value.NASPDU.Value, nas)
}

func vcHandsUplinkNAS(pdu ngapType.NGAPPDU, amf, ran int64, nas []byte) bool {
	if !vcInit(pdu, ngap38413.ProcUplinkNASTransport) || pdu.InitiatingMessage.Value.UplinkNASTransport == nil {
		return false
	}
	l := pdu.InitiatingMessage.Value.UplinkNASTransport.ProtocolIEs.List
	return len(l) >= 3 && l[0].Value.AMFUENGAPID != nil && l[0].Value.AMFUENGAPID.Value == amf &&
		l[1].Value.RANUENGAPID != nil && l[1].Value.RANUENGAPID.Value == ran &&
		l[2].Value.NASPDU != nil && vcSameBytes(l[2].Value.NASPDU.Value, nas)
}

func vcHandsICSRes(pdu ngapType.NGAPPDU, amf, ran int64) bool {
	if !vcSucc(pdu, ngap38413.ProcInitialContextSetup) || pdu.SuccessfulOutcome.Value.InitialContextSetupResponse == nil {
		return false
	}
	l := pdu.SuccessfulOutcome.Value.InitialContextSetupResponse.ProtocolIEs.List
	return len(l) >= 2 && l[0].Value.AMFUENGAPID != nil && l[0].Value.AMFUENGAPID.Value == amf &&
		l[1].Value.RANUENGAPID != nil && l[1].Value.RANUENGAPID.Value == ran
}

func vcHandsICSResService(pdu ngapType.NGAPPDU, amf, ran, psi int64) bool {
	if !vcHandsICSRes(pdu, amf, ran) {
		return false
	}
	l := pdu.SuccessfulOutcome.Value.InitialContextSetupResponse.ProtocolIEs.List
	return len(l) == 3 && l[2].Value.PDUSessionResourceSetupListCxtRes != nil && len(l[2].Value.PDUSessionResourceSetupListCxtRes.List) == 1 &&
		l[2].Value.PDUSessionResourceSetupListCxtRes.List[0].PDUSessionID.Value == psi
}

func vcHandsPSRSetupRes(pdu ngapType.NGAPPDU, amf, ran, psi int64) bool {
	if !vcSucc(pdu, ngap38413.ProcPDUSessionResourceSetup) || pdu.SuccessfulOutcome.Value.PDUSessionResourceSetupResponse == nil {
		return false
	}
	l := pdu.SuccessfulOutcome.Value.PDUSessionResourceSetupResponse.ProtocolIEs.List
	return len(l) == 3 && l[0].Value.AMFUENGAPID != nil && l[0].Value.AMFUENGAPID.Value == amf &&
		l[1].Value.RANUENGAPID != nil && l[1].Value.RANUENGAPID.Value == ran &&
		l[2].Value.PDUSessionResourceSetupListSURes != nil && len(l[2].Value.PDUSessionResourceSetupListSURes.List) == 1 &&
		l[2].Value.PDUSessionResourceSetupListSURes.List[0].PDUSessionID.Value == psi
}

func vcHandsPSRReleaseRes(pdu ngapType.NGAPPDU, amf, ran, psi int64) bool {
	if !vcSucc(pdu, ngap38413.ProcPDUSessionResourceRelease) || pdu.SuccessfulOutcome.Value.PDUSessionResourceReleaseResponse == nil {
		return false
	}
	l := pdu.SuccessfulOutcome.Value.PDUSessionResourceReleaseResponse.ProtocolIEs.List
	return len(l) == 3 && l[0].Value.AMFUENGAPID != nil && l[0].Value.AMFUENGAPID.Value == amf &&
		l[1].Value.RANUENGAPID != nil && l[1].Value.RANUENGAPID.Value == ran &&
		l[2].Value.PDUSessionResourceReleasedListRelRes != nil && len(l[2].Value.PDUSessionResourceReleasedListRelRes.List) == 1 &&
		l[2].Value.PDUSessionResourceReleasedListRelRes.List[0].PDUSessionID.Value == psi
}

func vcHandsUECtxRelCpl(pdu ngapType.NGAPPDU, amf, ran int64) bool {
	if !vcSucc(pdu, ngap38413.ProcUEContextRelease) || pdu.SuccessfulOutcome.Value.UEContextReleaseComplete == nil {
		return false
	}
	l := pdu.SuccessfulOutcome.Value.UEContextReleaseComplete.ProtocolIEs.List
	return len(l) >= 2 && l[0].Value.AMFUENGAPID != nil && l[0].Value.AMFUENGAPID.Value == amf &&
		l[1].Value.RANUENGAPID != nil && l[1].Value.RANUENGAPID.Value == ran
}

// vcNoNasBefore: none of the first n IEs of a DOWNLINK NAS TRANSPORT is the NAS-PDU.
func vcNoNasBefore(msg *ngapType.DownlinkNASTransport, n int) bool {
	return vc.Forall(0, n, func(j int) bool {
		return j >= len(msg.ProtocolIEs.List) || msg.ProtocolIEs.List[j].Id.Value != ngap38413.IENASPDU
	})
}

// vcLocated: p holds the octets of the first NAS-PDU IE of the list.
func vcLocated(msg *ngapType.DownlinkNASTransport, p []byte) bool {
	return vc.Exists(0, len(msg.ProtocolIEs.List), func(k int) bool {
		return vcNoNasBefore(msg, k) &&
			msg.ProtocolIEs.List[k].Id.Value == ngap38413.IENASPDU && msg.ProtocolIEs.List[k].Value.NASPDU != nil &&
			vcSameBytes(p, msg.ProtocolIEs.List[k].Value.NASPDU.Value)
	})
}

// vcNasIEsWellFormed: what a conformant AMF puts into a NAS-PDU IE as far as GetNasPdu looks at it:
// at least the two octets of a plain header, a security header type 0..4 with the spare half octet
// zero (TS 24.501 9.3), and for a protected message the 7-octet security header plus one octet.
func vcNasIEsWellFormed(msg *ngapType.DownlinkNASTransport) bool {
	return vc.Forall(0, len(msg.ProtocolIEs.List), func(k int) bool {
		ie := msg.ProtocolIEs.List[k]
		if ie.Id.Value != ngap38413.IENASPDU {
			return true
		}
		if ie.Value.NASPDU == nil || len(ie.Value.NASPDU.Value) < 2 || ie.Value.NASPDU.Value[1] > 4 {
			return false
		}
		return ie.Value.NASPDU.Value[1] == 0 || (len(ie.Value.NASPDU.Value) >= 8 && len(ie.Value.NASPDU.Value) < 1<<16)
	})
}
