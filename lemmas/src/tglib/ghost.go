//go:build verif

package tglib

// Ghost helpers used by the contracts of this package (specification only).

import (
	"vspec/nasalg"
)

// vcCount0 is the NAS COUNT the next uplink message must use.
func vcCount0(ue *RanUeContext, newCtx bool) uint32 {
	if ue == nil || newCtx {
		return 0
	}
	return ue.ULCount.Get()
}

func vcDL0(old uint32, newCtx bool) uint32 {
	if newCtx {
		return 0
	}
	return old
}

// vcCiphered: header types 2 and 4 are "integrity protected and ciphered" (TS 24.501 9.3).
func vcCiphered(sht uint8) bool { return sht == 2 || sht == 4 }

// vcKeystream is octet j of the 128-NEAx keystream for BEARER=1 (3GPP access), DIRECTION=0 (uplink);
// zero when the message is not ciphered or the algorithm is NEA0.
func vcKeystream(alg uint8, key [16]byte, count uint32, ciphered bool, j int) uint8 {
	if !ciphered {
		return 0
	}
	switch alg {
	case 1:
		return nasalg.EEA1KeystreamByte(key, count, 1, 0, j)
	case 2:
		return nasalg.EEA2KeystreamByte(key, count, 1, 0, j)
	}
	return 0
}

// vcMac is the 128-NIAx MAC for BEARER=1, DIRECTION=0 over msg.
func vcMac(alg uint8, key [16]byte, count uint32, msg []byte) [4]byte {
	if alg == 1 {
		return nasalg.EIA1(key, count, 1, 0, msg)
	}
	return nasalg.EIA2(key, count, 1, 0, msg)
}
