//go:build verif

package tglib

// Ghost helpers used by the contracts of this package (specification only).

import (
	"vspec/ids"
	"vspec/nasalg"
	"vspec/vc"
)

// vcCount0 is the NAS COUNT the next uplink message must use.
func vcCount0(ue *RanUeContext, newCtx bool) uint32 {
	if ue == nil || newCtx {
		return 0
	}
	return ue.ULCount.Get()
}

func vcDL0(old uint32, newCtx bool) uint32 {
	if newCtx {
		return 0
	}
	return old
}

// vcCiphered: header types 2 and 4 are "integrity protected and ciphered" (TS 24.501 9.3).
func vcCiphered(sht uint8) bool { return sht == 2 || sht == 4 }

// vcKeystream is octet j of the 128-NEAx keystream for BEARER=1 (3GPP access), DIRECTION=0 (uplink);
// zero when the message is not ciphered or the algorithm is NEA0.
func vcKeystream(alg uint8, key [16]byte, count uint32, ciphered bool, j int) uint8 {
	if !ciphered {
		return 0
	}
	switch alg {
	case 1:
		return nasalg.EEA1KeystreamByte(key, count, 1, 0, j)
	case 2:
		return nasalg.EEA2KeystreamByte(key, count, 1, 0, j)
	}
	return 0
}

// vcMac is the 128-NIAx MAC for BEARER=1, DIRECTION=0 over msg.
func vcMac(alg uint8, key [16]byte, count uint32, msg []byte) [4]byte {
	if alg == 1 {
		return nasalg.EIA1(key, count, 1, 0, msg)
	}
	return nasalg.EIA2(key, count, 1, 0, msg)
}

// vcDL is the UE's current downlink NAS COUNT (24 bits), read without side effect.
func vcDL(ue *RanUeContext) uint32 {
	if ue == nil {
		return 0
	}
	return uint32(ue.DLCount.Overflow())<<8 | uint32(ue.DLCount.SQN())
}

// vcEstimate is the downlink NAS COUNT a receiver must associate with a
// protected message (TS 24.501 4.4.3.1): the sequence number carried in octet 6,
// the overflow counter incremented when the sequence number wrapped, both reset
// by a "new security context" header type (3, 4).
func vcEstimate(dl uint32, sht uint8, pkt []byte) uint32 {
	if len(pkt) < 7 {
		return dl
	}
	if sht == 3 || sht == 4 {
		dl = 0
	}
	sqn := pkt[6]
	ovf := uint16(dl >> 8)
	if uint8(dl) > sqn {
		ovf++
	}
	return uint32(ovf)<<8 | uint32(sqn)
}

func vcSame(a, b []byte) bool {
	return len(a) == len(b) && vc.Forall(0, len(a), func(i int) bool { return a[i] == b[i] })
}

// ---- helpers for the C05 contracts ----

func vcAllHex(s string) bool {
	return vc.Forall(0, len(s), func(i int) bool { return ids.IsHexDigit(s[i]) })
}

// vcHex16 is the 16-octet string written as 32 hexadecimal digits.
func vcHex16(s string) [16]byte {
	var r [16]byte
	for j := 0; j < 16; j++ {
		r[j] = ids.HexOctet(s, j)
	}
	return r
}

func vcA16(b []byte) [16]byte {
	var r [16]byte
	for j := 0; j < 16; j++ {
		r[j] = b[j]
	}
	return r
}

func vcA32(b []byte) [32]byte {
	var r [32]byte
	for j := 0; j < 32; j++ {
		r[j] = b[j]
	}
	return r
}

// vcIsImsiSupi: "imsi-" followed by decimal digits only.
func vcIsImsiSupi(s string) bool {
	return len(s) >= 10 && s[0] == 'i' && s[1] == 'm' && s[2] == 's' && s[3] == 'i' && s[4] == '-' &&
		vc.Forall(5, len(s), func(i int) bool { return '0' <= s[i] && s[i] <= '9' })
}

// vcIsImsiSupiN: "imsi-" followed by decimal digits only (any number of them, at least five).
func vcIsImsiSupiN(s string) bool {
	return len(s) >= 10 && s[0] == 'i' && s[1] == 'm' && s[2] == 's' && s[3] == 'i' && s[4] == '-' &&
		vc.Forall(5, len(s), func(i int) bool { return '0' <= s[i] && s[i] <= '9' })
}
