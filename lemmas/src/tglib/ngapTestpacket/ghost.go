//go:build verif

package ngapTestpacket

import (
	"net"

	"free5gclib/ngap/ngapType"

	"vspec/vc"
)

// Ghost helpers for the builder contracts (specification only).

func vcSame(a, b []byte) bool {
	return len(a) == len(b) && vc.Forall(0, len(a), func(i int) bool { return a[i] == b[i] })
}

// vcIEs: the flattened (id, criticality) list equals the expected one.
func vcIEs(got []int64, want []int64) bool {
	if len(got) != len(want) {
		return false
	}
	for i := range got {
		if got[i] != want[i] {
			return false
		}
	}
	return true
}

func vcNGSetupIDs(pdu ngapType.NGAPPDU) []int64 {
	var r []int64
	for _, ie := range pdu.InitiatingMessage.Value.NGSetupRequest.ProtocolIEs.List {
		r = append(r, ie.Id.Value, int64(ie.Criticality.Value))
	}
	return r
}

func vcUplinkNASIDs(pdu ngapType.NGAPPDU) []int64 {
	var r []int64
	for _, ie := range pdu.InitiatingMessage.Value.UplinkNASTransport.ProtocolIEs.List {
		r = append(r, ie.Id.Value, int64(ie.Criticality.Value))
	}
	return r
}

func vcInitialUEIDs(pdu ngapType.NGAPPDU) []int64 {
	var r []int64
	for _, ie := range pdu.InitiatingMessage.Value.InitialUEMessage.ProtocolIEs.List {
		r = append(r, ie.Id.Value, int64(ie.Criticality.Value))
	}
	return r
}

func vcICSResIDs(pdu ngapType.NGAPPDU) []int64 {
	var r []int64
	for _, ie := range pdu.SuccessfulOutcome.Value.InitialContextSetupResponse.ProtocolIEs.List {
		r = append(r, ie.Id.Value, int64(ie.Criticality.Value))
	}
	return r
}

func vcPSRSetupResIDs(pdu ngapType.NGAPPDU) []int64 {
	var r []int64
	for _, ie := range pdu.SuccessfulOutcome.Value.PDUSessionResourceSetupResponse.ProtocolIEs.List {
		r = append(r, ie.Id.Value, int64(ie.Criticality.Value))
	}
	return r
}

func vcPSRReleaseResIDs(pdu ngapType.NGAPPDU) []int64 {
	var r []int64
	for _, ie := range pdu.SuccessfulOutcome.Value.PDUSessionResourceReleaseResponse.ProtocolIEs.List {
		r = append(r, ie.Id.Value, int64(ie.Criticality.Value))
	}
	return r
}

func vcUECtxRelCplIDs(pdu ngapType.NGAPPDU) []int64 {
	var r []int64
	for _, ie := range pdu.SuccessfulOutcome.Value.UEContextReleaseComplete.ProtocolIEs.List {
		r = append(r, ie.Id.Value, int64(ie.Criticality.Value))
	}
	return r
}

// vcIsSetupTransfer: v is a PDUSessionResourceSetupResponseTransfer with a GTP tunnel at the IPv4
// address ip (32 bits), TEID 00000001 and one associated QoS flow with identifier 1.
func vcIsSetupTransfer(v interface{}, ip string) bool {
	d, ok := v.(ngapType.PDUSessionResourceSetupResponseTransfer)
	if !ok {
		return false
	}
	t := d.QosFlowPerTNLInformation.UPTransportLayerInformation
	if t.Present != 1 || t.GTPTunnel == nil {
		return false
	}
	return vcSame(t.GTPTunnel.GTPTEID.Value, []byte{0, 0, 0, 1}) &&
		t.GTPTunnel.TransportLayerAddress.Value.BitLength == 32 &&
		vcSame(t.GTPTunnel.TransportLayerAddress.Value.Bytes, net.ParseIP(ip).To4()) &&
		len(d.QosFlowPerTNLInformation.AssociatedQosFlowList.List) == 1 &&
		d.QosFlowPerTNLInformation.AssociatedQosFlowList.List[0].QosFlowIdentifier.Value == 1
}
