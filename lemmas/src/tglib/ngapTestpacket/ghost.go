//go:build verif

package ngapTestpacket

import (
	"free5gclib/ngap/ngapType"

	"vspec/vc"
)

// Ghost helpers for the builder contracts (specification only).

func vcSame(a, b []byte) bool {
	return len(a) == len(b) && vc.Forall(0, len(a), func(i int) bool { return a[i] == b[i] })
}

// vcIEs: the flattened (id, criticality) list equals the expected one.
func vcIEs(got []int64, want []int64) bool {
	if len(got) != len(want) {
		return false
	}
	for i := range got {
		if got[i] != want[i] {
			return false
		}
	}
	return true
}

func vcNGSetupIDs(pdu ngapType.NGAPPDU) []int64 {
	var r []int64
	for _, ie := range pdu.InitiatingMessage.Value.NGSetupRequest.ProtocolIEs.List {
		r = append(r, ie.Id.Value, int64(ie.Criticality.Value))
	}
	return r
}

func vcUplinkNASIDs(pdu ngapType.NGAPPDU) []int64 {
	var r []int64
	for _, ie := range pdu.InitiatingMessage.Value.UplinkNASTransport.ProtocolIEs.List {
		r = append(r, ie.Id.Value, int64(ie.Criticality.Value))
	}
	return r
}

func vcInitialUEIDs(pdu ngapType.NGAPPDU) []int64 {
	var r []int64
	for _, ie := range pdu.InitiatingMessage.Value.InitialUEMessage.ProtocolIEs.List {
		r = append(r, ie.Id.Value, int64(ie.Criticality.Value))
	}
	return r
}

func vcICSResIDs(pdu ngapType.NGAPPDU) []int64 {
	var r []int64
	for _, ie := range pdu.SuccessfulOutcome.Value.InitialContextSetupResponse.ProtocolIEs.List {
		r = append(r, ie.Id.Value, int64(ie.Criticality.Value))
	}
	return r
}

func vcPSRSetupResIDs(pdu ngapType.NGAPPDU) []int64 {
	var r []int64
	for _, ie := range pdu.SuccessfulOutcome.Value.PDUSessionResourceSetupResponse.ProtocolIEs.List {
		r = append(r, ie.Id.Value, int64(ie.Criticality.Value))
	}
	return r
}

func vcPSRReleaseResIDs(pdu ngapType.NGAPPDU) []int64 {
	var r []int64
	for _, ie := range pdu.SuccessfulOutcome.Value.PDUSessionResourceReleaseResponse.ProtocolIEs.List {
		r = append(r, ie.Id.Value, int64(ie.Criticality.Value))
	}
	return r
}

func vcUECtxRelCplIDs(pdu ngapType.NGAPPDU) []int64 {
	var r []int64
	for _, ie := range pdu.SuccessfulOutcome.Value.UEContextReleaseComplete.ProtocolIEs.List {
		r = append(r, ie.Id.Value, int64(ie.Criticality.Value))
	}
	return r
}
