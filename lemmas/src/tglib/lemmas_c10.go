//go:build verif

package tglib

import "vspec/vc"

// Downlink COUNT estimate (C10): if the AMF protects a message with NAS COUNT c
// and the UE's estimate is at most 255 behind (sequence numbers may be skipped
// and wrap, overflow carries into the next 16 bits and wraps at 2^24), the
// estimate after the message equals c.
//
// prop: C10
func vcLemma_dl_estimate(dl, c uint32, sht uint8, pkt []byte) {
	vc.Assume(dl < 1<<24 && c < 1<<24 && len(pkt) >= 7 && len(pkt) < 1<<16)
	vc.Assume(sht == 1 || sht == 2)
	vc.Assume((c-dl)&0xffffff <= 255)
	vc.Assume(pkt[6] == uint8(c))
	vc.Assert("estimate", vcEstimate(dl, sht, pkt) == c)
}

// A "new security context" header restarts the COUNT at the AMF's value, which is
// below 256 for the first message under the new context.
//
// prop: C10
func vcLemma_dl_estimate_newctx(dl, c uint32, sht uint8, pkt []byte) {
	vc.Assume(dl < 1<<24 && c <= 255 && len(pkt) >= 7 && len(pkt) < 1<<16)
	vc.Assume(sht == 3 || sht == 4)
	vc.Assume(pkt[6] == uint8(c))
	vc.Assert("estimate", vcEstimate(dl, sht, pkt) == c)
}
