//go:build verif

package tglib

// Bounded stand-ins at the level of the reflection-driven traversal (Marshal / Unmarshal, which the
// symbolic executor cannot enter): whole-PDU round trips (C04) and totality of the decoder on
// corrupted inputs (C14) over the messages the emulator builds.  Labelled bounded in the evidence.

import (
	"bytes"
	"fmt"
	"free5gclib/ngap"
	"reflect"
	"time"

	"vspec/vc"
)

type vcMsg struct {
	name string
	b    []byte
	err  error
}

func vcMessages() []vcMsg {
	var out []vcMsg
	add := func(n string, b []byte, err error) { out = append(out, vcMsg{n, b, err}) }
	nas := []byte{0x7e, 0x00, 0x41, 0x79, 0x00, 0x0d, 0x01, 0x02, 0xf8, 0x39, 0xf0, 0xff, 0x00, 0x00, 0x00, 0x00, 0x47, 0x78, 0x2e, 0x02, 0x80, 0x20}
	for _, amf := range []int64{0, 1, 255, 256, 65535, 65536, 1 << 32, 1<<40 - 1} {
		for _, ran := range []int64{0, 1, 4294967295} {
			b, e := GetUplinkNASTransport(amf, ran, nas)
			add(fmt.Sprintf("UplinkNASTransport(%d,%d)", amf, ran), b, e)
			b, e = GetInitialContextSetupResponse(amf, ran)
			add(fmt.Sprintf("InitialContextSetupResponse(%d,%d)", amf, ran), b, e)
			b, e = GetPDUSessionResourceSetupResponse(amf, ran, 5, "10.200.200.1")
			add(fmt.Sprintf("PDUSessionResourceSetupResponse(%d,%d)", amf, ran), b, e)
			b, e = GetInitialContextSetupResponseForServiceRequest(amf, ran, 5, "10.200.200.1")
			add(fmt.Sprintf("InitialContextSetupResponseForServiceRequest(%d,%d)", amf, ran), b, e)
			b, e = GetUEContextReleaseComplete(amf, ran, nil)
			add(fmt.Sprintf("UEContextReleaseComplete(%d,%d)", amf, ran), b, e)
			b, e = GetPDUSessionResourceReleaseResponse(amf, ran, 5)
			add(fmt.Sprintf("PDUSessionResourceReleaseResponse(%d,%d)", amf, ran), b, e)
		}
	}
	for _, ran := range []int64{0, 7, 4294967295} {
		for _, n := range []int{1, 2, 100, 127, 128, 300, 2000} {
			b, e := GetInitialUEMessage(ran, bytes.Repeat([]byte{0x5a}, n), "")
			add(fmt.Sprintf("InitialUEMessage(%d,nas %d)", ran, n), b, e)
		}
	}
	for _, bl := range []uint64{22, 24, 25, 32} {
		b, e := GetNGSetupRequest([]byte{0x00, 0x01, 0x02, 0x00}[:(bl+7)/8], []byte{0x02, 0xf8, 0x39}, bl, "open5gs")
		add(fmt.Sprintf("NGSetupRequest(bits %d)", bl), b, e)
	}
	return out
}

// prop: C04
// bound: the emulator's 8 message constructors x AMF-UE-NGAP-ID in {0,1,255,256,65535,65536,2^32,2^40-1} x RAN-UE-NGAP-ID in {0,1,2^32-1} x NAS-PDU lengths {1,2,100,127,128,300,2000} x gNB id lengths {22,24,25,32}: decode(encode(m)) re-encodes to the same octets and decodes to an equal structure
func vcBounded_ngapRoundTrip() {
	for _, m := range vcMessages() {
		if m.err != nil {
			panic(vc.Failure{Kind: "bounded", Label: fmt.Sprintf("%s: encoder refused an in-range message: %v", m.name, m.err)})
		}
		pdu, err := ngap.Decoder(m.b)
		if err != nil {
			panic(vc.Failure{Kind: "bounded", Label: fmt.Sprintf("%s: decoder refused the encoder's output % x: %v", m.name, m.b, err)})
		}
		b2, err := ngap.Encoder(*pdu)
		if err != nil || !bytes.Equal(b2, m.b) {
			panic(vc.Failure{Kind: "bounded", Label: fmt.Sprintf("%s: re-encoding differs: % x vs % x (%v)", m.name, m.b, b2, err)})
		}
		pdu2, err := ngap.Decoder(b2)
		if err != nil || !reflect.DeepEqual(pdu, pdu2) {
			panic(vc.Failure{Kind: "bounded", Label: fmt.Sprintf("%s: second decode differs", m.name)})
		}
	}
}

// prop: C14
// bound: every prefix, every single-bit flip and every single-octet replacement by 00/FF/80/7F of the encodings above (about 150 messages of 20..2100 octets): the decoder returns within 2 s with a value or an error, no panic
func vcBounded_ngapDecoderTotal() {
	try := func(name string, b []byte) {
		done := make(chan string, 1)
		go func() {
			defer func() {
				if r := recover(); r != nil {
					done <- fmt.Sprintf("panic: %v", r)
				}
			}()
			ngap.Decoder(b)
			done <- ""
		}()
		select {
		case r := <-done:
			if r != "" {
				panic(vc.Failure{Kind: "bounded", Label: fmt.Sprintf("%s: input % x: %s", name, b, r)})
			}
		case <-time.After(2 * time.Second):
			panic(vc.Failure{Kind: "bounded", Label: fmt.Sprintf("%s: input % x: no result within 2 s", name, b)})
		}
	}
	seen := map[string]bool{}
	for _, m := range vcMessages() {
		if m.err != nil || len(m.b) > 400 && seen[m.name[:8]] {
			continue
		}
		seen[m.name[:8]] = true
		for i := 0; i <= len(m.b); i++ {
			try(m.name+" prefix", m.b[:i])
		}
		for i := 0; i < len(m.b); i++ {
			for bit := 0; bit < 8; bit++ {
				c := append([]byte{}, m.b...)
				c[i] ^= 1 << uint(bit)
				try(m.name+" bit flip", c)
			}
			for _, v := range []byte{0x00, 0xff, 0x80, 0x7f} {
				c := append([]byte{}, m.b...)
				c[i] = v
				try(m.name+" octet", c)
			}
		}
	}
}
