//go:build verif

package tglib

// Bounded stand-ins at the level of the reflection-driven traversal (Marshal / Unmarshal, which the
// symbolic executor cannot enter): whole-PDU round trips (C04) and totality of the decoder on
// corrupted inputs (C14) over the messages the emulator builds.  Labelled bounded in the evidence.

import (
	"bytes"
	"fmt"
	"free5gclib/ngap"
	"math/rand"
	"os"
	"reflect"
	"strconv"
	"time"

	"vspec/ngap38413"
	"vspec/per"
	"vspec/vc"
)

type vcMsg struct {
	name string
	b    []byte
	err  error
}

func vcMessages() []vcMsg {
	var out []vcMsg
	add := func(n string, b []byte, err error) { out = append(out, vcMsg{n, b, err}) }
	nas := []byte{0x7e, 0x00, 0x41, 0x79, 0x00, 0x0d, 0x01, 0x02, 0xf8, 0x39, 0xf0, 0xff, 0x00, 0x00, 0x00, 0x00, 0x47, 0x78, 0x2e, 0x02, 0x80, 0x20}
	for _, amf := range []int64{0, 1, 255, 256, 65535, 65536, 1 << 32, 1<<40 - 1} {
		for _, ran := range []int64{0, 1, 4294967295} {
			b, e := GetUplinkNASTransport(amf, ran, nas)
			add(fmt.Sprintf("UplinkNASTransport(%d,%d)", amf, ran), b, e)
			b, e = GetInitialContextSetupResponse(amf, ran)
			add(fmt.Sprintf("InitialContextSetupResponse(%d,%d)", amf, ran), b, e)
			b, e = GetPDUSessionResourceSetupResponse(amf, ran, 5, "10.200.200.1")
			add(fmt.Sprintf("PDUSessionResourceSetupResponse(%d,%d)", amf, ran), b, e)
			b, e = GetInitialContextSetupResponseForServiceRequest(amf, ran, 5, "10.200.200.1")
			add(fmt.Sprintf("InitialContextSetupResponseForServiceRequest(%d,%d)", amf, ran), b, e)
			b, e = GetUEContextReleaseComplete(amf, ran, nil)
			add(fmt.Sprintf("UEContextReleaseComplete(%d,%d)", amf, ran), b, e)
			b, e = GetPDUSessionResourceReleaseResponse(amf, ran, 5)
			add(fmt.Sprintf("PDUSessionResourceReleaseResponse(%d,%d)", amf, ran), b, e)
		}
	}
	for _, ran := range []int64{0, 7, 4294967295} {
		for _, n := range []int{1, 2, 100, 127, 128, 300, 2000} {
			b, e := GetInitialUEMessage(ran, bytes.Repeat([]byte{0x5a}, n), "")
			add(fmt.Sprintf("InitialUEMessage(%d,nas %d)", ran, n), b, e)
		}
	}
	for _, bl := range []uint64{22, 24, 25, 32} {
		b, e := GetNGSetupRequest([]byte{0x00, 0x01, 0x02, 0x00}[:(bl+7)/8], []byte{0x02, 0xf8, 0x39}, bl, "open5gs")
		add(fmt.Sprintf("NGSetupRequest(bits %d)", bl), b, e)
	}
	return out
}

// prop: C04
// bound: the emulator's 8 message constructors x AMF-UE-NGAP-ID in {0,1,255,256,65535,65536,2^32,2^40-1} x RAN-UE-NGAP-ID in {0,1,2^32-1} x NAS-PDU lengths {1,2,100,127,128,300,2000} x gNB id lengths {22,24,25,32}: decode(encode(m)) re-encodes to the same octets and decodes to an equal structure
func vcBounded_ngapRoundTrip() {
	for _, m := range vcMessages() {
		if m.err != nil {
			panic(vc.Failure{Kind: "bounded", Label: fmt.Sprintf("%s: encoder refused an in-range message: %v", m.name, m.err)})
		}
		pdu, err := ngap.Decoder(m.b)
		if err != nil {
			panic(vc.Failure{Kind: "bounded", Label: fmt.Sprintf("%s: decoder refused the encoder's output % x: %v", m.name, m.b, err)})
		}
		b2, err := ngap.Encoder(*pdu)
		if err != nil || !bytes.Equal(b2, m.b) {
			panic(vc.Failure{Kind: "bounded", Label: fmt.Sprintf("%s: re-encoding differs: % x vs % x (%v)", m.name, m.b, b2, err)})
		}
		pdu2, err := ngap.Decoder(b2)
		if err != nil || !reflect.DeepEqual(pdu, pdu2) {
			panic(vc.Failure{Kind: "bounded", Label: fmt.Sprintf("%s: second decode differs", m.name)})
		}
	}
}

// prop: C14
// bound: every prefix, every single-bit flip and every single-octet replacement by 00/FF/80/7F of the encodings above (about 150 messages of 20..2100 octets): the decoder returns within 2 s with a value or an error, no panic; thorough tier: additionally 4000 seeded random corruptions of 2..6 octets (a quarter of them truncated) per message
func vcBounded_ngapDecoderTotal() {
	try := func(name string, b []byte) {
		done := make(chan string, 1)
		go func() {
			defer func() {
				if r := recover(); r != nil {
					done <- fmt.Sprintf("panic: %v", r)
				}
			}()
			ngap.Decoder(b)
			done <- ""
		}()
		select {
		case r := <-done:
			if r != "" {
				panic(vc.Failure{Kind: "bounded", Label: fmt.Sprintf("%s: input % x: %s", name, b, r)})
			}
		case <-time.After(2 * time.Second):
			panic(vc.Failure{Kind: "bounded", Label: fmt.Sprintf("%s: input % x: no result within 2 s", name, b)})
		}
	}
	seen := map[string]bool{}
	for _, m := range vcMessages() {
		if m.err != nil || len(m.b) > 400 && seen[m.name[:8]] {
			continue
		}
		seen[m.name[:8]] = true
		for i := 0; i <= len(m.b); i++ {
			try(m.name+" prefix", m.b[:i])
		}
		if os.Getenv("VERIF_TIER") == "thorough" {
			// thorough tier: 4000 random corruptions of 2..6 octets per message, and random truncations of them
			rnd := rand.New(rand.NewSource(int64(len(m.b)) + vcSeedValue()))
			for k := 0; k < 4000; k++ {
				c := append([]byte{}, m.b...)
				for j := 2 + rnd.Intn(5); j > 0; j-- {
					c[rnd.Intn(len(c))] = byte(rnd.Intn(256))
				}
				if rnd.Intn(4) == 0 {
					c = c[:rnd.Intn(len(c)+1)]
				}
				try(m.name+" random corruption", c)
			}
		}
		for i := 0; i < len(m.b); i++ {
			for bit := 0; bit < 8; bit++ {
				c := append([]byte{}, m.b...)
				c[i] ^= 1 << uint(bit)
				try(m.name+" bit flip", c)
			}
			for _, v := range []byte{0x00, 0xff, 0x80, 0x7f} {
				c := append([]byte{}, m.b...)
				c[i] = v
				try(m.name+" octet", c)
			}
		}
	}
}

// vcExpect describes what TS 38.413 9.2 prescribes for a message (see /verif/spec/ngap38413/messages.go).
type vcExpect struct {
	class, proc, crit int
	ies               []int // id, criticality pairs
}

// vcCheckIds: message class, procedure code and the two UE identifiers found by the walker are the
// caller's (for the wrappers no procedure of the emulator uses, the statement asks no more).
func vcCheckIds(name string, b []byte, class, proc int, amf, ran int64) {
	p, err := ngap38413.Walk(b)
	if err != nil {
		panic(vc.Failure{Kind: "bounded", Label: fmt.Sprintf("%s: reference walker rejects % x: %v", name, b, err)})
	}
	if p.Class != class || p.Procedure != proc {
		panic(vc.Failure{Kind: "bounded", Label: fmt.Sprintf("%s: class/procedure %d/%d, TS 38.413 says %d/%d", name, p.Class, p.Procedure, class, proc)})
	}
	sawAmf, sawRan := false, false
	for _, ie := range p.IEs {
		switch ie.ID {
		case ngap38413.IEAMFUENGAPID, ngap38413.IESourceAMFUENGAPID:
			sawAmf = true
			if v, err := ngap38413.DecodeLargeInteger(ie.Value, 5); err != nil || v != amf {
				panic(vc.Failure{Kind: "bounded", Label: fmt.Sprintf("%s: AMF-UE-NGAP-ID on the wire is %d (%v), the caller gave %d", name, v, err, amf)})
			}
		case ngap38413.IERANUENGAPID:
			sawRan = true
			if v, err := ngap38413.DecodeLargeInteger(ie.Value, 4); err != nil || v != ran {
				panic(vc.Failure{Kind: "bounded", Label: fmt.Sprintf("%s: RAN-UE-NGAP-ID on the wire is %d (%v), the caller gave %d", name, v, err, ran)})
			}
		}
	}
	if !sawAmf || !sawRan {
		panic(vc.Failure{Kind: "bounded", Label: fmt.Sprintf("%s: a UE identifier IE is missing", name)})
	}
}

func vcCheckWalk(name string, b []byte, e vcExpect, amf, ran int64, nas []byte) {
	p, err := ngap38413.Walk(b)
	if err != nil {
		panic(vc.Failure{Kind: "bounded", Label: fmt.Sprintf("%s: reference walker rejects % x: %v", name, b, err)})
	}
	if p.Class != e.class || p.Procedure != e.proc || p.Criticality != e.crit {
		panic(vc.Failure{Kind: "bounded", Label: fmt.Sprintf("%s: class/procedure/criticality %d/%d/%d, TS 38.413 says %d/%d/%d", name, p.Class, p.Procedure, p.Criticality, e.class, e.proc, e.crit)})
	}
	if len(p.IEs)*2 != len(e.ies) {
		panic(vc.Failure{Kind: "bounded", Label: fmt.Sprintf("%s: %d IEs, expected %d", name, len(p.IEs), len(e.ies)/2)})
	}
	for i, ie := range p.IEs {
		if ie.ID != e.ies[2*i] || ie.Criticality != e.ies[2*i+1] {
			panic(vc.Failure{Kind: "bounded", Label: fmt.Sprintf("%s: IE %d is id %d criticality %d, expected id %d criticality %d", name, i, ie.ID, ie.Criticality, e.ies[2*i], e.ies[2*i+1])})
		}
		switch ie.ID {
		case ngap38413.IEAMFUENGAPID, ngap38413.IESourceAMFUENGAPID:
			if v, err := ngap38413.DecodeLargeInteger(ie.Value, 5); err != nil || v != amf {
				panic(vc.Failure{Kind: "bounded", Label: fmt.Sprintf("%s: AMF-UE-NGAP-ID on the wire is %d (%v), the caller gave %d", name, v, err, amf)})
			}
		case ngap38413.IERANUENGAPID:
			if v, err := ngap38413.DecodeLargeInteger(ie.Value, 4); err != nil || v != ran {
				panic(vc.Failure{Kind: "bounded", Label: fmt.Sprintf("%s: RAN-UE-NGAP-ID on the wire is %d (%v), the caller gave %d", name, v, err, ran)})
			}
		case ngap38413.IENASPDU:
			// OCTET STRING without size constraint: length determinant, octets
			n, off := int(ie.Value[0]), 1
			if ie.Value[0]&0x80 != 0 {
				n, off = int(ie.Value[0]&0x3f)<<8|int(ie.Value[1]), 2
			}
			if n != len(nas) || !bytes.Equal(ie.Value[off:], nas) {
				panic(vc.Failure{Kind: "bounded", Label: fmt.Sprintf("%s: NAS-PDU on the wire differs from the caller's", name)})
			}
		}
	}
}

// prop: C13
// bound: NGSetupRequest for every gNB id length 22..32 x 4 bit patterns against the X.691 encoding of GlobalRANNodeID; the 14 build-and-encode wrappers (8 on the emulator's path, 6 others) x AMF-UE-NGAP-ID in {0,1,255,256,65535,65536,2^32,2^40-1} x RAN-UE-NGAP-ID in {0,1,2^32-1} x NAS-PDU lengths {1,100,127,128,300,2000}: an independent walker (TS 38.413 / X.691) finds class, procedure code, criticality, the IE ids and criticalities of clause 9.2 and the caller's identifiers and NAS-PDU; identifiers just outside their range (-1, 2^40, 2^32) are refused with an error
func vcBounded_wrappersOnTheWire() {
	R, I := ngap38413.Reject, ngap38413.Ignore
	nasLens := []int{1, 100, 127, 128, 300, 2000}
	for _, amf := range []int64{0, 1, 255, 256, 65535, 65536, 1 << 32, 1<<40 - 1} {
		for _, ran := range []int64{0, 1, 4294967295} {
			for _, n := range nasLens {
				nas := bytes.Repeat([]byte{0xA7}, n)
				b, err := GetUplinkNASTransport(amf, ran, nas)
				if err != nil {
					panic(vc.Failure{Kind: "bounded", Label: fmt.Sprintf("UplinkNASTransport(%d,%d) refused: %v", amf, ran, err)})
				}
				vcCheckWalk("UplinkNASTransport", b, vcExpect{0, ngap38413.ProcUplinkNASTransport, I, []int{ngap38413.IEAMFUENGAPID, R, ngap38413.IERANUENGAPID, R, ngap38413.IENASPDU, R, ngap38413.IEUserLocationInformation, I}}, amf, ran, nas)
			}
			b, err := GetInitialContextSetupResponse(amf, ran)
			if err != nil {
				panic(vc.Failure{Kind: "bounded", Label: fmt.Sprintf("InitialContextSetupResponse refused: %v", err)})
			}
			vcCheckWalk("InitialContextSetupResponse", b, vcExpect{1, ngap38413.ProcInitialContextSetup, R, []int{ngap38413.IEAMFUENGAPID, I, ngap38413.IERANUENGAPID, I}}, amf, ran, nil)
			b, err = GetPDUSessionResourceSetupResponse(amf, ran, 5, "10.200.200.1")
			if err != nil {
				panic(vc.Failure{Kind: "bounded", Label: fmt.Sprintf("PDUSessionResourceSetupResponse refused: %v", err)})
			}
			vcCheckWalk("PDUSessionResourceSetupResponse", b, vcExpect{1, ngap38413.ProcPDUSessionResourceSetup, R, []int{ngap38413.IEAMFUENGAPID, I, ngap38413.IERANUENGAPID, I, ngap38413.IEPDUSessionResourceSetupListSURes, I}}, amf, ran, nil)
			b, err = GetPDUSessionResourceReleaseResponse(amf, ran, 5)
			if err != nil {
				panic(vc.Failure{Kind: "bounded", Label: fmt.Sprintf("PDUSessionResourceReleaseResponse refused: %v", err)})
			}
			vcCheckWalk("PDUSessionResourceReleaseResponse", b, vcExpect{1, ngap38413.ProcPDUSessionResourceRelease, R, []int{ngap38413.IEAMFUENGAPID, I, ngap38413.IERANUENGAPID, I, ngap38413.IEPDUSessionResourceReleasedListRelRes, I}}, amf, ran, nil)
			b, err = GetUEContextReleaseComplete(amf, ran, nil)
			if err != nil {
				panic(vc.Failure{Kind: "bounded", Label: fmt.Sprintf("UEContextReleaseComplete refused: %v", err)})
			}
			vcCheckWalk("UEContextReleaseComplete", b, vcExpect{1, ngap38413.ProcUEContextRelease, R, []int{ngap38413.IEAMFUENGAPID, I, ngap38413.IERANUENGAPID, I, ngap38413.IEUserLocationInformation, I}}, amf, ran, nil)
			b, err = GetInitialContextSetupResponseForServiceRequest(amf, ran, 5, "10.200.200.1")
			if err != nil {
				panic(vc.Failure{Kind: "bounded", Label: fmt.Sprintf("InitialContextSetupResponseForServiceRequest refused: %v", err)})
			}
			vcCheckWalk("InitialContextSetupResponseForServiceRequest", b, vcExpect{1, ngap38413.ProcInitialContextSetup, R, []int{ngap38413.IEAMFUENGAPID, I, ngap38413.IERANUENGAPID, I, ngap38413.IEPDUSessionResourceSetupListCxtRes, I}}, amf, ran, nil)
			// the wrappers of tglib that no procedure of the emulator calls (handover, path switch, paging, release request)
			b, err = GetUEContextReleaseRequest(amf, ran, []int64{5})
			if err != nil {
				panic(vc.Failure{Kind: "bounded", Label: fmt.Sprintf("UEContextReleaseRequest refused: %v", err)})
			}
			vcCheckIds("UEContextReleaseRequest", b, 0, ngap38413.ProcUEContextReleaseRequest, amf, ran)
			b, err = GetPathSwitchRequest(amf, ran)
			if err != nil {
				panic(vc.Failure{Kind: "bounded", Label: fmt.Sprintf("PathSwitchRequest refused: %v", err)})
			}
			vcCheckIds("PathSwitchRequest", b, 0, ngap38413.ProcPathSwitchRequest, amf, ran)
			b, err = GetHandoverRequired(amf, ran, []byte{0x00, 0x01, 0x02}, []byte{0x01, 0x20})
			if err != nil {
				panic(vc.Failure{Kind: "bounded", Label: fmt.Sprintf("HandoverRequired refused: %v", err)})
			}
			vcCheckIds("HandoverRequired", b, 0, ngap38413.ProcHandoverPreparation, amf, ran)
			b, err = GetHandoverRequestAcknowledge(amf, ran)
			if err != nil {
				panic(vc.Failure{Kind: "bounded", Label: fmt.Sprintf("HandoverRequestAcknowledge refused: %v", err)})
			}
			vcCheckIds("HandoverRequestAcknowledge", b, 1, ngap38413.ProcHandoverResourceAllocation, amf, ran)
			b, err = GetHandoverNotify(amf, ran)
			if err != nil {
				panic(vc.Failure{Kind: "bounded", Label: fmt.Sprintf("HandoverNotify refused: %v", err)})
			}
			vcCheckIds("HandoverNotify", b, 0, ngap38413.ProcHandoverNotification, amf, ran)
			b, err = GetPDUSessionResourceSetupResponseForPaging(amf, ran, "10.200.200.1")
			if err != nil {
				panic(vc.Failure{Kind: "bounded", Label: fmt.Sprintf("PDUSessionResourceSetupResponseForPaging refused: %v", err)})
			}
			vcCheckIds("PDUSessionResourceSetupResponseForPaging", b, 1, ngap38413.ProcPDUSessionResourceSetup, amf, ran)
		}
	}
	for _, ran := range []int64{0, 7, 4294967295} {
		for _, n := range nasLens {
			nas := bytes.Repeat([]byte{0x3C}, n)
			b, err := GetInitialUEMessage(ran, nas, "")
			if err != nil {
				panic(vc.Failure{Kind: "bounded", Label: fmt.Sprintf("InitialUEMessage refused: %v", err)})
			}
			vcCheckWalk("InitialUEMessage", b, vcExpect{0, ngap38413.ProcInitialUEMessage, I, []int{ngap38413.IERANUENGAPID, R, ngap38413.IENASPDU, R, ngap38413.IEUserLocationInformation, R, ngap38413.IERRCEstablishmentCause, I, ngap38413.IEUEContextRequest, I}}, 0, ran, nas)
		}
	}
	b, err := GetNGSetupRequest([]byte{0, 1, 2}, []byte{0x02, 0xf8, 0x39}, 24, "open5gs")
	if err != nil {
		panic(vc.Failure{Kind: "bounded", Label: fmt.Sprintf("NGSetupRequest refused: %v", err)})
	}
	vcCheckWalk("NGSetupRequest", b, vcExpect{0, ngap38413.ProcNGSetup, R, []int{ngap38413.IEGlobalRANNodeID, R, ngap38413.IERANNodeName, I, ngap38413.IESupportedTAList, R, ngap38413.IEDefaultPagingDRX, I}}, 0, 0, nil)
	// gNB id of every legal length 22..32 with all bits set / alternating: the GlobalRANNodeID IE value is
	// the X.691 encoding of { globalGNB-ID { pLMNIdentity, gNB-ID gNB-ID : BIT STRING (SIZE (22..32)) } }
	for bl := uint64(22); bl <= 32; bl++ {
		for _, pat := range []byte{0xff, 0xa5, 0x5a, 0x01} {
			id := bytes.Repeat([]byte{pat}, int((bl+7)/8))
			if r := bl % 8; r != 0 {
				id[len(id)-1] &= 0xff << (8 - r) // the caller's id is left-justified: unused low bits zero
			}
			plmn := []byte{0x02, 0xf8, 0x39}
			b, err := GetNGSetupRequest(append([]byte{}, id...), plmn, bl, "gnb")
			if err != nil {
				panic(vc.Failure{Kind: "bounded", Label: fmt.Sprintf("NGSetupRequest(gNB id %d bits) refused: %v", bl, err)})
			}
			p, err := ngap38413.Walk(b)
			if err != nil || len(p.IEs) < 1 || p.IEs[0].ID != ngap38413.IEGlobalRANNodeID {
				panic(vc.Failure{Kind: "bounded", Label: fmt.Sprintf("NGSetupRequest(gNB id %d bits): walker: %v", bl, err)})
			}
			w := &per.W{}
			w.PutBit(0)    // GlobalRANNodeID: extension bit
			w.Put(0, 2)    // alternative globalGNB-ID of 3 root alternatives
			w.PutBit(0)    // GlobalGNB-ID: extension bit
			w.PutBit(0)    // iE-Extensions absent
			w.OctetString(plmn, true, 3, 3, false)
			w.PutBit(0) // GNB-ID: extension bit
			w.Put(0, 0) // single root alternative: no index bits
			w.BitString(id, int(bl), true, 22, 32, false)
			w.Align()
			if !bytes.Equal(p.IEs[0].Value, w.B) {
				panic(vc.Failure{Kind: "bounded", Label: fmt.Sprintf("NGSetupRequest: gNB id % x (%d bits) is on the wire as % x, X.691 says % x", id, bl, p.IEs[0].Value, w.B)})
			}
		}
	}
	// out-of-range identifiers are refused, not truncated
	for _, bad := range [][2]int64{{-1, 1}, {1 << 40, 1}, {1, -1}, {1, 1 << 32}} {
		if _, err := GetUplinkNASTransport(bad[0], bad[1], []byte{1}); err == nil {
			panic(vc.Failure{Kind: "bounded", Label: fmt.Sprintf("UplinkNASTransport(%d,%d): out-of-range identifier was put on the wire", bad[0], bad[1])})
		}
	}
	if _, err := GetPDUSessionResourceSetupResponse(1, 1, 256, "10.0.0.1"); err == nil {
		panic(vc.Failure{Kind: "bounded", Label: "PDU session id 256 was put on the wire"})
	}
}

func vcSeedValue() int64 {
	v, _ := strconv.ParseInt(os.Getenv("VERIF_SEED"), 10, 64)
	return v
}
