//go:build verif

package aper

// Ghost helpers used by the contracts of this package (specification only).

// vcInv is the decoder cursor invariant.
func vcInv(pd *perBitData) bool {
	return pd.byteOffset <= uint64(len(pd.bytes)) && pd.bitsOffset <= 7 &&
		(pd.bitsOffset == 0 || pd.byteOffset < uint64(len(pd.bytes))) && len(pd.bytes) <= 1<<32
}

// vcBitsLeft is the number of unread bits.
func vcBitsLeft(byteOffset uint64, bitsOffset uint, n int) uint64 {
	return (uint64(n)-byteOffset)*8 - uint64(bitsOffset)
}

// vcEInv is the encoder cursor invariant.
func vcEInv(pd *perRawBitData) bool {
	return pd.bitsOffset <= 7 && len(pd.bytes) <= 1<<30 &&
		(pd.bitsOffset == 0 || (len(pd.bytes) >= 1 && pd.bytes[len(pd.bytes)-1]&(0xff>>pd.bitsOffset) == 0))
}

// vcBitLen is the number of bits encoded so far.
func vcBitLen(pd *perRawBitData) uint64 {
	if pd.bitsOffset == 0 {
		return 8 * uint64(len(pd.bytes))
	}
	return 8*uint64(len(pd.bytes)) - 8 + uint64(pd.bitsOffset)
}

// vcRange is the number of values of a constraint lb..ub (-1 when a bound is missing).
func vcRange(lb, ub *int64) int64 {
	if lb == nil || ub == nil {
		return -1
	}
	return *ub - *lb + 1
}

func vcB2U(b bool) uint64 {
	if b {
		return 1
	}
	return 0
}
