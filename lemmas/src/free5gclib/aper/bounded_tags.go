//go:build verif

package aper

// Bounded stand-in for the struct-tag parser (C03, C04: "constraint metadata in struct tags, parsed by
// common.go"): the REAL parseFieldParameters against an independent scanner of the tag grammar
// (comma-separated parts; flags optional / sizeExt / valueExt / openType; numeric parts sizeLB, sizeUB,
// valueLB, valueUB, default, referenceFieldValue; the string part referenceFieldName; anything else
// is ignored) over every combination shape that occurs in ngapType and over random part lists with
// boundary numbers.  Labelled bounded in the evidence, never counted as proved.

import (
	"fmt"
	"os"
	"strings"
)

type vcTagWant struct {
	optional, sizeExt, valueExt, openType bool
	num                                   map[string]int64
	refName                               string
}

// vcScanTag is the independent reading of a tag: a hand-written scanner that shares nothing with
// strings.Split / strconv.ParseInt.
func vcScanTag(tag string) vcTagWant {
	w := vcTagWant{num: map[string]int64{}}
	i := 0
	for i <= len(tag) {
		j := i
		for j < len(tag) && tag[j] != ',' {
			j++
		}
		part := tag[i:j]
		i = j + 1
		k := 0
		for k < len(part) && part[k] != ':' {
			k++
		}
		key, val, hasVal := part[:k], "", k < len(part)
		if hasVal {
			val = part[k+1:]
		}
		switch {
		case !hasVal && key == "optional":
			w.optional = true
		case !hasVal && key == "sizeExt":
			w.sizeExt = true
		case !hasVal && key == "valueExt":
			w.valueExt = true
		case !hasVal && key == "openType":
			w.openType = true
		case hasVal && key == "referenceFieldName":
			w.refName = val
		case hasVal && (key == "sizeLB" || key == "sizeUB" || key == "valueLB" || key == "valueUB" || key == "default" || key == "referenceFieldValue"):
			neg, d, ok := false, 0, len(val) > 0
			if ok && (val[0] == '-' || val[0] == '+') {
				neg = val[0] == '-'
				d = 1
				ok = len(val) > 1
			}
			var n int64
			for ; ok && d < len(val); d++ {
				if val[d] < '0' || val[d] > '9' || n > (1<<62)/10 {
					ok = false
					break
				}
				n = n*10 + int64(val[d]-'0')
			}
			if ok {
				if neg {
					n = -n
				}
				w.num[key] = n
			}
		}
	}
	return w
}

func vcTagCheck(tag string) {
	got := parseFieldParameters(tag)
	w := vcScanTag(tag)
	bad := func(what string, g, e interface{}) {
		vcFail("parseFieldParameters", "tag %q: %s = %v, the tag says %v", tag, what, g, e)
	}
	if got.optional != w.optional {
		bad("optional", got.optional, w.optional)
	}
	if got.sizeExtensible != w.sizeExt {
		bad("sizeExt", got.sizeExtensible, w.sizeExt)
	}
	if got.valueExtensible != w.valueExt {
		bad("valueExt", got.valueExtensible, w.valueExt)
	}
	if got.openType != w.openType {
		bad("openType", got.openType, w.openType)
	}
	if got.referenceFieldName != w.refName {
		bad("referenceFieldName", got.referenceFieldName, w.refName)
	}
	for key, p := range map[string]*int64{"sizeLB": got.sizeLowerBound, "sizeUB": got.sizeUpperBound, "valueLB": got.valueLowerBound,
		"valueUB": got.valueUpperBound, "default": got.defaultValue, "referenceFieldValue": got.referenceFieldValue} {
		e, has := w.num[key]
		switch {
		case has && p == nil:
			bad(key, "absent", e)
		case !has && p != nil:
			bad(key, *p, "absent")
		case has && *p != e:
			bad(key, *p, e)
		}
	}
}

// prop: C03 C04
// bound: the 40 tag shapes of ngapType (with their boundary numbers) + 300 (thorough: 20000) random part lists of up to 6 parts with numbers from {0, 1, -1, 63, 255, 256, 65535, 65536, 131071, 4294967295, 1099511627775, 4000000000000, -2^40} and unknown parts
func vcBounded_tagParser() {
	for _, tag := range []string{
		"", "optional", "valueExt", "sizeExt", "openType", "valueLB:0,valueUB:255", "valueExt,valueLB:0,valueUB:255", "valueLB:0,valueUB:65535",
		"valueLB:0,valueUB:4294967295", "valueLB:0,valueUB:1099511627775", "valueExt,valueLB:0,valueUB:4000000000000", "valueLB:0,valueUB:131071",
		"valueLB:1,valueUB:256", "valueLB:-1,valueUB:1", "valueExt,valueLB:1,valueUB:16,optional", "sizeLB:3,sizeUB:3", "sizeLB:4,sizeUB:4",
		"sizeExt,sizeLB:1,sizeUB:150", "sizeExt,sizeLB:1,sizeUB:160", "sizeLB:0,sizeUB:65535", "sizeLB:1,sizeUB:65536", "sizeLB:22,sizeUB:32",
		"sizeLB:1,sizeUB:256,optional", "valueExt,optional", "optional,sizeLB:1,sizeUB:16", "choiceIdx:1,valueLB:0,valueUB:2", "choiceLB:0,choiceUB:3",
		"valueLB:0,valueUB:2", "valueExt,valueLB:0,valueUB:2", "openType,referenceFieldName:Id", "referenceFieldValue:10,valueExt", "referenceFieldValue:0",
		"choiceExt,valueLB:0,valueUB:1", "sizeLB:36,sizeUB:36", "sizeLB:8,sizeUB:8,optional", "default:0", "valueLB:0,valueUB:15,default:7",
		"sizeLB:1,sizeUB:1024", "sizeLB:1,sizeUB:64", "optional,valueExt,valueLB:0,valueUB:255",
	} {
		vcTagCheck(tag)
	}
	rnd := vcSeed()
	nums := []int64{0, 1, -1, 63, 255, 256, 65535, 65536, 131071, 4294967295, 1099511627775, 4000000000000, -(1 << 40)}
	keys := []string{"sizeLB", "sizeUB", "valueLB", "valueUB", "default", "referenceFieldValue"}
	flags := []string{"optional", "sizeExt", "valueExt", "openType", "choiceExt", "unknownFlag", ""}
	n := 300
	if os.Getenv("VERIF_TIER") == "thorough" {
		n = 20000
	}
	for t := 0; t < n; t++ {
		var parts []string
		for k := rnd.Intn(7); k > 0; k-- {
			switch rnd.Intn(4) {
			case 0:
				parts = append(parts, flags[rnd.Intn(len(flags))])
			case 1, 2:
				parts = append(parts, fmt.Sprintf("%s:%d", keys[rnd.Intn(len(keys))], nums[rnd.Intn(len(nums))]))
			default:
				parts = append(parts, []string{"referenceFieldName:Id", "referenceFieldName:ProcedureCode", "valueLB:", "sizeUB:x1", "valueUB:12a", "other:3"}[rnd.Intn(6)])
			}
		}
		vcTagCheck(strings.Join(parts, ","))
	}
}
