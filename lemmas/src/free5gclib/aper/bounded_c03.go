//go:build verif

package aper

// Bounded stand-ins for the functional content of the encoder primitives (C03) and for the
// encode/decode round trips (C04).  Each runs the REAL functions natively on an enumerated family
// and compares with the reference encoder /verif/spec/per/ref.go (written from X.691).  They are
// labelled bounded in the evidence and never counted as proved.

import (
	"bytes"
	"fmt"
	"math/rand"
	"os"
	"strconv"

	"vspec/per"
	"vspec/vc"
)

func vcSeed() *rand.Rand {
	s, _ := strconv.ParseInt(os.Getenv("VERIF_SEED"), 10, 64)
	return rand.New(rand.NewSource(s + 1))
}

func vcFail(label string, f string, a ...interface{}) {
	panic(vc.Failure{Kind: "bounded", Label: label + ": " + fmt.Sprintf(f, a...)})
}

// prefixes: an encoder holding `off` bits of an arbitrary pattern, and the same in the reference.
func vcStartPair(off int, pat byte) (*perRawBitData, *per.W) {
	w := &per.W{}
	pd := &perRawBitData{}
	if off > 0 {
		w.Put(uint64(pat>>uint(8-off)), off)
		pd.bytes = []byte{pat & (0xff << uint(8-off))}
		pd.bitsOffset = uint(off)
	}
	return pd, w
}

func vcSame(label string, pd *perRawBitData, w *per.W, ctx string) {
	n := 8 * len(pd.bytes)
	if pd.bitsOffset != 0 {
		n = n - 8 + int(pd.bitsOffset)
	}
	if n != w.N || !bytes.Equal(pd.bytes, w.B) {
		vcFail(label, "%s: code wrote %d bits % x, X.691 says %d bits % x", ctx, n, pd.bytes, w.N, w.B)
	}
}

func vcValues(rnd *rand.Rand, max uint64) []uint64 {
	vs := []uint64{0, max}
	if max >= 1 {
		vs = append(vs, 1, max-1, max/2)
	}
	// thorough tier: 120 random values per family instead of 6
	nr := 6
	if os.Getenv("VERIF_TIER") == "thorough" {
		nr = 120
	}
	for i := 0; i < nr; i++ {
		if max == ^uint64(0) {
			vs = append(vs, rnd.Uint64())
		} else {
			vs = append(vs, rnd.Uint64()%(max+1))
		}
	}
	return vs
}

// prop: C03 C04
// bound: every alignment 0..7 x every width 1..64 x 11 values per width (0, 1, max, max-1, max/2, 6 random; 120 random in the thorough tier, here and in the other families)
func vcBounded_putBitsValue() {
	rnd := vcSeed()
	for off := 0; off < 8; off++ {
		for n := 1; n <= 64; n++ {
			max := ^uint64(0)
			if n < 64 {
				max = uint64(1)<<uint(n) - 1
			}
			for _, v := range vcValues(rnd, max) {
				pd, w := vcStartPair(off, 0xA5)
				if err := pd.putBitsValue(v, uint(n)); err != nil {
					vcFail("putBitsValue", "off %d width %d value %#x refused: %v", off, n, v, err)
				}
				w.Put(v, n)
				vcSame("putBitsValue", pd, w, fmt.Sprintf("off %d width %d value %#x", off, n, v))
				rd := &perBitData{bytes: pd.bytes, byteOffset: 0, bitsOffset: uint(off)}
				got, err := rd.getBitsValue(uint(n))
				if err != nil || got != v {
					vcFail("getBitsValue", "off %d width %d: wrote %#x read %#x err %v", off, n, v, got, err)
				}
			}
			if n < 64 {
				pd, _ := vcStartPair(off, 0xA5)
				if err := pd.putBitsValue(uint64(1)<<uint(n), uint(n)); err == nil {
					vcFail("putBitsValue", "width %d: value 2^%d accepted", n, n)
				}
			}
		}
	}
}

// prop: C03 C04
// bound: every alignment 0..7 x ranges 2..600, 65535, 65536 and 40 random ones x 11 values per range
func vcBounded_constrainedWholeNumber() {
	rnd := vcSeed()
	var ranges []int64
	for r := int64(2); r <= 600; r++ {
		ranges = append(ranges, r)
	}
	ranges = append(ranges, 65535, 65536)
	for i := 0; i < 40; i++ {
		ranges = append(ranges, 2+rnd.Int63n(65534))
	}
	for off := 0; off < 8; off++ {
		for _, r := range ranges {
			for _, v := range vcValues(rnd, uint64(r-1)) {
				pd, w := vcStartPair(off, 0x5A)
				if err := pd.appendConstraintValue(r, v); err != nil {
					vcFail("appendConstraintValue", "range %d value %d refused: %v", r, v, err)
				}
				w.ConstrainedWholeNumber(0, r-1, int64(v))
				vcSame("appendConstraintValue", pd, w, fmt.Sprintf("off %d range %d value %d", off, r, v))
				rd := &perBitData{bytes: pd.bytes, bitsOffset: uint(off)}
				got, err := rd.parseConstraintValue(r)
				if err != nil || got != v {
					vcFail("parseConstraintValue", "off %d range %d: wrote %d read %d err %v", off, r, v, got, err)
				}
			}
		}
	}
}

// prop: C03 C04
// bound: every alignment 0..7 x every unconstrained length 0..16383 (one and two octet forms), and the constrained forms via constrainedWholeNumber
func vcBounded_lengthDeterminant() {
	for off := 0; off < 8; off++ {
		for n := 0; n <= 16383; n++ {
			pd, w := vcStartPair(off, 0xFF)
			if err := pd.appendLength(-1, uint64(n)); err != nil {
				vcFail("appendLength", "length %d refused: %v", n, err)
			}
			w.UnconstrainedLength(n)
			vcSame("appendLength", pd, w, fmt.Sprintf("off %d length %d", off, n))
			rd := &perBitData{bytes: pd.bytes, bitsOffset: uint(off)}
			var rep bool
			got, err := rd.parseLength(-1, &rep)
			if err != nil || got != uint64(n) || rep {
				vcFail("parseLength", "off %d: wrote %d read %d repeat %v err %v", off, n, got, rep, err)
			}
		}
	}
}

type vcIntCase struct {
	hasLB, hasUB bool
	lb, ub       int64
	ext          bool
}

// prop: C03 C04 C13
// bound: every alignment 0..7 x 23 constraint tuples (the NGAP ones 0..255, 0..65535, 0..131071, 0..262143, 0..1048575, 0..2^32-1, 0..2^40-1, 0..4e12 extensible, 0..4095, 1..256, 0..63, -?; 0..2^33-1, 0..2^24; semi-constrained; unconstrained; extensible) x boundary and random values incl. out-of-range ones
func vcBounded_integer() {
	rnd := vcSeed()
	cases := []vcIntCase{
		{true, true, 0, 255, false}, {true, true, 0, 65535, false}, {true, true, 0, 4294967295, false}, {true, true, 0, 1099511627775, false},
		{true, true, 0, 4095, false}, {true, true, 1, 256, false}, {true, true, 0, 63, false}, {true, true, 1, 65536, false}, {true, true, 0, 16777215, false},
		{true, true, -10, 10, false}, {true, true, 5, 5, false}, {true, true, 0, 7, true}, {true, true, 0, 255, true}, {true, true, 0, 4294967295, true},
		{true, false, 0, 0, false}, {true, false, 1, 0, false}, {false, false, 0, 0, false},
		// ranges whose size lies just above a power of 256: RepetitionPeriod, COUNT values, BitRate, and 2^32+1..2^33
		{true, true, 0, 131071, false}, {true, true, 0, 262143, false}, {true, true, 0, 1048575, false}, {true, true, 0, 4000000000000, true}, {true, true, 0, 8589934591, false}, {true, true, 0, 16777216, false},
	}
	for off := 0; off < 8; off++ {
		for _, c := range cases {
			var vals []int64
			if c.hasLB && c.hasUB {
				for _, v := range vcValues(rnd, uint64(c.ub-c.lb)) {
					vals = append(vals, c.lb+int64(v))
				}
				vals = append(vals, c.lb-1, c.ub+1, c.ub+1000)
			} else if c.hasLB {
				vals = []int64{c.lb, c.lb + 1, c.lb + 127, c.lb + 128, c.lb + 255, c.lb + 256, c.lb + 65535, c.lb + 65536, c.lb + 1<<40, c.lb - 1}
			} else {
				vals = []int64{0, 1, -1, 127, 128, -128, -129, 32767, 32768, -32768, -32769, 1 << 40, -(1 << 40)}
			}
			for _, v := range vals {
				pd, w := vcStartPair(off, 0x33)
				var lbp, ubp *int64
				if c.hasLB {
					lb := c.lb
					lbp = &lb
				}
				if c.hasUB {
					ub := c.ub
					ubp = &ub
				}
				err := pd.appendInteger(v, c.ext, lbp, ubp)
				legal := (!c.hasLB || v >= c.lb) && (!c.hasUB || v <= c.ub || c.ext)
				if !legal {
					if err == nil {
						vcFail("appendInteger", "constraint %+v: out-of-range value %d was put on the wire", c, v)
					}
					continue
				}
				if err != nil {
					vcFail("appendInteger", "constraint %+v value %d refused: %v", c, v, err)
				}
				w.Integer(v, c.hasLB, c.lb, c.hasUB, c.ub, c.ext)
				vcSame("appendInteger", pd, w, fmt.Sprintf("off %d constraint %+v value %d", off, c, v))
				if c.ext {
					continue // the decoder of this library does not read the extension bit of INTEGER itself (its caller does)
				}
				rd := &perBitData{bytes: pd.bytes, bitsOffset: uint(off)}
				got, err := rd.parseInteger(false, lbp, ubp)
				if err != nil || got != v {
					vcFail("parseInteger", "off %d constraint %+v: wrote %d read %d err %v", off, c, v, got, err)
				}
			}
		}
	}
}

// prop: C03 C04
// bound: alignments 0..7 x constraints {none, SIZE(0..255), SIZE(1..150), SIZE(1..150, ...), SIZE(2..4, ...), SIZE(3), SIZE(2), SIZE(4), SIZE(1..32, ...)} x lengths 0..300 (within and, for extensible, beyond the constraint); each encoding is decoded back by parseOctetString (C04); no fragmented lengths
func vcBounded_octetString() {
	rnd := vcSeed()
	type oc struct {
		hasC   bool
		lb, ub int64
		ext    bool
	}
	cases := []oc{{false, 0, 0, false}, {true, 0, 255, false}, {true, 1, 150, false}, {true, 1, 150, true}, {true, 2, 4, true}, {true, 3, 3, false}, {true, 2, 2, false}, {true, 4, 4, false}, {true, 1, 32, true}, {true, 0, 65535, false}}
	for off := 0; off < 8; off++ {
		for _, c := range cases {
			for n := 0; n <= 300; n++ {
				legal := !c.hasC || (int64(n) >= c.lb && int64(n) <= c.ub) || (c.ext && int64(n) >= 0)
				if c.hasC && int64(n) < c.lb {
					continue // below the lower bound: outside the claim (the library does not check lower bounds of sizes)
				}
				s := make([]byte, n)
				rnd.Read(s)
				pd, w := vcStartPair(off, 0xC3)
				var lbp, ubp *int64
				if c.hasC {
					lb, ub := c.lb, c.ub
					lbp, ubp = &lb, &ub
				}
				err := pd.appendOctetString(s, c.ext, lbp, ubp)
				if !legal {
					if err == nil {
						vcFail("appendOctetString", "constraint %+v: a string of %d octets was put on the wire", c, n)
					}
					continue
				}
				if err != nil {
					vcFail("appendOctetString", "constraint %+v length %d refused: %v", c, n, err)
				}
				w.OctetString(s, c.hasC, c.lb, c.ub, c.ext)
				vcSame("appendOctetString", pd, w, fmt.Sprintf("off %d constraint %+v length %d", off, c, n))
				// and back (C04): the decoder, told the extension bit it finds as parseField tells it, returns the string
				bd := vcDecoderAfter(pd, off)
				extensed := false
				if c.ext {
					b, err := bd.getBitsValue(1)
					if err != nil {
						vcFail("parseOctetString", "constraint %+v length %d: no extension bit: %v", c, n, err)
					}
					extensed = b != 0
				}
				got, err := bd.parseOctetString(extensed, lbp, ubp)
				if err != nil || !bytes.Equal(got, s) {
					vcFail("parseOctetString", "off %d constraint %+v length %d: decoded % x (err %v), encoded % x", off, c, n, []byte(got), err, s)
				}
				vcAtEnd("parseOctetString", bd, pd, fmt.Sprintf("off %d constraint %+v length %d", off, c, n))
			}
		}
	}
}

// prop: C03 C04
// bound: alignments 0..7 x constraints {SIZE(22..32) gNB id, SIZE(1..160, ...) transport address, SIZE(16, ...) security algorithms, SIZE(8, ...) RAT restriction, SIZE(8), SIZE(16), SIZE(24), SIZE(36), none} x every legal length up to 200 bits; each encoding is decoded back by parseBitString (C04)
func vcBounded_bitString() {
	rnd := vcSeed()
	type bc struct {
		hasC   bool
		lb, ub int64
		ext    bool
	}
	cases := []bc{{true, 22, 32, false}, {true, 1, 160, true}, {true, 16, 16, true}, {true, 8, 8, true}, {true, 8, 8, false}, {true, 16, 16, false}, {true, 24, 24, false}, {true, 36, 36, false}, {false, 0, 0, false}}
	for off := 0; off < 8; off++ {
		for _, c := range cases {
			for n := 1; n <= 200; n++ {
				if c.hasC && (int64(n) < c.lb || (int64(n) > c.ub && !c.ext)) {
					continue
				}
				s := make([]byte, (n+7)/8)
				rnd.Read(s)
				if n%8 != 0 {
					s[len(s)-1] &= 0xff << uint(8-n%8)
				}
				pd, w := vcStartPair(off, 0x0F)
				var lbp, ubp *int64
				if c.hasC {
					lb, ub := c.lb, c.ub
					lbp, ubp = &lb, &ub
				}
				if err := pd.appendBitString(append([]byte{}, s...), uint64(n), c.ext, lbp, ubp); err != nil {
					vcFail("appendBitString", "constraint %+v length %d refused: %v", c, n, err)
				}
				w.BitString(s, n, c.hasC, c.lb, c.ub, c.ext)
				vcSame("appendBitString", pd, w, fmt.Sprintf("off %d constraint %+v bits %d", off, c, n))
				// and back (C04)
				bd := vcDecoderAfter(pd, off)
				extensed := false
				if c.ext {
					b, err := bd.getBitsValue(1)
					if err != nil {
						vcFail("parseBitString", "constraint %+v bits %d: no extension bit: %v", c, n, err)
					}
					extensed = b != 0
				}
				got, err := bd.parseBitString(extensed, lbp, ubp)
				if err != nil || got.BitLength != uint64(n) || !bytes.Equal(got.Bytes, s) {
					vcFail("parseBitString", "off %d constraint %+v bits %d: decoded %d bits % x (err %v), encoded % x", off, c, n, got.BitLength, got.Bytes, err, s)
				}
				vcAtEnd("parseBitString", bd, pd, fmt.Sprintf("off %d constraint %+v bits %d", off, c, n))
			}
		}
	}
}

// vcDecoderAfter: a decoder over what pd holds, positioned after the off prefix bits.
func vcDecoderAfter(pd *perRawBitData, off int) *perBitData {
	return &perBitData{bytes: append([]byte{}, pd.bytes...), byteOffset: 0, bitsOffset: uint(off)}
}

// vcAtEnd: the decoder's cursor stands where the encoder stopped.
func vcAtEnd(label string, bd *perBitData, pd *perRawBitData, ctx string) {
	end := 8 * uint64(len(pd.bytes))
	if pd.bitsOffset != 0 {
		end = end - 8 + uint64(pd.bitsOffset)
	}
	if cur := 8*bd.byteOffset + uint64(bd.bitsOffset); cur != end {
		vcFail(label, "%s: decoder stops at bit %d, the encoding ends at bit %d", ctx, cur, end)
	}
}
