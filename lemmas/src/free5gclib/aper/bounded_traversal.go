//go:build verif

package aper

// Bounded stand-in for the reflection-driven traversal of the codec (makeField, the SEQUENCE
// preamble, SEQUENCE OF, CHOICE, open types; parseField and friends on the way back), which the
// symbolic executor cannot enter: small synthetic ASN.1 types, one per construct, are encoded with
// the real Marshal and compared bit by bit with a reference encoding assembled by hand from X.691
// (preamble 19.2-19.3, SEQUENCE OF 20 with 11.9 / 11.5.7, CHOICE 23, open type 11.2 / 11.9), and the
// real Unmarshal must give the value back.  Labelled bounded, never counted as proved.

import (
	"bytes"
	"fmt"
	"reflect"

	"vspec/per"
)

type vcInner struct {
	X int64 `aper:"valueLB:0,valueUB:255"`
}

// SEQUENCE { a INTEGER (0..7), b Inner OPTIONAL, c OCTET STRING (SIZE (1..4)) OPTIONAL, d BOOLEAN, e ENUMERATED {x, y, z}, ... }
type vcSeq struct {
	A int64        `aper:"valueLB:0,valueUB:7"`
	B *vcInner     `aper:"optional"`
	C *OctetString `aper:"sizeLB:1,sizeUB:4,optional"`
	D bool
	E Enumerated `aper:"valueLB:0,valueUB:2"`
	G Enumerated `aper:"valueExt,valueLB:0,valueUB:0"` // ENUMERATED { only, ... }: the extension bit and nothing else
	F BitString  `aper:"sizeLB:22,sizeUB:32"`
	H int64      `aper:"valueLB:0,valueUB:255"`
}

func vcRefInner(w *per.W, v vcInner) { w.ConstrainedWholeNumber(0, 255, v.X) }

func vcRefSeq(w *per.W, v vcSeq, ext bool) {
	if ext {
		w.PutBit(0)
	}
	if v.B != nil {
		w.PutBit(1)
	} else {
		w.PutBit(0)
	}
	if v.C != nil {
		w.PutBit(1)
	} else {
		w.PutBit(0)
	}
	w.ConstrainedWholeNumber(0, 7, v.A)
	if v.B != nil {
		vcRefInner(w, *v.B)
	}
	if v.C != nil {
		w.OctetString([]byte(*v.C), true, 1, 4, false)
	}
	if v.D {
		w.PutBit(1)
	} else {
		w.PutBit(0)
	}
	w.ConstrainedWholeNumber(0, 2, int64(v.E))
	w.PutBit(0)
	w.BitString(v.F.Bytes, int(v.F.BitLength), true, 22, 32, false)
	w.ConstrainedWholeNumber(0, 255, v.H)
}

// vcBits is a BIT STRING of n bits with a recognisable pattern (padding bits zero).
func vcBits(n int) BitString {
	b := make([]byte, (n+7)/8)
	for i := range b {
		b[i] = byte(0xC3 ^ i*29)
	}
	if r := n % 8; r != 0 {
		b[len(b)-1] &= 0xff << uint(8-r)
	}
	return BitString{Bytes: b, BitLength: uint64(n)}
}

// SEQUENCE (SIZE (lb..ub [, ...])) OF Inner, under the size constraints NGAP uses
type vcList16 struct {
	L []vcInner `aper:"sizeLB:1,sizeUB:16"`
}
type vcList256 struct {
	L []vcInner `aper:"sizeLB:1,sizeUB:256"`
}
type vcList0255 struct {
	L []vcInner `aper:"sizeLB:0,sizeUB:255"`
}
type vcList65535 struct {
	L []vcInner `aper:"sizeLB:1,sizeUB:65535"`
}
type vcList65536 struct {
	L []vcInner `aper:"sizeLB:1,sizeUB:65536"`
}
type vcListFix struct {
	L []vcInner `aper:"sizeLB:2,sizeUB:2"`
}
type vcListExt struct {
	L []vcInner `aper:"sizeExt,sizeLB:1,sizeUB:4"`
}

func vcRefList(w *per.W, l []vcInner, lb, ub int64, ext bool) {
	n := int64(len(l))
	if ext {
		if n > ub {
			w.PutBit(1)
			w.UnconstrainedLength(int(n))
			for _, e := range l {
				vcRefInner(w, e)
			}
			return
		}
		w.PutBit(0)
	}
	switch {
	case ub >= 65536:
		w.UnconstrainedLength(int(n)) // 20.6 with 11.9.4.1: no effective upper bound below 64K
	case lb == ub:
	default:
		w.ConstrainedWholeNumber(lb, ub, n)
	}
	for _, e := range l {
		vcRefInner(w, e)
	}
}

// CHOICE { a Inner, b Seq (extensible), c OCTET STRING (SIZE (3)) [, ...] }
type vcChoice struct {
	Present int
	A       *vcInner
	B       *vcSeq       `aper:"valueExt"`
	C       *OctetString `aper:"sizeLB:3,sizeUB:3"`
}

func vcRefChoice(w *per.W, v vcChoice, ext bool) {
	if ext {
		w.PutBit(0)
	}
	w.ConstrainedWholeNumber(0, 2, int64(v.Present-1))
	switch v.Present {
	case 1:
		vcRefInner(w, *v.A)
	case 2:
		vcRefSeq(w, *v.B, true)
	case 3:
		w.OctetString([]byte(*v.C), true, 3, 3, false)
	}
}

// An information object field as in NGAP: SEQUENCE { id INTEGER (0..65535), criticality ENUMERATED, value OPEN TYPE }
type vcID struct {
	Value int64 `aper:"valueLB:0,valueUB:65535"`
}
type vcValue struct {
	Present int
	A       *vcInner     `aper:"referenceFieldValue:10"`
	B       *OctetString `aper:"referenceFieldValue:38"`
	C       *vcSeq       `aper:"valueExt,referenceFieldValue:121"`
}
type vcIE struct {
	Id    vcID
	Crit  Enumerated `aper:"valueLB:0,valueUB:2"`
	Value vcValue    `aper:"openType,referenceFieldName:Id"`
}

func vcRefIE(w *per.W, v vcIE) {
	w.ConstrainedWholeNumber(0, 65535, v.Id.Value)
	w.ConstrainedWholeNumber(0, 2, int64(v.Crit))
	in := &per.W{}
	switch v.Value.Present {
	case 1:
		vcRefInner(in, *v.Value.A)
	case 2:
		in.OctetString([]byte(*v.Value.B), false, 0, 0, false)
	case 3:
		vcRefSeq(in, *v.Value.C, true)
	}
	in.Align()
	if len(in.B) == 0 {
		in.B = []byte{0} // 11.2.1: an open type is at least one octet
	}
	w.UnconstrainedLength(len(in.B))
	w.Align()
	w.PutOctets(in.B)
}

// A PrintableString behind a wrapper type whose field carries the size constraint a second time, as the
// generated NGAP types do (BackupAMFName *AMFName with sizeExt,sizeLB:1,sizeUB:150): the constraint
// belongs to the string; the wrapper is a plain (non-extensible) component and adds no bit.
type vcName struct {
	Value string `aper:"sizeExt,sizeLB:1,sizeUB:150"`
}
type vcHolder struct {
	N *vcName `aper:"sizeExt,sizeLB:1,sizeUB:150,optional"`
	Z int64   `aper:"valueLB:0,valueUB:255"`
}

func vcRefHolder(w *per.W, v vcHolder) {
	if v.N != nil {
		w.PutBit(1)
		w.OctetString([]byte(v.N.Value), true, 1, 150, true)
	} else {
		w.PutBit(0)
	}
	w.ConstrainedWholeNumber(0, 255, v.Z)
}

func vcTraversalCheck(label string, val interface{}, params string, ref *per.W, out interface{}) {
	got, err := MarshalWithParams(val, params)
	if err != nil {
		vcFail("traversal", "%s: %+v refused: %v", label, val, err)
	}
	ref.Align()
	want := ref.B
	if len(want) == 0 {
		want = []byte{0}
	}
	if !bytes.Equal(got, want) {
		vcFail("traversal", "%s: Marshal wrote % x, X.691 says % x", label, got, want)
	}
	if err := UnmarshalWithParams(got, out, params); err != nil {
		vcFail("traversal", "%s: Unmarshal of % x: %v", label, got, err)
	}
	if !reflect.DeepEqual(reflect.ValueOf(out).Elem().Interface(), val) {
		vcFail("traversal", "%s: decode(encode(%+v)) = %+v", label, val, reflect.ValueOf(out).Elem().Interface())
	}
}

func vcItems(n int) []vcInner {
	l := make([]vcInner, n)
	for i := range l {
		l[i].X = int64((i*37 + 5) % 256)
	}
	return l
}

// prop: C03 C04
// bound: synthetic types, one per construct of the traversal: an extensible SEQUENCE with two OPTIONAL components, a single-valued extensible ENUMERATED and a BIT STRING (SIZE (22..32)) followed by further components (all 4 presence patterns x boundary field values x bit string lengths 22..32, as a top-level type and nested), SEQUENCE OF under the size constraints (1..16), (1..256), (0..255), (1..65535), (1..65536), (2..2), (1..4, ...) with 0/1/2/3/4/5/16/127/128/129/255/256/300 elements where legal, a PrintableString (SIZE (1..150, ...)) behind a wrapper type that repeats the size constraint (absent, 1, 12, 150 characters), a CHOICE of three alternatives (plain and extensible), an information object field with an open type of three kinds of values incl. contents of 0, 1, 127, 128 and 300 octets; each encoded by Marshal and compared with a hand-assembled X.691 reference, then decoded by Unmarshal and compared with the input
func vcBounded_traversal() {
	oct := func(n int) *OctetString {
		o := OctetString(bytes.Repeat([]byte{0xA5}, n))
		for i := range o {
			o[i] ^= byte(i)
		}
		return &o
	}
	// SEQUENCE preamble, optional components, extension bit
	for _, ext := range []bool{false, true} {
		params := ""
		if ext {
			params = "valueExt"
		}
		for pat := 0; pat < 4; pat++ {
			for _, a := range []int64{0, 5, 7} {
				for _, cl := range []int{1, 2, 3, 4} {
					v := vcSeq{A: a, D: pat%2 == 0, E: Enumerated(a % 3), F: vcBits(22 + (int(a)+cl)%11), H: 17 * a}
					if pat&1 != 0 {
						v.B = &vcInner{X: 200 + a}
					}
					if pat&2 != 0 {
						v.C = oct(cl)
					}
					w := &per.W{}
					vcRefSeq(w, v, ext)
					vcTraversalCheck(fmt.Sprintf("SEQUENCE ext=%v presence=%d", ext, pat), v, params, w, &vcSeq{})
				}
			}
		}
	}
	// SEQUENCE OF
	counts := []int{0, 1, 2, 3, 4, 5, 16, 127, 128, 129, 255, 256, 300}
	for _, n := range counts {
		if n >= 1 && n <= 16 {
			w := &per.W{}
			vcRefList(w, vcItems(n), 1, 16, false)
			vcTraversalCheck(fmt.Sprintf("SEQUENCE (SIZE (1..16)) OF, %d elements", n), vcList16{vcItems(n)}, "", w, &vcList16{})
		}
		if n >= 1 && n <= 256 {
			w := &per.W{}
			vcRefList(w, vcItems(n), 1, 256, false)
			vcTraversalCheck(fmt.Sprintf("SEQUENCE (SIZE (1..256)) OF, %d elements", n), vcList256{vcItems(n)}, "", w, &vcList256{})
		}
		if n <= 255 {
			w := &per.W{}
			vcRefList(w, vcItems(n), 0, 255, false)
			l := vcList0255{vcItems(n)}
			out := &vcList0255{}
			if n == 0 {
				l.L, out.L = []vcInner{}, []vcInner{}
			}
			vcTraversalCheck(fmt.Sprintf("SEQUENCE (SIZE (0..255)) OF, %d elements", n), l, "", w, out)
		}
		if n >= 1 {
			w := &per.W{}
			vcRefList(w, vcItems(n), 1, 65535, false)
			vcTraversalCheck(fmt.Sprintf("SEQUENCE (SIZE (1..65535)) OF, %d elements", n), vcList65535{vcItems(n)}, "", w, &vcList65535{})
			w = &per.W{}
			vcRefList(w, vcItems(n), 1, 65536, false)
			vcTraversalCheck(fmt.Sprintf("SEQUENCE (SIZE (1..65536)) OF, %d elements", n), vcList65536{vcItems(n)}, "", w, &vcList65536{})
		}
		if n == 2 {
			w := &per.W{}
			vcRefList(w, vcItems(n), 2, 2, false)
			vcTraversalCheck("SEQUENCE (SIZE (2)) OF", vcListFix{vcItems(n)}, "", w, &vcListFix{})
		}
		if n >= 1 && n <= 4 {
			w := &per.W{}
			vcRefList(w, vcItems(n), 1, 4, true)
			vcTraversalCheck(fmt.Sprintf("SEQUENCE (SIZE (1..4, ...)) OF, %d elements", n), vcListExt{vcItems(n)}, "", w, &vcListExt{})
		}
	}
	// sizes outside a non-extensible constraint are refused
	if _, err := Marshal(vcList16{vcItems(17)}); err == nil {
		vcFail("traversal", "SEQUENCE (SIZE (1..16)) OF with 17 elements was put on the wire")
	}
	if _, err := Marshal(vcList16{}); err == nil {
		vcFail("traversal", "SEQUENCE (SIZE (1..16)) OF with no element was put on the wire")
	}
	if _, err := Marshal(vcListFix{vcItems(3)}); err == nil {
		vcFail("traversal", "SEQUENCE (SIZE (2)) OF with 3 elements was put on the wire")
	}
	// PrintableString behind a wrapper
	for _, v := range []vcHolder{{Z: 7}, {N: &vcName{"a"}, Z: 200}, {N: &vcName{"open5gs-amf0"}, Z: 0}, {N: &vcName{string(bytes.Repeat([]byte{'x'}, 150))}, Z: 255}} {
		w := &per.W{}
		vcRefHolder(w, v)
		vcTraversalCheck(fmt.Sprintf("PrintableString (SIZE (1..150, ...)) behind a wrapper, %d characters", func() int {
			if v.N == nil {
				return 0
			}
			return len(v.N.Value)
		}()), v, "", w, &vcHolder{})
	}
	// CHOICE
	for _, ext := range []bool{false, true} {
		params := "valueLB:0,valueUB:2"
		if ext {
			params = "valueExt,valueLB:0,valueUB:2"
		}
		for _, v := range []vcChoice{
			{Present: 1, A: &vcInner{X: 0}}, {Present: 1, A: &vcInner{X: 255}},
			{Present: 2, B: &vcSeq{A: 3, D: true, E: 2, C: oct(2), F: vcBits(24), H: 1}}, {Present: 2, B: &vcSeq{A: 7, B: &vcInner{X: 9}, F: vcBits(32), H: 255}},
			{Present: 3, C: oct(3)},
		} {
			w := &per.W{}
			vcRefChoice(w, v, ext)
			vcTraversalCheck(fmt.Sprintf("CHOICE ext=%v alternative %d", ext, v.Present), v, params, w, &vcChoice{})
		}
	}
	if _, err := MarshalWithParams(vcChoice{}, "valueLB:0,valueUB:2"); err == nil {
		vcFail("traversal", "a CHOICE without a chosen alternative was put on the wire")
	}
	// open type
	for _, n := range []int{0, 1, 126, 127, 128, 300} {
		v := vcIE{Id: vcID{38}, Crit: 1, Value: vcValue{Present: 2, B: oct(n)}}
		out := &vcIE{}
		if n == 0 {
			e := OctetString{}
			v.Value.B = &e
		}
		w := &per.W{}
		vcRefIE(w, v)
		vcTraversalCheck(fmt.Sprintf("open type holding an OCTET STRING of %d octets", n), v, "", w, out)
	}
	for _, v := range []vcIE{
		{Id: vcID{10}, Crit: 0, Value: vcValue{Present: 1, A: &vcInner{X: 77}}},
		{Id: vcID{121}, Crit: 2, Value: vcValue{Present: 3, C: &vcSeq{A: 1, B: &vcInner{X: 3}, C: oct(4), D: true, E: 1, F: vcBits(25), H: 200}}},
	} {
		w := &per.W{}
		vcRefIE(w, v)
		vcTraversalCheck(fmt.Sprintf("open type for id %d", v.Id.Value), v, "", w, &vcIE{})
	}
	if _, err := Marshal(vcIE{Id: vcID{10}, Value: vcValue{Present: 2, B: oct(1)}}); err == nil {
		vcFail("traversal", "an open type whose value does not match its identifier was put on the wire")
	}
}
