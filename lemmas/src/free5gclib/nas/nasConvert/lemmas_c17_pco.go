//go:build verif

package nasConvert

import "vspec/vc"

// Protocol configuration options (TS 24.008 10.5.6.3): octet 3 = 1 (extension) 0000 (spare) 000
// (configuration protocol PPP for use with IP PDP type), then per unit the identifier (2 octets),
// the length of its contents (1 octet) and the contents.  Marshal writes exactly that for a list of
// units whose LengthOfContents is the length of Contents, and UnMarshal of what Marshal wrote gives
// the list back — proved for lists of 0, 1, 2 and 3 units with every identifier, every length
// 0..255 and every content (longer lists: the bounded stand-in vcBounded_pco).

func vcPcoRoundTrip(ids []uint16, lens []uint8, cs [][]byte) {
	p := NewProtocolConfigurationOptions()
	total := 1
	for i := range ids {
		u := NewProtocolOrContainerUnit()
		u.ProtocolOrContainerID = ids[i]
		u.LengthOfContents = lens[i]
		u.Contents = make([]byte, lens[i])
		vc.Assume(len(cs[i]) >= int(lens[i]))
		copy(u.Contents, cs[i])
		p.ProtocolOrContainerList = append(p.ProtocolOrContainerList, u)
		total += 3 + int(lens[i])
	}
	w := p.Marshal()
	vc.Assert("size", len(w) == total)
	vc.Assert("first", w[0] == 0x80)
	off := 1
	for i := range ids {
		vc.Assert("unit.header", w[off] == uint8(ids[i]>>8) && w[off+1] == uint8(ids[i]) && w[off+2] == lens[i])
		c := cs[i]
		vc.Assert("unit.contents", vc.Forall(0, int(lens[i]), func(j int) bool { return w[off+3+j] == c[j] }))
		off += 3 + int(lens[i])
	}
	q := NewProtocolConfigurationOptions()
	err := q.UnMarshal(w)
	vc.Assert("decodes", err == nil && len(q.ProtocolOrContainerList) == len(ids))
	for i := range ids {
		u := q.ProtocolOrContainerList[i]
		c := cs[i]
		vc.Assert("unit.same", u != nil && u.ProtocolOrContainerID == ids[i] && u.LengthOfContents == lens[i] && len(u.Contents) == int(lens[i]) &&
			vc.Forall(0, int(lens[i]), func(j int) bool { return u.Contents[j] == c[j] }))
	}
}

// Which units are empty is a case split (parameter z, bit i set: unit i has no contents), so that
// the reader's state machine takes one path per case.

// prop: C17
func vcLemma_pco_roundtrip_0() {
	vcPcoRoundTrip(nil, nil, nil)
}

// prop: C17
// split: z 0..1
// simplify: linear
func vcLemma_pco_roundtrip_1(z int, i0 uint16, l0 uint8, c0 []byte) {
	if z&1 == 1 {
		l0 = 0
	} else {
		vc.Assume(l0 != 0)
	}
	vcPcoRoundTrip([]uint16{i0}, []uint8{l0}, [][]byte{c0})
}

// prop: C17
// split: z 0..3
// simplify: linear
func vcLemma_pco_roundtrip_2(z int, i0, i1 uint16, l0, l1 uint8, c0, c1 []byte) {
	if z&1 == 1 {
		l0 = 0
	} else {
		vc.Assume(l0 != 0)
	}
	if z&2 == 2 {
		l1 = 0
	} else {
		vc.Assume(l1 != 0)
	}
	vcPcoRoundTrip([]uint16{i0, i1}, []uint8{l0, l1}, [][]byte{c0, c1})
}

// prop: C17
// split: z 0..7
// simplify: linear
func vcLemma_pco_roundtrip_3(z int, i0, i1, i2 uint16, l0, l1, l2 uint8, c0, c1, c2 []byte) {
	if z&1 == 1 {
		l0 = 0
	} else {
		vc.Assume(l0 != 0)
	}
	if z&2 == 2 {
		l1 = 0
	} else {
		vc.Assume(l1 != 0)
	}
	if z&4 == 4 {
		l2 = 0
	} else {
		vc.Assume(l2 != 0)
	}
	vcPcoRoundTrip([]uint16{i0, i1, i2}, []uint8{l0, l1, l2}, [][]byte{c0, c1, c2})
}
