//go:build verif

package nasConvert

// Bounded stand-in for the protocol configuration options conversion (C17): Marshal / UnMarshal work
// through bytes.Buffer, bytes.Reader and binary.Read/Write on pointers, which the symbolic executor
// does not model; the real functions are run natively against the reference of /verif/spec/ids/pco.go
// (TS 24.008 10.5.6.3).  Labelled bounded in the evidence.

import (
	"bytes"
	"fmt"
	"math/rand"
	"os"
	"strconv"

	"vspec/ids"
	"vspec/vc"
)

func vcLists() [][]ids.PCOUnit {
	s, _ := strconv.ParseInt(os.Getenv("VERIF_SEED"), 10, 64)
	rnd := rand.New(rand.NewSource(s + 7))
	lens := []int{0, 1, 2, 3, 4, 16, 255}
	var out [][]ids.PCOUnit
	out = append(out, nil)
	// every list of up to 3 units with content lengths from lens (8 + 64 + 512 lists), random ids and contents
	var rec func(prefix []ids.PCOUnit, depth int)
	rec = func(prefix []ids.PCOUnit, depth int) {
		if depth == 0 {
			return
		}
		for _, n := range lens {
			c := make([]byte, n)
			rnd.Read(c)
			l := append(append([]ids.PCOUnit{}, prefix...), ids.PCOUnit{ID: uint16(rnd.Intn(65536)), Contents: c})
			out = append(out, l)
			rec(l, depth-1)
		}
	}
	rec(nil, 3)
	// and 20 longer random lists
	for i := 0; i < 20; i++ {
		var l []ids.PCOUnit
		for k := 0; k < 4+rnd.Intn(12); k++ {
			c := make([]byte, rnd.Intn(40))
			rnd.Read(c)
			l = append(l, ids.PCOUnit{ID: uint16(rnd.Intn(65536)), Contents: c})
		}
		out = append(out, l)
	}
	return out
}

// prop: C17
// bound: every list of 0..3 containers with content lengths in {0,1,2,3,4,16,255} (400 lists) and 20 random lists of 4..15 containers: Marshal equals the TS 24.008 encoding, UnMarshal of that encoding gives the same list, Marshal(UnMarshal(w)) = w
func vcBounded_pco() {
	for _, l := range vcLists() {
		pco := NewProtocolConfigurationOptions()
		for _, u := range l {
			pco.ProtocolOrContainerList = append(pco.ProtocolOrContainerList, &ProtocolOrContainerUnit{ProtocolOrContainerID: u.ID, LengthOfContents: uint8(len(u.Contents)), Contents: u.Contents})
		}
		want := ids.PCOEncode(l)
		got := pco.Marshal()
		if !bytes.Equal(got, want) {
			panic(vc.Failure{Kind: "bounded", Label: fmt.Sprintf("Marshal of %d units: % x, TS 24.008 says % x", len(l), got, want)})
		}
		back := NewProtocolConfigurationOptions()
		if err := back.UnMarshal(want); err != nil {
			panic(vc.Failure{Kind: "bounded", Label: fmt.Sprintf("UnMarshal refused % x: %v", want, err)})
		}
		if len(back.ProtocolOrContainerList) != len(l) {
			panic(vc.Failure{Kind: "bounded", Label: fmt.Sprintf("UnMarshal of % x returned %d units, the encoding holds %d", want, len(back.ProtocolOrContainerList), len(l))})
		}
		for i, u := range back.ProtocolOrContainerList {
			if u.ProtocolOrContainerID != l[i].ID || int(u.LengthOfContents) != len(l[i].Contents) || !bytes.Equal(u.Contents, l[i].Contents) {
				panic(vc.Failure{Kind: "bounded", Label: fmt.Sprintf("UnMarshal of % x: unit %d differs", want, i)})
			}
		}
		if again := back.Marshal(); !bytes.Equal(again, want) {
			panic(vc.Failure{Kind: "bounded", Label: fmt.Sprintf("Marshal(UnMarshal(w)) differs from w = % x", want)})
		}
	}
}
