//go:build verif

package snow3g

import (
	"fmt"

	"vspec/vc"
)

// Deterministic witness of the shared generator state (C20): two logical keystream computations
// for different UEs whose steps interleave as  Init(A) Init(B) Generate(A)  give UE A the keystream
// of UE B's key.  (The schedule is written out sequentially; no goroutines are needed to show it.)
//
// prop: C20
// bound: one interleaving of two logical calls (keys 00..0f / ff..f0), compared with the sequential results
func vcBounded_interleavedKeystreams() {
	kA, ivA := [4]uint32{0x00010203, 0x04050607, 0x08090a0b, 0x0c0d0e0f}, [4]uint32{1, 2, 3, 4}
	kB, ivB := [4]uint32{0xfffefdfc, 0xfbfaf9f8, 0xf7f6f5f4, 0xf3f2f1f0}, [4]uint32{5, 6, 7, 8}
	seqA := make([]uint32, 2)
	InitSnow3g(kA, ivA)
	GenerateKeystream(2, seqA)
	// interleaved: A initialises, B initialises, A generates
	gotA := make([]uint32, 2)
	InitSnow3g(kA, ivA)
	InitSnow3g(kB, ivB)
	GenerateKeystream(2, gotA)
	if gotA[0] != seqA[0] || gotA[1] != seqA[1] {
		panic(vc.Failure{Kind: "bounded", Label: fmt.Sprintf("interleaving Init(A) Init(B) Generate(A): UE A got keystream %08x %08x, sequentially %08x %08x", gotA[0], gotA[1], seqA[0], seqA[1])})
	}
}
