//go:build verif

package nas

import (
	"vspec/vc"
)

// Message types of TS 24.501 table 9.7.1 (5GS mobility management) that this library knows:
// registration 0x41..0x44, deregistration 0x45..0x48, service 0x4c..0x4e, configuration update
// 0x54..0x55, authentication 0x56..0x5a, identity 0x5b..0x5c, security mode 0x5d..0x5f, 5GMM status
// 0x64, notification 0x65..0x66, UL / DL NAS transport 0x67..0x68.
func vcUnknownGmmType(t uint8) bool {
	return t != 0x41 && t != 0x42 && t != 0x43 && t != 0x44 && t != 0x45 && t != 0x46 && t != 0x47 && t != 0x48 &&
		t != 0x4c && t != 0x4d && t != 0x4e && t != 0x54 && t != 0x55 && t != 0x56 && t != 0x57 && t != 0x58 && t != 0x59 && t != 0x5a &&
		t != 0x5b && t != 0x5c && t != 0x5d && t != 0x5e && t != 0x5f && t != 0x64 && t != 0x65 && t != 0x66 && t != 0x67 && t != 0x68
}

// Table 9.7.2 (5GS session management): establishment 0xc1..0xc3, authentication 0xc5..0xc7,
// modification 0xc9..0xcd, release 0xd1..0xd4, 5GSM status 0xd6.
func vcUnknownGsmType(t uint8) bool {
	return t != 0xc1 && t != 0xc2 && t != 0xc3 && t != 0xc5 && t != 0xc6 && t != 0xc7 && t != 0xc9 && t != 0xca && t != 0xcb && t != 0xcc && t != 0xcd &&
		t != 0xd1 && t != 0xd2 && t != 0xd3 && t != 0xd4 && t != 0xd6
}

// An unknown 5GMM message type is reported as an error by the decoder, whatever follows it.
//
// prop: C08
// inline: *
func vcLemma_unknownGmmTypeDecode(b []byte) {
	vc.Assume(len(b) >= 3 && len(b) < 1<<16 && b[0] == 0x7e)
	vc.Assume(vcUnknownGmmType(b[2]))
	m := NewMessage()
	err := m.PlainNasDecode(&b)
	vc.Assert("error", err != nil)
}

// prop: C08
// inline: *
func vcLemma_unknownGsmTypeDecode(b []byte) {
	vc.Assume(len(b) >= 4 && len(b) < 1<<16 && b[0] == 0x2e)
	vc.Assume(vcUnknownGsmType(b[3]))
	m := NewMessage()
	err := m.PlainNasDecode(&b)
	vc.Assert("error", err != nil)
}

// Any other extended protocol discriminator is an error.
//
// prop: C08
// inline: *
func vcLemma_unknownEPDDecode(b []byte) {
	vc.Assume(len(b) >= 1 && len(b) < 1<<16 && b[0] != 0x7e && b[0] != 0x2e)
	m := NewMessage()
	err := m.PlainNasDecode(&b)
	vc.Assert("error", err != nil)
}

// The encoder refuses a message whose header carries an unknown type, and a message without content.
//
// prop: C08
// inline: *
func vcLemma_unknownTypeEncode(t uint8, gsm bool) {
	m := NewMessage()
	if gsm {
		vc.Assume(vcUnknownGsmType(t))
		m.GsmMessage = NewGsmMessage()
		m.GsmHeader.SetMessageType(t)
	} else {
		vc.Assume(vcUnknownGmmType(t))
		m.GmmMessage = NewGmmMessage()
		m.GmmHeader.SetMessageType(t)
	}
	_, err := m.PlainNasEncode()
	vc.Assert("error", err != nil)
	e := NewMessage()
	_, err = e.PlainNasEncode()
	vc.Assert("empty", err != nil)
}
