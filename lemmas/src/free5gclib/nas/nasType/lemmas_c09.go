//go:build verif

package nasType

import "vspec/vc"

// Half-octet fields that share one octet of the mandatory part of a message (TS 24.501 clause 8
// tables with TS 24.007 11.2.1.1.4: of two half-octet IEs listed one after the other the first
// occupies bits 4..1 and the second bits 8..5), and the bits inside each half octet (TS 24.501
// 9.3.1 security header type; 9.11.3.32 NAS key set identifier: TSC bit 4, identifier bits 3..1;
// 9.11.3.7 5GS registration type: FOR bit 4, value bits 3..1; 9.11.3.20 de-registration type:
// switch off bit 4, re-registration required bit 3, access type bits 2..1; 9.11.3.50 service type;
// 9.11.3.40 payload container type; 9.11.3.3 5GS identity type bits 3..1; 9.11.3.11 access type
// bits 2..1; 9.11.4.11 PDU session type bits 3..1; 9.11.4.16 SSC mode bits 3..1 of its half octet).
// Written from the standard; each setter must place its value there and nowhere else, each
// getter must read it from there.

// prop: C09
func vcLemma_bits_SpareHalfOctetAndSecurityHeaderType_SecurityHeaderType(o uint8, v uint8) {
	a := &SpareHalfOctetAndSecurityHeaderType{Octet: o}
	a.SetSecurityHeaderType(v)
	vc.Assert("set", a.Octet == o&^(0xf<<0)|(v&0xf)<<0)
	vc.Assert("get", a.GetSecurityHeaderType() == v&0xf)
	b := &SpareHalfOctetAndSecurityHeaderType{Octet: o}
	vc.Assert("read", b.GetSecurityHeaderType() == o>>0&0xf)
}

// prop: C09
func vcLemma_bits_SpareHalfOctetAndSecurityHeaderType_SpareHalfOctet(o uint8, v uint8) {
	a := &SpareHalfOctetAndSecurityHeaderType{Octet: o}
	a.SetSpareHalfOctet(v)
	vc.Assert("set", a.Octet == o&^(0xf<<4)|(v&0xf)<<4)
	vc.Assert("get", a.GetSpareHalfOctet() == v&0xf)
	b := &SpareHalfOctetAndSecurityHeaderType{Octet: o}
	vc.Assert("read", b.GetSpareHalfOctet() == o>>4&0xf)
}

// prop: C09
func vcLemma_bits_SpareHalfOctetAndNgksi_NasKeySetIdentifiler(o uint8, v uint8) {
	a := &SpareHalfOctetAndNgksi{Octet: o}
	a.SetNasKeySetIdentifiler(v)
	vc.Assert("set", a.Octet == o&^(0x7<<0)|(v&0x7)<<0)
	vc.Assert("get", a.GetNasKeySetIdentifiler() == v&0x7)
	b := &SpareHalfOctetAndNgksi{Octet: o}
	vc.Assert("read", b.GetNasKeySetIdentifiler() == o>>0&0x7)
}

// prop: C09
func vcLemma_bits_SpareHalfOctetAndNgksi_TSC(o uint8, v uint8) {
	a := &SpareHalfOctetAndNgksi{Octet: o}
	a.SetTSC(v)
	vc.Assert("set", a.Octet == o&^(0x1<<3)|(v&0x1)<<3)
	vc.Assert("get", a.GetTSC() == v&0x1)
	b := &SpareHalfOctetAndNgksi{Octet: o}
	vc.Assert("read", b.GetTSC() == o>>3&0x1)
}

// prop: C09
func vcLemma_bits_SpareHalfOctetAndNgksi_SpareHalfOctet(o uint8, v uint8) {
	a := &SpareHalfOctetAndNgksi{Octet: o}
	a.SetSpareHalfOctet(v)
	vc.Assert("set", a.Octet == o&^(0xf<<4)|(v&0xf)<<4)
	vc.Assert("get", a.GetSpareHalfOctet() == v&0xf)
	b := &SpareHalfOctetAndNgksi{Octet: o}
	vc.Assert("read", b.GetSpareHalfOctet() == o>>4&0xf)
}

// prop: C09
func vcLemma_bits_NgksiAndRegistrationType5GS_RegistrationType5GS(o uint8, v uint8) {
	a := &NgksiAndRegistrationType5GS{Octet: o}
	a.SetRegistrationType5GS(v)
	vc.Assert("set", a.Octet == o&^(0x7<<0)|(v&0x7)<<0)
	vc.Assert("get", a.GetRegistrationType5GS() == v&0x7)
	b := &NgksiAndRegistrationType5GS{Octet: o}
	vc.Assert("read", b.GetRegistrationType5GS() == o>>0&0x7)
}

// prop: C09
func vcLemma_bits_NgksiAndRegistrationType5GS_FOR(o uint8, v uint8) {
	a := &NgksiAndRegistrationType5GS{Octet: o}
	a.SetFOR(v)
	vc.Assert("set", a.Octet == o&^(0x1<<3)|(v&0x1)<<3)
	vc.Assert("get", a.GetFOR() == v&0x1)
	b := &NgksiAndRegistrationType5GS{Octet: o}
	vc.Assert("read", b.GetFOR() == o>>3&0x1)
}

// prop: C09
func vcLemma_bits_NgksiAndRegistrationType5GS_NasKeySetIdentifiler(o uint8, v uint8) {
	a := &NgksiAndRegistrationType5GS{Octet: o}
	a.SetNasKeySetIdentifiler(v)
	vc.Assert("set", a.Octet == o&^(0x7<<4)|(v&0x7)<<4)
	vc.Assert("get", a.GetNasKeySetIdentifiler() == v&0x7)
	b := &NgksiAndRegistrationType5GS{Octet: o}
	vc.Assert("read", b.GetNasKeySetIdentifiler() == o>>4&0x7)
}

// prop: C09
func vcLemma_bits_NgksiAndRegistrationType5GS_TSC(o uint8, v uint8) {
	a := &NgksiAndRegistrationType5GS{Octet: o}
	a.SetTSC(v)
	vc.Assert("set", a.Octet == o&^(0x1<<7)|(v&0x1)<<7)
	vc.Assert("get", a.GetTSC() == v&0x1)
	b := &NgksiAndRegistrationType5GS{Octet: o}
	vc.Assert("read", b.GetTSC() == o>>7&0x1)
}

// prop: C09
func vcLemma_bits_NgksiAndDeregistrationType_AccessType(o uint8, v uint8) {
	a := &NgksiAndDeregistrationType{Octet: o}
	a.SetAccessType(v)
	vc.Assert("set", a.Octet == o&^(0x3<<0)|(v&0x3)<<0)
	vc.Assert("get", a.GetAccessType() == v&0x3)
	b := &NgksiAndDeregistrationType{Octet: o}
	vc.Assert("read", b.GetAccessType() == o>>0&0x3)
}

// prop: C09
func vcLemma_bits_NgksiAndDeregistrationType_ReRegistrationRequired(o uint8, v uint8) {
	a := &NgksiAndDeregistrationType{Octet: o}
	a.SetReRegistrationRequired(v)
	vc.Assert("set", a.Octet == o&^(0x1<<2)|(v&0x1)<<2)
	vc.Assert("get", a.GetReRegistrationRequired() == v&0x1)
	b := &NgksiAndDeregistrationType{Octet: o}
	vc.Assert("read", b.GetReRegistrationRequired() == o>>2&0x1)
}

// prop: C09
func vcLemma_bits_NgksiAndDeregistrationType_SwitchOff(o uint8, v uint8) {
	a := &NgksiAndDeregistrationType{Octet: o}
	a.SetSwitchOff(v)
	vc.Assert("set", a.Octet == o&^(0x1<<3)|(v&0x1)<<3)
	vc.Assert("get", a.GetSwitchOff() == v&0x1)
	b := &NgksiAndDeregistrationType{Octet: o}
	vc.Assert("read", b.GetSwitchOff() == o>>3&0x1)
}

// prop: C09
func vcLemma_bits_NgksiAndDeregistrationType_NasKeySetIdentifiler(o uint8, v uint8) {
	a := &NgksiAndDeregistrationType{Octet: o}
	a.SetNasKeySetIdentifiler(v)
	vc.Assert("set", a.Octet == o&^(0x7<<4)|(v&0x7)<<4)
	vc.Assert("get", a.GetNasKeySetIdentifiler() == v&0x7)
	b := &NgksiAndDeregistrationType{Octet: o}
	vc.Assert("read", b.GetNasKeySetIdentifiler() == o>>4&0x7)
}

// prop: C09
func vcLemma_bits_NgksiAndDeregistrationType_TSC(o uint8, v uint8) {
	a := &NgksiAndDeregistrationType{Octet: o}
	a.SetTSC(v)
	vc.Assert("set", a.Octet == o&^(0x1<<7)|(v&0x1)<<7)
	vc.Assert("get", a.GetTSC() == v&0x1)
	b := &NgksiAndDeregistrationType{Octet: o}
	vc.Assert("read", b.GetTSC() == o>>7&0x1)
}

// prop: C09
func vcLemma_bits_ServiceTypeAndNgksi_NasKeySetIdentifiler(o uint8, v uint8) {
	a := &ServiceTypeAndNgksi{Octet: o}
	a.SetNasKeySetIdentifiler(v)
	vc.Assert("set", a.Octet == o&^(0x7<<0)|(v&0x7)<<0)
	vc.Assert("get", a.GetNasKeySetIdentifiler() == v&0x7)
	b := &ServiceTypeAndNgksi{Octet: o}
	vc.Assert("read", b.GetNasKeySetIdentifiler() == o>>0&0x7)
}

// prop: C09
func vcLemma_bits_ServiceTypeAndNgksi_TSC(o uint8, v uint8) {
	a := &ServiceTypeAndNgksi{Octet: o}
	a.SetTSC(v)
	vc.Assert("set", a.Octet == o&^(0x1<<3)|(v&0x1)<<3)
	vc.Assert("get", a.GetTSC() == v&0x1)
	b := &ServiceTypeAndNgksi{Octet: o}
	vc.Assert("read", b.GetTSC() == o>>3&0x1)
}

// prop: C09
func vcLemma_bits_ServiceTypeAndNgksi_ServiceTypeValue(o uint8, v uint8) {
	a := &ServiceTypeAndNgksi{Octet: o}
	a.SetServiceTypeValue(v)
	vc.Assert("set", a.Octet == o&^(0xf<<4)|(v&0xf)<<4)
	vc.Assert("get", a.GetServiceTypeValue() == v&0xf)
	b := &ServiceTypeAndNgksi{Octet: o}
	vc.Assert("read", b.GetServiceTypeValue() == o>>4&0xf)
}

// prop: C09
func vcLemma_bits_SpareHalfOctetAndPayloadContainerType_PayloadContainerType(o uint8, v uint8) {
	a := &SpareHalfOctetAndPayloadContainerType{Octet: o}
	a.SetPayloadContainerType(v)
	vc.Assert("set", a.Octet == o&^(0xf<<0)|(v&0xf)<<0)
	vc.Assert("get", a.GetPayloadContainerType() == v&0xf)
	b := &SpareHalfOctetAndPayloadContainerType{Octet: o}
	vc.Assert("read", b.GetPayloadContainerType() == o>>0&0xf)
}

// prop: C09
func vcLemma_bits_SpareHalfOctetAndIdentityType_TypeOfIdentity(o uint8, v uint8) {
	a := &SpareHalfOctetAndIdentityType{Octet: o}
	a.SetTypeOfIdentity(v)
	vc.Assert("set", a.Octet == o&^(0x7<<0)|(v&0x7)<<0)
	vc.Assert("get", a.GetTypeOfIdentity() == v&0x7)
	b := &SpareHalfOctetAndIdentityType{Octet: o}
	vc.Assert("read", b.GetTypeOfIdentity() == o>>0&0x7)
}

// prop: C09
func vcLemma_bits_SpareHalfOctetAndAccessType_AccessType(o uint8, v uint8) {
	a := &SpareHalfOctetAndAccessType{Octet: o}
	a.SetAccessType(v)
	vc.Assert("set", a.Octet == o&^(0x3<<0)|(v&0x3)<<0)
	vc.Assert("get", a.GetAccessType() == v&0x3)
	b := &SpareHalfOctetAndAccessType{Octet: o}
	vc.Assert("read", b.GetAccessType() == o>>0&0x3)
}

// prop: C09
func vcLemma_bits_SpareHalfOctetAndDeregistrationType_AccessType(o uint8, v uint8) {
	a := &SpareHalfOctetAndDeregistrationType{Octet: o}
	a.SetAccessType(v)
	vc.Assert("set", a.Octet == o&^(0x3<<0)|(v&0x3)<<0)
	vc.Assert("get", a.GetAccessType() == v&0x3)
	b := &SpareHalfOctetAndDeregistrationType{Octet: o}
	vc.Assert("read", b.GetAccessType() == o>>0&0x3)
}

// prop: C09
func vcLemma_bits_SpareHalfOctetAndDeregistrationType_ReRegistrationRequired(o uint8, v uint8) {
	a := &SpareHalfOctetAndDeregistrationType{Octet: o}
	a.SetReRegistrationRequired(v)
	vc.Assert("set", a.Octet == o&^(0x1<<2)|(v&0x1)<<2)
	vc.Assert("get", a.GetReRegistrationRequired() == v&0x1)
	b := &SpareHalfOctetAndDeregistrationType{Octet: o}
	vc.Assert("read", b.GetReRegistrationRequired() == o>>2&0x1)
}

// prop: C09
func vcLemma_bits_SpareHalfOctetAndDeregistrationType_SwitchOff(o uint8, v uint8) {
	a := &SpareHalfOctetAndDeregistrationType{Octet: o}
	a.SetSwitchOff(v)
	vc.Assert("set", a.Octet == o&^(0x1<<3)|(v&0x1)<<3)
	vc.Assert("get", a.GetSwitchOff() == v&0x1)
	b := &SpareHalfOctetAndDeregistrationType{Octet: o}
	vc.Assert("read", b.GetSwitchOff() == o>>3&0x1)
}

// prop: C09
func vcLemma_bits_SelectedSSCModeAndSelectedPDUSessionType_PDUSessionType(o uint8, v uint8) {
	a := &SelectedSSCModeAndSelectedPDUSessionType{Octet: o}
	a.SetPDUSessionType(v)
	vc.Assert("set", a.Octet == o&^(0x7<<0)|(v&0x7)<<0)
	vc.Assert("get", a.GetPDUSessionType() == v&0x7)
	b := &SelectedSSCModeAndSelectedPDUSessionType{Octet: o}
	vc.Assert("read", b.GetPDUSessionType() == o>>0&0x7)
}

// prop: C09
func vcLemma_bits_SelectedSSCModeAndSelectedPDUSessionType_SSCMode(o uint8, v uint8) {
	a := &SelectedSSCModeAndSelectedPDUSessionType{Octet: o}
	a.SetSSCMode(v)
	vc.Assert("set", a.Octet == o&^(0x7<<4)|(v&0x7)<<4)
	vc.Assert("get", a.GetSSCMode() == v&0x7)
	b := &SelectedSSCModeAndSelectedPDUSessionType{Octet: o}
	vc.Assert("read", b.GetSSCMode() == o>>4&0x7)
}


// Fields of more than a half octet in the information elements the emulator fills through accessors
// (TS 24.501 9.11.4.7 integrity protection maximum data rate: octet 2 is the maximum data rate per
// UE for user-plane integrity protection for uplink, octet 3 the one for downlink; 9.11.3.4 5GS
// mobile identity, 5G-S-TMSI: octet 5 AMF set ID bits 9..2, octet 6 bits 8..7 AMF set ID bits 1..0
// and bits 6..1 AMF pointer, octets 7..10 5G-TMSI; 9.11.2.8 S-NSSAI: octet 3 SST, octets 4..6 SD).
// The Go arrays hold the value part only, so octet 2 of a type-3 IE (octet 3 of a type-4 IE) is
// index 0; the 5G-S-TMSI array starts at octet 4 (the type-of-identity octet).

// prop: C09
func vcLemma_octets_IntegrityProtectionMaximumDataRate(o [2]uint8, ul uint8, dl uint8) {
	a := &IntegrityProtectionMaximumDataRate{Octet: o}
	a.SetMaximumDataRatePerUEForUserPlaneIntegrityProtectionForUpLink(ul)
	vc.Assert("ul.set", a.Octet[0] == ul && a.Octet[1] == o[1])
	a.SetMaximumDataRatePerUEForUserPlaneIntegrityProtectionForDownLink(dl)
	vc.Assert("dl.set", a.Octet[0] == ul && a.Octet[1] == dl)
	vc.Assert("ul.get", a.GetMaximumDataRatePerUEForUserPlaneIntegrityProtectionForUpLink() == ul)
	vc.Assert("dl.get", a.GetMaximumDataRatePerUEForUserPlaneIntegrityProtectionForDownLink() == dl)
	b := &IntegrityProtectionMaximumDataRate{Octet: o}
	vc.Assert("ul.read", b.GetMaximumDataRatePerUEForUserPlaneIntegrityProtectionForUpLink() == o[0])
	vc.Assert("dl.read", b.GetMaximumDataRatePerUEForUserPlaneIntegrityProtectionForDownLink() == o[1])
}

// prop: C09
func vcLemma_octets_TMSI5GS(o [7]uint8, set uint16, ptr uint8, tmsi [4]uint8) {
	a := &TMSI5GS{Octet: o}
	a.SetAMFSetID(set)
	vc.Assert("set.set", a.Octet[0] == o[0] && a.Octet[1] == uint8(set>>2) && a.Octet[2] == o[2]&0x3f|uint8(set&3)<<6 &&
		a.Octet[3] == o[3] && a.Octet[4] == o[4] && a.Octet[5] == o[5] && a.Octet[6] == o[6])
	a.SetAMFPointer(ptr)
	vc.Assert("ptr.set", a.Octet[0] == o[0] && a.Octet[1] == uint8(set>>2) && a.Octet[2] == uint8(set&3)<<6|ptr&0x3f &&
		a.Octet[3] == o[3] && a.Octet[4] == o[4] && a.Octet[5] == o[5] && a.Octet[6] == o[6])
	a.SetTMSI5G(tmsi)
	vc.Assert("tmsi.set", a.Octet[0] == o[0] && a.Octet[1] == uint8(set>>2) && a.Octet[2] == uint8(set&3)<<6|ptr&0x3f &&
		a.Octet[3] == tmsi[0] && a.Octet[4] == tmsi[1] && a.Octet[5] == tmsi[2] && a.Octet[6] == tmsi[3])
	vc.Assert("set.get", a.GetAMFSetID() == set&0x3ff)
	vc.Assert("ptr.get", a.GetAMFPointer() == ptr&0x3f)
	g := a.GetTMSI5G()
	vc.Assert("tmsi.get", g[0] == tmsi[0] && g[1] == tmsi[1] && g[2] == tmsi[2] && g[3] == tmsi[3])
	b := &TMSI5GS{Octet: o}
	vc.Assert("set.read", b.GetAMFSetID() == uint16(o[1])<<2|uint16(o[2]>>6))
	vc.Assert("ptr.read", b.GetAMFPointer() == o[2]&0x3f)
	r := b.GetTMSI5G()
	vc.Assert("tmsi.read", r[0] == o[3] && r[1] == o[4] && r[2] == o[5] && r[3] == o[6])
}

// prop: C09
func vcLemma_octets_SNSSAI(o [8]uint8, sst uint8, sd [3]uint8) {
	a := &SNSSAI{Octet: o}
	a.SetSST(sst)
	vc.Assert("sst.set", a.Octet[0] == sst && a.Octet[1] == o[1] && a.Octet[2] == o[2] && a.Octet[3] == o[3])
	a.SetSD(sd)
	vc.Assert("sd.set", a.Octet[0] == sst && a.Octet[1] == sd[0] && a.Octet[2] == sd[1] && a.Octet[3] == sd[2])
	vc.Assert("frame", a.Octet[4] == o[4] && a.Octet[5] == o[5] && a.Octet[6] == o[6] && a.Octet[7] == o[7])
	vc.Assert("sst.get", a.GetSST() == sst)
	g := a.GetSD()
	vc.Assert("sd.get", g[0] == sd[0] && g[1] == sd[1] && g[2] == sd[2])
	b := &SNSSAI{Octet: o}
	vc.Assert("sst.read", b.GetSST() == o[0])
	r := b.GetSD()
	vc.Assert("sd.read", r[0] == o[1] && r[1] == o[2] && r[2] == o[3])
}
