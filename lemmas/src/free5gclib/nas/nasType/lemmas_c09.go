//go:build verif

package nasType

import "vspec/vc"

// Half-octet fields that share one octet of the mandatory part of a message (TS 24.501 clause 8
// tables with TS 24.007 11.2.1.1.4: of two half-octet IEs listed one after the other the first
// occupies bits 4..1 and the second bits 8..5), and the bits inside each half octet (TS 24.501
// 9.3.1 security header type; 9.11.3.32 NAS key set identifier: TSC bit 4, identifier bits 3..1;
// 9.11.3.7 5GS registration type: FOR bit 4, value bits 3..1; 9.11.3.20 de-registration type:
// switch off bit 4, re-registration required bit 3, access type bits 2..1; 9.11.3.50 service type;
// 9.11.3.40 payload container type; 9.11.3.3 5GS identity type bits 3..1; 9.11.3.11 access type
// bits 2..1; 9.11.4.11 PDU session type bits 3..1; 9.11.4.16 SSC mode bits 3..1 of its half octet).
// Written from the standard; each setter must place its value there and nowhere else, each
// getter must read it from there.

// prop: C09
func vcLemma_bits_SpareHalfOctetAndSecurityHeaderType_SecurityHeaderType(o uint8, v uint8) {
	a := &SpareHalfOctetAndSecurityHeaderType{Octet: o}
	a.SetSecurityHeaderType(v)
	vc.Assert("set", a.Octet == o&^(0xf<<0)|(v&0xf)<<0)
	vc.Assert("get", a.GetSecurityHeaderType() == v&0xf)
	b := &SpareHalfOctetAndSecurityHeaderType{Octet: o}
	vc.Assert("read", b.GetSecurityHeaderType() == o>>0&0xf)
}

// prop: C09
func vcLemma_bits_SpareHalfOctetAndSecurityHeaderType_SpareHalfOctet(o uint8, v uint8) {
	a := &SpareHalfOctetAndSecurityHeaderType{Octet: o}
	a.SetSpareHalfOctet(v)
	vc.Assert("set", a.Octet == o&^(0xf<<4)|(v&0xf)<<4)
	vc.Assert("get", a.GetSpareHalfOctet() == v&0xf)
	b := &SpareHalfOctetAndSecurityHeaderType{Octet: o}
	vc.Assert("read", b.GetSpareHalfOctet() == o>>4&0xf)
}

// prop: C09
func vcLemma_bits_SpareHalfOctetAndNgksi_NasKeySetIdentifiler(o uint8, v uint8) {
	a := &SpareHalfOctetAndNgksi{Octet: o}
	a.SetNasKeySetIdentifiler(v)
	vc.Assert("set", a.Octet == o&^(0x7<<0)|(v&0x7)<<0)
	vc.Assert("get", a.GetNasKeySetIdentifiler() == v&0x7)
	b := &SpareHalfOctetAndNgksi{Octet: o}
	vc.Assert("read", b.GetNasKeySetIdentifiler() == o>>0&0x7)
}

// prop: C09
func vcLemma_bits_SpareHalfOctetAndNgksi_TSC(o uint8, v uint8) {
	a := &SpareHalfOctetAndNgksi{Octet: o}
	a.SetTSC(v)
	vc.Assert("set", a.Octet == o&^(0x1<<3)|(v&0x1)<<3)
	vc.Assert("get", a.GetTSC() == v&0x1)
	b := &SpareHalfOctetAndNgksi{Octet: o}
	vc.Assert("read", b.GetTSC() == o>>3&0x1)
}

// prop: C09
func vcLemma_bits_SpareHalfOctetAndNgksi_SpareHalfOctet(o uint8, v uint8) {
	a := &SpareHalfOctetAndNgksi{Octet: o}
	a.SetSpareHalfOctet(v)
	vc.Assert("set", a.Octet == o&^(0xf<<4)|(v&0xf)<<4)
	vc.Assert("get", a.GetSpareHalfOctet() == v&0xf)
	b := &SpareHalfOctetAndNgksi{Octet: o}
	vc.Assert("read", b.GetSpareHalfOctet() == o>>4&0xf)
}

// prop: C09
func vcLemma_bits_NgksiAndRegistrationType5GS_RegistrationType5GS(o uint8, v uint8) {
	a := &NgksiAndRegistrationType5GS{Octet: o}
	a.SetRegistrationType5GS(v)
	vc.Assert("set", a.Octet == o&^(0x7<<0)|(v&0x7)<<0)
	vc.Assert("get", a.GetRegistrationType5GS() == v&0x7)
	b := &NgksiAndRegistrationType5GS{Octet: o}
	vc.Assert("read", b.GetRegistrationType5GS() == o>>0&0x7)
}

// prop: C09
func vcLemma_bits_NgksiAndRegistrationType5GS_FOR(o uint8, v uint8) {
	a := &NgksiAndRegistrationType5GS{Octet: o}
	a.SetFOR(v)
	vc.Assert("set", a.Octet == o&^(0x1<<3)|(v&0x1)<<3)
	vc.Assert("get", a.GetFOR() == v&0x1)
	b := &NgksiAndRegistrationType5GS{Octet: o}
	vc.Assert("read", b.GetFOR() == o>>3&0x1)
}

// prop: C09
func vcLemma_bits_NgksiAndRegistrationType5GS_NasKeySetIdentifiler(o uint8, v uint8) {
	a := &NgksiAndRegistrationType5GS{Octet: o}
	a.SetNasKeySetIdentifiler(v)
	vc.Assert("set", a.Octet == o&^(0x7<<4)|(v&0x7)<<4)
	vc.Assert("get", a.GetNasKeySetIdentifiler() == v&0x7)
	b := &NgksiAndRegistrationType5GS{Octet: o}
	vc.Assert("read", b.GetNasKeySetIdentifiler() == o>>4&0x7)
}

// prop: C09
func vcLemma_bits_NgksiAndRegistrationType5GS_TSC(o uint8, v uint8) {
	a := &NgksiAndRegistrationType5GS{Octet: o}
	a.SetTSC(v)
	vc.Assert("set", a.Octet == o&^(0x1<<7)|(v&0x1)<<7)
	vc.Assert("get", a.GetTSC() == v&0x1)
	b := &NgksiAndRegistrationType5GS{Octet: o}
	vc.Assert("read", b.GetTSC() == o>>7&0x1)
}

// prop: C09
func vcLemma_bits_NgksiAndDeregistrationType_AccessType(o uint8, v uint8) {
	a := &NgksiAndDeregistrationType{Octet: o}
	a.SetAccessType(v)
	vc.Assert("set", a.Octet == o&^(0x3<<0)|(v&0x3)<<0)
	vc.Assert("get", a.GetAccessType() == v&0x3)
	b := &NgksiAndDeregistrationType{Octet: o}
	vc.Assert("read", b.GetAccessType() == o>>0&0x3)
}

// prop: C09
func vcLemma_bits_NgksiAndDeregistrationType_ReRegistrationRequired(o uint8, v uint8) {
	a := &NgksiAndDeregistrationType{Octet: o}
	a.SetReRegistrationRequired(v)
	vc.Assert("set", a.Octet == o&^(0x1<<2)|(v&0x1)<<2)
	vc.Assert("get", a.GetReRegistrationRequired() == v&0x1)
	b := &NgksiAndDeregistrationType{Octet: o}
	vc.Assert("read", b.GetReRegistrationRequired() == o>>2&0x1)
}

// prop: C09
func vcLemma_bits_NgksiAndDeregistrationType_SwitchOff(o uint8, v uint8) {
	a := &NgksiAndDeregistrationType{Octet: o}
	a.SetSwitchOff(v)
	vc.Assert("set", a.Octet == o&^(0x1<<3)|(v&0x1)<<3)
	vc.Assert("get", a.GetSwitchOff() == v&0x1)
	b := &NgksiAndDeregistrationType{Octet: o}
	vc.Assert("read", b.GetSwitchOff() == o>>3&0x1)
}

// prop: C09
func vcLemma_bits_NgksiAndDeregistrationType_NasKeySetIdentifiler(o uint8, v uint8) {
	a := &NgksiAndDeregistrationType{Octet: o}
	a.SetNasKeySetIdentifiler(v)
	vc.Assert("set", a.Octet == o&^(0x7<<4)|(v&0x7)<<4)
	vc.Assert("get", a.GetNasKeySetIdentifiler() == v&0x7)
	b := &NgksiAndDeregistrationType{Octet: o}
	vc.Assert("read", b.GetNasKeySetIdentifiler() == o>>4&0x7)
}

// prop: C09
func vcLemma_bits_NgksiAndDeregistrationType_TSC(o uint8, v uint8) {
	a := &NgksiAndDeregistrationType{Octet: o}
	a.SetTSC(v)
	vc.Assert("set", a.Octet == o&^(0x1<<7)|(v&0x1)<<7)
	vc.Assert("get", a.GetTSC() == v&0x1)
	b := &NgksiAndDeregistrationType{Octet: o}
	vc.Assert("read", b.GetTSC() == o>>7&0x1)
}

// prop: C09
func vcLemma_bits_ServiceTypeAndNgksi_NasKeySetIdentifiler(o uint8, v uint8) {
	a := &ServiceTypeAndNgksi{Octet: o}
	a.SetNasKeySetIdentifiler(v)
	vc.Assert("set", a.Octet == o&^(0x7<<0)|(v&0x7)<<0)
	vc.Assert("get", a.GetNasKeySetIdentifiler() == v&0x7)
	b := &ServiceTypeAndNgksi{Octet: o}
	vc.Assert("read", b.GetNasKeySetIdentifiler() == o>>0&0x7)
}

// prop: C09
func vcLemma_bits_ServiceTypeAndNgksi_TSC(o uint8, v uint8) {
	a := &ServiceTypeAndNgksi{Octet: o}
	a.SetTSC(v)
	vc.Assert("set", a.Octet == o&^(0x1<<3)|(v&0x1)<<3)
	vc.Assert("get", a.GetTSC() == v&0x1)
	b := &ServiceTypeAndNgksi{Octet: o}
	vc.Assert("read", b.GetTSC() == o>>3&0x1)
}

// prop: C09
func vcLemma_bits_ServiceTypeAndNgksi_ServiceTypeValue(o uint8, v uint8) {
	a := &ServiceTypeAndNgksi{Octet: o}
	a.SetServiceTypeValue(v)
	vc.Assert("set", a.Octet == o&^(0xf<<4)|(v&0xf)<<4)
	vc.Assert("get", a.GetServiceTypeValue() == v&0xf)
	b := &ServiceTypeAndNgksi{Octet: o}
	vc.Assert("read", b.GetServiceTypeValue() == o>>4&0xf)
}

// prop: C09
func vcLemma_bits_SpareHalfOctetAndPayloadContainerType_PayloadContainerType(o uint8, v uint8) {
	a := &SpareHalfOctetAndPayloadContainerType{Octet: o}
	a.SetPayloadContainerType(v)
	vc.Assert("set", a.Octet == o&^(0xf<<0)|(v&0xf)<<0)
	vc.Assert("get", a.GetPayloadContainerType() == v&0xf)
	b := &SpareHalfOctetAndPayloadContainerType{Octet: o}
	vc.Assert("read", b.GetPayloadContainerType() == o>>0&0xf)
}

// prop: C09
func vcLemma_bits_SpareHalfOctetAndIdentityType_TypeOfIdentity(o uint8, v uint8) {
	a := &SpareHalfOctetAndIdentityType{Octet: o}
	a.SetTypeOfIdentity(v)
	vc.Assert("set", a.Octet == o&^(0x7<<0)|(v&0x7)<<0)
	vc.Assert("get", a.GetTypeOfIdentity() == v&0x7)
	b := &SpareHalfOctetAndIdentityType{Octet: o}
	vc.Assert("read", b.GetTypeOfIdentity() == o>>0&0x7)
}

// prop: C09
func vcLemma_bits_SpareHalfOctetAndAccessType_AccessType(o uint8, v uint8) {
	a := &SpareHalfOctetAndAccessType{Octet: o}
	a.SetAccessType(v)
	vc.Assert("set", a.Octet == o&^(0x3<<0)|(v&0x3)<<0)
	vc.Assert("get", a.GetAccessType() == v&0x3)
	b := &SpareHalfOctetAndAccessType{Octet: o}
	vc.Assert("read", b.GetAccessType() == o>>0&0x3)
}

// prop: C09
func vcLemma_bits_SpareHalfOctetAndDeregistrationType_AccessType(o uint8, v uint8) {
	a := &SpareHalfOctetAndDeregistrationType{Octet: o}
	a.SetAccessType(v)
	vc.Assert("set", a.Octet == o&^(0x3<<0)|(v&0x3)<<0)
	vc.Assert("get", a.GetAccessType() == v&0x3)
	b := &SpareHalfOctetAndDeregistrationType{Octet: o}
	vc.Assert("read", b.GetAccessType() == o>>0&0x3)
}

// prop: C09
func vcLemma_bits_SpareHalfOctetAndDeregistrationType_ReRegistrationRequired(o uint8, v uint8) {
	a := &SpareHalfOctetAndDeregistrationType{Octet: o}
	a.SetReRegistrationRequired(v)
	vc.Assert("set", a.Octet == o&^(0x1<<2)|(v&0x1)<<2)
	vc.Assert("get", a.GetReRegistrationRequired() == v&0x1)
	b := &SpareHalfOctetAndDeregistrationType{Octet: o}
	vc.Assert("read", b.GetReRegistrationRequired() == o>>2&0x1)
}

// prop: C09
func vcLemma_bits_SpareHalfOctetAndDeregistrationType_SwitchOff(o uint8, v uint8) {
	a := &SpareHalfOctetAndDeregistrationType{Octet: o}
	a.SetSwitchOff(v)
	vc.Assert("set", a.Octet == o&^(0x1<<3)|(v&0x1)<<3)
	vc.Assert("get", a.GetSwitchOff() == v&0x1)
	b := &SpareHalfOctetAndDeregistrationType{Octet: o}
	vc.Assert("read", b.GetSwitchOff() == o>>3&0x1)
}

// prop: C09
func vcLemma_bits_SelectedSSCModeAndSelectedPDUSessionType_PDUSessionType(o uint8, v uint8) {
	a := &SelectedSSCModeAndSelectedPDUSessionType{Octet: o}
	a.SetPDUSessionType(v)
	vc.Assert("set", a.Octet == o&^(0x7<<0)|(v&0x7)<<0)
	vc.Assert("get", a.GetPDUSessionType() == v&0x7)
	b := &SelectedSSCModeAndSelectedPDUSessionType{Octet: o}
	vc.Assert("read", b.GetPDUSessionType() == o>>0&0x7)
}

// prop: C09
func vcLemma_bits_SelectedSSCModeAndSelectedPDUSessionType_SSCMode(o uint8, v uint8) {
	a := &SelectedSSCModeAndSelectedPDUSessionType{Octet: o}
	a.SetSSCMode(v)
	vc.Assert("set", a.Octet == o&^(0x7<<4)|(v&0x7)<<4)
	vc.Assert("get", a.GetSSCMode() == v&0x7)
	b := &SelectedSSCModeAndSelectedPDUSessionType{Octet: o}
	vc.Assert("read", b.GetSSCMode() == o>>4&0x7)
}

