//go:build verif

package nasTestpacket

import (
	"free5gclib/nas/nasType"
	"free5gclib/openapi/models"

	"vspec/ids"
	"vspec/vc"
)

// The NAS messages the emulator sends, octet by octet, as an independent reader of TS 24.501 would
// write them (clause 8.2 tables, 9.7 message types, 9.11.3 IE formats).  The expected octets are
// written here from the standard; the constructors run on the real code (inline).

// AUTHENTICATION RESPONSE (8.2.2): 7E 00 57, then IEI 2D, length 16, RES*.
//
// prop: C09 C01 C02
// inline: *
// shape: res 16
func vcLemma_wire_AuthenticationResponse(res []byte) {
	w := GetAuthenticationResponse(res, "")
	vc.Assert("size", len(w) == 21)
	vc.Assert("header", w[0] == 0x7e && w[1] == 0x00 && w[2] == 0x57)
	vc.Assert("ie", w[3] == 0x2d && w[4] == 16)
	vc.Assert("res", vc.Forall(0, 16, func(j int) bool { return w[5+j] == res[j] }))
}

// REGISTRATION COMPLETE (8.2.8) without SOR container: 7E 00 43.
//
// prop: C09 C01 C02
// inline: *
func vcLemma_wire_RegistrationComplete() {
	w := GetRegistrationComplete(nil)
	vc.Assert("all", len(w) == 3 && w[0] == 0x7e && w[1] == 0x00 && w[2] == 0x43)
}

// SECURITY MODE COMPLETE (8.2.26): 7E 00 5E, IMEISV (IEI 77, TLV-E, 9 octets, type of identity
// IMEISV = 101), NAS message container (IEI 71, TLV-E) carrying the given octets.
//
// prop: C09 C01 C02
// inline: *
func vcLemma_wire_SecurityModeComplete(c []byte) {
	vc.Assume(len(c) < 1<<16 && c != nil)
	w := GetSecurityModeComplete(c)
	vc.Assert("size", len(w) == 18+len(c))
	vc.Assert("header", w[0] == 0x7e && w[1] == 0x00 && w[2] == 0x5e)
	vc.Assert("imeisv", w[3] == 0x77 && w[4] == 0 && w[5] == 9 && w[6]&7 == 5)
	vc.Assert("container", w[15] == 0x71 && int(w[16])<<8|int(w[17]) == len(c))
	vc.Assert("contents", vc.Forall(0, len(c), func(j int) bool { return w[18+j] == c[j] }))
}

// REGISTRATION REQUEST (8.2.6) as RegisterUE builds it first: 7E 00 41; 5GS registration type in
// bits 3..1 with FOR (bit 4) set and ngKSI "no key available" (TSC 0, value 111) in bits 8..5; 5GS
// mobile identity LV-E; UE security capability (IEI 2E, TLV).
//
// prop: C09 C01 C02
// inline: *
// shape: cap 2
func vcLemma_wire_RegistrationRequest_initial(regType uint8, id []byte, cap []byte) {
	vc.Assume(len(id) < 1<<16)
	mi := nasType.MobileIdentity5GS{Len: uint16(len(id)), Buffer: id}
	sc := &nasType.UESecurityCapability{Iei: 0x2e, Len: 2, Buffer: cap}
	w := GetRegistrationRequest(regType, mi, nil, sc, nil, nil, nil)
	n := len(id)
	vc.Assert("size", len(w) == 6+n+4)
	vc.Assert("header", w[0] == 0x7e && w[1] == 0x00 && w[2] == 0x41)
	vc.Assert("type", w[3] == 0x70|0x08|regType&7)
	vc.Assert("identity", int(w[4])<<8|int(w[5]) == n && vc.Forall(0, n, func(j int) bool { return w[6+j] == id[j] }))
	vc.Assert("capability", w[6+n] == 0x2e && w[7+n] == 2 && w[8+n] == cap[0] && w[9+n] == cap[1])
}

// The same with the 5GMM capability (IEI 10, TLV, one octet), which precedes the UE security
// capability (table 8.2.6.1.1), as sent in the NAS message container of SECURITY MODE COMPLETE.
//
// prop: C09 C01 C02
// inline: *
// shape: cap 2
func vcLemma_wire_RegistrationRequest_with5GMM(regType uint8, id []byte, cap []byte, mm uint8) {
	vc.Assume(len(id) < 1<<16)
	mi := nasType.MobileIdentity5GS{Len: uint16(len(id)), Buffer: id}
	sc := &nasType.UESecurityCapability{Iei: 0x2e, Len: 2, Buffer: cap}
	c5 := &nasType.Capability5GMM{Iei: 0x10, Len: 1}
	c5.Octet[0] = mm
	w := GetRegistrationRequest(regType, mi, nil, sc, c5, nil, nil)
	n := len(id)
	vc.Assert("size", len(w) == 6+n+3+4)
	vc.Assert("header", w[0] == 0x7e && w[1] == 0x00 && w[2] == 0x41)
	vc.Assert("type", w[3] == 0x70|0x08|regType&7)
	vc.Assert("identity", int(w[4])<<8|int(w[5]) == n && vc.Forall(0, n, func(j int) bool { return w[6+j] == id[j] }))
	vc.Assert("capability5gmm", w[6+n] == 0x10 && w[7+n] == 1 && w[8+n] == mm)
	vc.Assert("capability", w[9+n] == 0x2e && w[10+n] == 2 && w[11+n] == cap[0] && w[12+n] == cap[1])
}

// DEREGISTRATION REQUEST, UE originating (8.2.12): 7E 00 45; de-registration type in bits 4..1
// (switch off bit 4, re-registration required 0, access type bits 2..1), ngKSI in bits 8..5; 5GS
// mobile identity LV-E.
//
// prop: C09 C01 C02
// inline: *
func vcLemma_wire_DeregistrationRequest(accessType, switchOff, ksi uint8, id []byte) {
	vc.Assume(len(id) < 1<<16 && ksi < 8)
	mi := nasType.MobileIdentity5GS{Len: uint16(len(id)), Buffer: id}
	w := GetDeregistrationRequest(accessType, switchOff, ksi, mi)
	n := len(id)
	vc.Assert("size", len(w) == 6+n)
	vc.Assert("header", w[0] == 0x7e && w[1] == 0x00 && w[2] == 0x45)
	vc.Assert("type", w[3]&0x0f == switchOff&1<<3|accessType&3)
	vc.Assert("ksi", w[3]>>4&7 == ksi)
	vc.Assert("identity", int(w[4])<<8|int(w[5]) == n && vc.Forall(0, n, func(j int) bool { return w[6+j] == id[j] }))
}

// SERVICE REQUEST (8.2.16) for service type "data": 7E 00 4C; ngKSI in bits 4..1, service type in
// bits 8..5; 5G-S-TMSI LV-E of 7 octets with type of identity 100 in the first; uplink data status
// (IEI 40, TLV, 2 octets).
//
// prop: C09 C01 C02
// inline: *
func vcLemma_wire_ServiceRequest_data() {
	w := GetServiceRequest(1)
	vc.Assert("size", len(w) == 4+2+7+4)
	vc.Assert("header", w[0] == 0x7e && w[1] == 0x00 && w[2] == 0x4c)
	vc.Assert("type", w[3]>>4 == 1 && w[3]&0x08 == 0)
	vc.Assert("tmsi", w[4] == 0 && w[5] == 7 && w[6] == 0xf4)
	vc.Assert("uplink", w[13] == 0x40 && w[14] == 2)
}

// UL NAS TRANSPORT (8.2.10) carrying a PDU SESSION RELEASE REQUEST (8.3.12): 7E 00 67; payload
// container type N1 SM information (1) in bits 4..1; payload container LV-E with the 5GSM message
// 2E <PDU session ID> <PTI> D1; PDU session ID IE (IEI 12, TV).
//
// prop: C09 C01 C02
// inline: *
func vcLemma_wire_UlNasTransport_releaseRequest(psi uint8) {
	w := GetUlNasTransport_PduSessionReleaseRequest(psi)
	vc.Assert("size", len(w) == 3+1+2+4+2)
	vc.Assert("header", w[0] == 0x7e && w[1] == 0x00 && w[2] == 0x67 && w[3] == 0x01)
	vc.Assert("container", w[4] == 0 && w[5] == 4 && w[6] == 0x2e && w[7] == psi && w[9] == 0xd1)
	vc.Assert("psi", w[10] == 0x12 && w[11] == psi)
}

// UL NAS TRANSPORT carrying a PDU SESSION RELEASE COMPLETE (8.3.15, message type D4), with request
// type (IEI 8-, half octet), S-NSSAI (IEI 22, TLV: SST and SD) and DNN (IEI 25, TLV; the value is one
// label preceded by its length, TS 23.003 9.1) in the order of table 8.2.10.1.1.
//
// prop: C09 C01 C02
// inline: *
// shape: sd 6 dnn 8
func vcLemma_wire_UlNasTransport_releaseComplete(psi uint8, rt uint8, sst uint8, sd string, dnn string) {
	vc.Assume(vc.Forall(0, 6, func(j int) bool { return ids.IsHexDigit(sd[j]) }))
	s := &models.Snssai{Sst: int32(sst), Sd: sd}
	w := GetUlNasTransport_PduSessionReleaseComplete(psi, rt, dnn, s)
	vc.Assert("size", len(w) == 3+1+2+4+2+1+6+11)
	vc.Assert("header", w[0] == 0x7e && w[1] == 0x00 && w[2] == 0x67 && w[3] == 0x01)
	vc.Assert("container", w[4] == 0 && w[5] == 4 && w[6] == 0x2e && w[7] == psi && w[9] == 0xd4)
	vc.Assert("psi", w[10] == 0x12 && w[11] == psi)
	vc.Assert("requesttype", w[12]>>4 == 8 && w[12]&7 == rt&7)
	vc.Assert("snssai", w[13] == 0x22 && w[14] == 4 && w[15] == sst && w[16] == ids.HexOctet(sd, 0) && w[17] == ids.HexOctet(sd, 1) && w[18] == ids.HexOctet(sd, 2))
	vc.Assert("dnn", w[19] == 0x25 && w[20] == 9 && w[21] == 8 && vc.Forall(0, 8, func(j int) bool { return w[22+j] == dnn[j] }))
}

// UL NAS TRANSPORT carrying a PDU SESSION ESTABLISHMENT REQUEST (8.3.1, message type C1): the 5GSM
// message starts 2E <PDU session ID> <PTI> C1, integrity protection maximum data rate FF FF, PDU
// session type IPv4 (IEI 9-, value 001), extended protocol configuration options (IEI 7B, TLV-E)
// to the end of the container; then the IEs of the transport message as above.
//
// prop: C09 C01 C02
// inline: *
// shape: sd 6 dnn 8
func vcLemma_wire_UlNasTransport_establishment(psi uint8, rt uint8, sst uint8, sd string, dnn string) {
	vc.Assume(vc.Forall(0, 6, func(j int) bool { return ids.IsHexDigit(sd[j]) }))
	s := &models.Snssai{Sst: int32(sst), Sd: sd}
	w := GetUlNasTransport_PduSessionEstablishmentRequest(psi, rt, dnn, s)
	vc.Assert("header", len(w) > 16 && w[0] == 0x7e && w[1] == 0x00 && w[2] == 0x67 && w[3] == 0x01)
	n := int(w[4])<<8 | int(w[5])
	vc.Assert("container", n >= 10 && len(w) == 6+n+2+1+6+11)
	vc.Assert("sm", w[6] == 0x2e && w[7] == psi && w[8] != 0 && w[9] == 0xc1 && w[10] == 0xff && w[11] == 0xff && w[12] == 0x91)
	vc.Assert("epco", w[13] == 0x7b && int(w[14])<<8|int(w[15]) == n-10)
	vc.Assert("psi", w[6+n] == 0x12 && w[7+n] == psi)
	vc.Assert("requesttype", w[8+n]>>4 == 8 && w[8+n]&7 == rt&7)
	vc.Assert("snssai", w[9+n] == 0x22 && w[10+n] == 4 && w[11+n] == sst && w[12+n] == ids.HexOctet(sd, 0) && w[13+n] == ids.HexOctet(sd, 1) && w[14+n] == ids.HexOctet(sd, 2))
	vc.Assert("dnn", w[15+n] == 0x25 && w[16+n] == 9 && w[17+n] == 8 && vc.Forall(0, 8, func(j int) bool { return w[18+n+j] == dnn[j] }))
}
