//go:build verif

package util_3gpp

import "vspec/vc"

// UnmarshalBinary undoes MarshalBinary (C17).
//
// prop: C17
func vcLemma_dnn_roundtrip(d Dnn) {
	vc.Assume(len(d) <= 100)
	data, err := d.MarshalBinary()
	vc.Assert("ok", err == nil)
	var e Dnn
	err2 := e.UnmarshalBinary(data)
	vc.Assert("ok2", err2 == nil && len(e) == len(d))
	vc.Assert("same", vc.Forall(0, len(d), func(k int) bool { return e[k] == d[k] }))
}
