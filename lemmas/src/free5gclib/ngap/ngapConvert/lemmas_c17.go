//go:build verif

package ngapConvert

import (
	"free5gclib/aper"
	"free5gclib/ngap/ngapType"

	"vspec/vc"
)

// Transport layer address round trips (C17): converting an NGAP address to text
// and back yields the same BIT STRING, for IPv4, IPv6 and dual-stack addresses.
// (net.ParseIP(ip.String()) = ip is the assumed contract of the standard library.)
//
// prop: C17
func vcLemma_ip_roundtrip_v4(b0, b1, b2, b3 byte) {
	a := ngapType.TransportLayerAddress{Value: aper.BitString{Bytes: []byte{b0, b1, b2, b3}, BitLength: 32}}
	v4, v6 := IPAddressToString(a)
	r := IPAddressToNgap(v4, v6)
	vc.Assert("bits", r.Value.BitLength == 32 && len(r.Value.Bytes) == 4)
	vc.Assert("octets", r.Value.Bytes[0] == b0 && r.Value.Bytes[1] == b1 && r.Value.Bytes[2] == b2 && r.Value.Bytes[3] == b3)
}

// prop: C17
func vcLemma_ip_roundtrip_v6(b [16]byte) {
	a := ngapType.TransportLayerAddress{Value: aper.BitString{Bytes: b[:], BitLength: 128}}
	v4, v6 := IPAddressToString(a)
	vc.Assume(len(v4) == 0)
	r := IPAddressToNgap(v4, v6)
	vc.Assert("bits", r.Value.BitLength == 128 && len(r.Value.Bytes) == 16)
	vc.Assert("octets", vc.Forall(0, 16, func(k int) bool { return r.Value.Bytes[k] == b[k] }))
}

// prop: C17
func vcLemma_ip_roundtrip_dual(b [20]byte) {
	a := ngapType.TransportLayerAddress{Value: aper.BitString{Bytes: b[:], BitLength: 160}}
	v4, v6 := IPAddressToString(a)
	r := IPAddressToNgap(v4, v6)
	vc.Assert("bits", r.Value.BitLength == 160 && len(r.Value.Bytes) == 20)
	vc.Assert("octets", vc.Forall(0, 20, func(k int) bool { return r.Value.Bytes[k] == b[k] }))
}
