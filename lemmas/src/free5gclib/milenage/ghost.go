//go:build verif

package milenage

// Ghost helpers for the contracts of this package (specification only).

func vcA16(s []uint8) (a [16]byte) {
	for i := 0; i < 16; i++ {
		a[i] = s[i]
	}
	return
}

func vcA14(s []uint8) (a [14]byte) {
	for i := 0; i < 14; i++ {
		a[i] = s[i]
	}
	return
}

func vcA8(s []uint8) (a [8]byte) {
	for i := 0; i < 8; i++ {
		a[i] = s[i]
	}
	return
}

func vcA6(s []uint8) (a [6]byte) {
	for i := 0; i < 6; i++ {
		a[i] = s[i]
	}
	return
}

func vcA2(s []uint8) (a [2]byte) {
	a[0], a[1] = s[0], s[1]
	return
}
