//go:build verif

package milenage

import (
	"vspec/milspec"
	"vspec/vc"
)

// AUTN generation and checking are inverse (C15): the AUTN produced for (SQN, AMF)
// is accepted, with the same RES/CK/IK, iff SQN is greater than the UE's; when it
// is not, the AUTS produced is accepted by the network-side check and yields the
// UE's SQN.  Proved over the contracts of MilenageGenerate, Milenage_check, Milenage_auts.
//
// prop: C15
// shape: opc 16 amf 2 k 16 sqnNet 6 sqnUE 6 rnd 16
func vcLemma_generate_check(opc, amf, k, sqnNet, sqnUE, rnd []uint8) {
	autn, ik, ck, ak, res := make([]uint8, 16), make([]uint8, 16), make([]uint8, 16), make([]uint8, 6), make([]uint8, 8)
	rl := uint(8)
	MilenageGenerate(opc, amf, k, sqnNet, rnd, autn, ik, ck, ak, res, &rl)
	ik2, ck2, res2, auts := make([]uint8, 16), make([]uint8, 16), make([]uint8, 8), make([]uint8, 14)
	var rl2 uint
	r := Milenage_check(opc, k, sqnUE, rnd, autn, ik2, ck2, res2, &rl2, auts)
	vc.Assert("accept_iff_fresh", (r == 0) == milspec.Greater(vcA6(sqnNet), vcA6(sqnUE)))
	vc.Assert("same_keys", vc.Imp(r == 0, vcA8(res2) == vcA8(res) && vcA16(ck2) == vcA16(ck) && vcA16(ik2) == vcA16(ik)))
	vc.Assert("else_resync", r == 0 || r == -2)
	sq := make([]uint8, 6)
	r2 := Milenage_auts(opc, k, rnd, auts, sq)
	vc.Assert("auts_accepted", vc.Imp(r == -2, r2 == 0 && vcA6(sq) == vcA6(sqnUE)))
}

// Any change of one octet of MAC-A in an AUTN turns an accepted AUTN into a rejected one.
//
// prop: C15
// shape: opc 16 k 16 sqnUE 6 rnd 16 autn 16
func vcLemma_mac_octet_corruption(opc, k, sqnUE, rnd, autn []uint8, idx int, delta uint8) {
	vc.Assume(8 <= idx && idx < 16 && delta != 0)
	ik, ck, res, auts := make([]uint8, 16), make([]uint8, 16), make([]uint8, 8), make([]uint8, 14)
	var rl uint
	r1 := Milenage_check(opc, k, sqnUE, rnd, autn, ik, ck, res, &rl, auts)
	bad := append([]uint8(nil), autn...)
	bad[idx] ^= delta
	r2 := Milenage_check(opc, k, sqnUE, rnd, bad, ik, ck, res, &rl, auts)
	vc.Assert("rejected", !(r1 == 0 && r2 == 0))
}
