#!/usr/bin/env python3
"""Writes MANIFEST.json from the table below (kept in one place so it stays valid)."""
import json, subprocess

HOOK_COMMITS = subprocess.run(["git", "-C", "/repo", "log", "--format=%h %s", "--grep=^verif hook"],
                              capture_output=True, text=True).stdout.strip().splitlines()

TECH = "contract-based deductive verification: weakest-precondition style VCs from go/ssa of the real code (govc), discharged by z3/cvc5"

# id -> (level text, level note, design ref)
CLAIMED = {
 "C06": ("Proof (deductive, all inputs): the NAS COUNT type is verified against observer-level contracts for every 32-bit raw state "
         "(loop-free bit-vector obligations: exhaustive over all 2^24 counter values and the 8 unused bits).",
         "Trusted: govc VC generator, go/ssa, SMT solvers. So far only the counter part of the property is under contract; NASEncode is not yet.",
         "DESIGN.md §4 C06"),
 "C07": ("Proof (deductive, all keys/COUNT/BEARER/DIRECTION and all message lengths): SNOW 3G (S-boxes, MULalpha/DIValpha, FSM, LFSR, "
         "initialisation, unbounded keystream generation by loop invariant) and 128-NEA1 equal the specification transcribed from TS 35.215/35.216; "
         "every octet is covered by keystream; the result depends on the arguments only (initial generator state arbitrary).",
         "Spec functions in /verif/spec are the oracle (validated against the standards' test vectors). AES/CMAC uninterpreted. "
         "Distinct pointer/slice parameters assumed not to alias; slice lengths assumed <= 2^40.",
         "DESIGN.md §4 C07"),
}

CLAIMED["C06"] = ("Proof (deductive, all inputs): the NAS COUNT type is verified against observer-level contracts for every 32-bit raw state; "
  "tglib.NASEncode is proved per return path against the statement's envelope (header, SQN octet = COUNT mod 256, body ciphered only under header types 2/4 with "
  "128-NEA1/NEA2 keystream BEARER=1 DIRECTION=uplink, MAC = 128-NIA1/NIA2 over SQN||body, ULCount' = COUNT+1 mod 2^24, reset on new context, unchanged without a context).",
  "Trusted: govc VC generator, go/ssa, SMT solvers; the plain NAS encoder is an abstract deterministic byte string here (C08/C09). "
  "NASEncrypt/NASMacCalculate are used through their contracts, which are themselves proved under C07.",
  "DESIGN.md §4 C06")
CLAIMED["C10"] = ("Proof (deductive, all inputs): tglib.NASDecode is proved against the statement: header types 0..4, DL COUNT estimate (overflow incremented on SQN wrap, reset by new-context headers), "
  "body handed to the plain decoder is the received body deciphered with DIRECTION=downlink only under header types 2/4; lemma: the estimate equals the AMF's COUNT whenever it is at most 255 ahead. tglib.GetNasPdu (locate the NAS-PDU IE) is proved for IE lists of 3, 4 and 6 entries with the NAS-PDU anywhere: NASDecode receives the octets of the first IE with id 38 and their octet 2 as security header type; nil when there is none.",
  "Trusted: govc, go/ssa, SMT solvers; the plain NAS decoder is abstract (ghost log of the bytes it is given). MAC verification result is not part of the claim (the code only logs a mismatch).",
  "DESIGN.md §4 C10")
CLAIMED["C15"] = ("Proof (deductive, all K/OP/RAND/SQN/AMF): milenageF1, milenageF2345, GenerateOPC, MilenageGenerate, Milenage_check, Milenage_auts and os_memcmp equal the TS 35.206 / TS 33.102 formulas "
  "transcribed in /verif/spec/milspec (AES uninterpreted); check accepts iff MAC-A is f1 over the concealed SQN and the SQN is greater; AUTS round trip as lemma.",
  "Trusted: govc, go/ssa, SMT solvers; AES-128 is an uninterpreted function; spec functions validated against TS 35.208 test set 1 natively.",
  "DESIGN.md §4 C15")

CLAIMED["C11"] = ("Proof (deductive, all IMSIs of any length, 2- and 3-digit MNC, all digits symbolic): stgutg.EncodeSuci returns exactly the null-scheme SUCI contents of TS 24.501 9.11.3.4 "
  "(spec /verif/spec/ids written from the figure: type octet, PLMN octets, routing indicator F0 FF, scheme 0, key id 0, BCD MSIN with 1111 filler), by a loop invariant over the MSIN loop (unbounded) with termination; "
  "lemmas: an independent nibble decoder recovers MCC/MNC/MSIN from the result, and Buffer[1:4] is the TS 23.003 PLMN encoding.",
  "Trusted: govc, go/ssa, SMT solvers, the spec transcription. The use of the SUCI/PLMN octets by the registration and NG-setup drivers is C01/C13, not claimed here.",
  "DESIGN.md §4 C11")
CLAIMED["C12"] = ("Proof (deductive): both extractors terminate on every input (variant on the walk index, run-time panics end the walk: behavior `total`), and on every well-formed input "
  "(recursive well-formedness predicates written from TS 24.501 table 8.3.2.1.1 resp. the X.691 encoding of the TS 38.413 transfer) they are panic-free and return exactly the IPv4 PDU address of the first IE 0x29 "
  "resp. the address and TEID octets of the GTP tunnel of IE 139 (behavior `wellformed`, inductive invariant Find(pos)=Find(start)); QoS-rule, DNN, AMBR ... lengths are symbolic.",
  "Trusted: govc, go/ssa, SMT solvers (incl. z3's sat.euf core), the spec transcriptions; peer assumption stated in the spec: IEs preceding id 139 in the transfer have one-octet length determinants (< 128 octets).",
  "DESIGN.md §4 C12")

CLAIMED["C17"] = ("Proof (deductive, all valid inputs) for the conversions this copy of the library contains: PlmnIDToNas (2- and 3-digit MNC), AmfIdToNas (region 8 | set 10 | pointer 6), SnssaiToNas (SST / SST+SD), "
  "IPAddressToNgap and IPAddressToString (32/128/160-bit transport layer address, IPv4 first) and the DNN length-value helper, each against spec functions written from TS 23.003 / 24.501 / 38.414; "
  "round-trip lemmas for IP addresses (IPv4, IPv6, dual stack) and DNN.",
  "Trusted: govc, go/ssa, SMT solvers; assumed library contracts: hex.DecodeString, strconv.Atoi, net.ParseIP/To4/To16/IPv4/String with ParseIP(String(a)) = a. "
  "ProtocolConfigurationOptions Marshal/UnMarshal: proved (layout per TS 24.008 10.5.6.3 and round trip) for lists of 0..3 units with every identifier, length 0..255 and content, by case split on which units are empty (model of bytes.Buffer / bytes.Reader / binary.Read/Write assumed); longer lists by the BOUNDED stand-in (420 option lists against a TS 24.008 reference, labelled bounded); this copy has no inverse functions for PLMN, S-NSSAI and AMF-ID, so 'undone by its inverse' is decided for IP addresses and DNN only.",
  "DESIGN.md §4 C17")

CLAIMED["C18"] = ("Proof for the command line: stgutg.GetMode returns 1 exactly for an argument vector of length 1, 2 exactly for length 2 with second element \"-t\", 0 otherwise (vectors of length 0..3, all strings symbolic). "
  "Proof for the data flow in test mode: in main() every call of ConnectToAmf, ManageNGSetup, CreateUE, RegisterUE, EstablishPDU, ServiceRequest, ReleasePDU and DeregisterUE receives, parameter by parameter, the field of the parsed configuration that the documentation names for it (AMF/STG addresses and ports; gNB id, bit length, name; IMSI, K, OPc, OP; MNC, MCC; SST, SD; GTP address) and the UE index of the loop — call-site obligations of main's contract, for every configuration. "
  "Conf.GetConfiguration returns what yaml.Unmarshal delivered, unchanged (assumed model of os.ReadFile / yaml.Unmarshal). Structural obligations (go/types, no solver): the configuration struct has exactly one field per documented key (24 keys transcribed from config.yaml/README) with that yaml tag and the documented kind, and no undocumented field.",
  "NOT decided: what gopkg.in/yaml.v2 does with a given scalar (reflection-driven, outside the subset; leading zeros, escapes), traffic mode of main() (blocks on a channel; XDP packages). Trusted: govc, go/ssa, go/types; the procedures are seen by main through their `returns` case.",
  "DESIGN.md §I.2 C18")

CLAIMED["C16"] = ("Proof (deductive, all 15-digit initial IMSIs, all indices below 10^4, all credential strings): stgutg.CreateUE returns a UE whose SUPI is \"imsi-\" followed by the 15-digit decimal numeral of IMSI+index, "
  "whose RAN-UE-NGAP-ID is (IMSI+index) mod 10^4, which carries exactly the configured K/OPc/OP and (NEA0, NIA2); GetUESecurityCapability sets exactly the EA/IA bit of the chosen algorithms (TS 24.501 9.11.3.54); "
  "lemma: different indices give different SUPIs of the same length; integer lemmas (z3/cvc5 over the mathematical integers): the RAN-UE-NGAP-IDs differ and MCC/MNC digits are kept while the MSIN does not overflow.",
  "Trusted: govc, go/ssa, SMT solvers; assumed library contracts: strconv.Atoi, fmt.Sprintf(\"%0*d\") = the w-digit numeral of n; the link between the integer lemmas and the contract clauses is made by hand (stated in the evidence). IMSIs of 15 digits only (shape).",
  "DESIGN.md §4 C16")

CLAIMED["C05"] = ("Proof (deductive, all K/OP/OPc/RAND/AUTN, all algorithm identifiers, 2- and 3-digit MNC; 15-digit SUPI for DeriveRESstarAndSetKey, SUPIs of 15, 14, 10 and 5 digits for DerivateKamf): DeriveRESstarAndSetKey returns RES* = KDF(CK||IK, 6B||SN||len||RAND||0010||RES||0008)[16:32] "
  "and installs K_AMF = KDF(K_SEAF, 6D||SUPI||len||0000||0002), K_NASenc/K_NASint = KDF(K_AMF, 69||01|02||0001||alg||0001)[16:32] with K_AUSF (6A) and K_SEAF (6C) in between, CK/IK/RES being f3/f4/f2 of TS 35.206 — "
  "the spec /verif/spec/kdfspec + milspec is written from TS 33.501 Annex A / TS 33.220 B.2 / TS 35.206 with HMAC-SHA-256 and AES as opaque functions; github.com/wmnsk/milenage is executed in line, i.e. verified together with the caller, not assumed; "
  "with only OP configured the result equals that for OPc = OP xor E_K(OP). DerivateKamf and DerivateAlgKey have their own contracts (modular).",
  "Trusted: govc, go/ssa, SMT solvers; assumed library contracts: hex.DecodeString, crypto/hmac+sha256 (= HMAC256), crypto/aes (= AES), regexp for the one SUPI pattern, fmt.Sprintf(%s), binary.*Endian. "
  "The precondition snName = SNName(mcc, mnc) is discharged at the call site in RegisterUE only under C01. SUPI lengths other than those listed are not decided (the length of the string is part of the shape of a contract case).",
  "DESIGN.md §4 C05")

CLAIMED["C14"] = ("Proof (deductive, arbitrary input octets) for the decoding primitives of the APER codec: GetBitString, GetBitsValue, bitCarry, getBitString, getBitsValue, parseAlignBits, parseConstraintValue, parseLength, "
  "parseBool, parseEnumerated, getChoiceIndex, parseInteger, parseBitString, parseOctetString — under the cursor invariant alone each returns a value or an error, never panics (all index/slice/shift/allocation obligations), keeps the invariant, "
  "never moves the cursor backwards, allocates no more than the input length (+8), and its loops terminate (variants on the fragment loops); functional clauses: extracted bit fields equal the X.691 bit-field spec (/verif/spec/per).",
  "NOT covered by proof: the reflection-driven traversal (parseField, parseSequenceOf, parseOpenType, Unmarshal*, ngap.Decoder) is outside the executor's subset; the claim is about the primitives every path of that traversal bottoms out in. "
  "Trusted: govc, go/ssa, SMT solvers; log formatting helpers perBitLog/perRawBitLog (reflect) assumed effect-free.",
  "DESIGN.md §4 C14")

CLAIMED["C03"] = ("Proof (deductive, any prefix, all values) of the general contracts of the APER encoding primitives putBitString, putBitsValue, appendAlignBits, appendConstraintValue, appendLength, appendBool, appendEnumerated, appendInteger, appendChoiceIndex, appendOctetString, appendBitString: "
  "what they refuse (value not fitting its width, range above 64K, INTEGER/ENUMERATED outside a non-extensible constraint: refused instead of put on the wire), the cursor invariant, that nothing before the last octet is read or changed, and the number of bits/octets each encoding occupies per X.691 10.5.7/10.9 — including, for INTEGER, the unconstrained / out-of-root (10.8, minimum octets of the 2's complement), semi-constrained (10.7) and above-64K (10.5.7.4, for lower bound 0, which a structural obligation checks on the tags of ngapType) forms, and for OCTET STRING / BIT STRING the unconstrained, variable-size (range up to 255) and out-of-root forms. Found and repaired under these clauses: a range of 64K+1..128K (RepetitionPeriod) got a length field one bit short. "
  "BOUNDED stand-ins (native runs of the real functions, labelled bounded, not proofs) compare the bits written with a reference encoder written from X.691 (/verif/spec/per/ref.go): the reflection-driven traversal itself on synthetic ASN.1 types, one per construct (extensible SEQUENCE with OPTIONAL components, SEQUENCE OF under seven size constraints with up to 300 elements, CHOICE, information object fields with open types, a PrintableString behind a wrapper type), in both directions; bit fields (all widths x alignments), constrained whole numbers, length determinants 0..16383, INTEGER under 23 constraint tuples, OCTET STRING and BIT STRING under the NGAP constraint shapes.",
  "NOT covered: the reflection-driven traversal (makeField, appendOpenType, Marshal*, ngap.Encoder) and the agreement of the ngapType struct tags with the ASN.1 of TS 38.413 are outside the executor's subset and have no offline oracle; fragmented lengths (>= 16384) are not checked. "
  "The value written by each primitive is established by the bounded stand-ins only (the symbolic proof of the bit-level postcondition timed out; see DESIGN.md). Trusted: govc, go/ssa, SMT solvers, the reference encoder.",
  "DESIGN.md §4 C03")
CLAIMED["C04"] = ("Proof (deductive, arbitrary input) of the functional contracts of the decoding primitives: GetBitString/GetBitsValue/getBitString/getBitsValue return exactly the X.691 bit field at the cursor and advance by its width; parseAlignBits, parseConstraintValue (field width / aligned octets per 10.5.7), parseLength (10.9), parseBool — these mirror the encoder's general contracts (same widths, same alignment); parseInteger (value and advance for ranges up to 255 values and above 64K, advance of the length-octet forms); parseOctetString for fixed sizes (the octets at the cursor, aligned above two octets). "
  "BOUNDED stand-ins (labelled bounded): primitive round trips parse(append(v)) = v over the enumerated families of C03, and whole-PDU round trips decode(encode(m)) -> same octets and equal structure for the emulator's 8 message constructors over boundary identifiers, NAS lengths and gNB id lengths.",
  "NOT covered by proof: the traversal (parseField, parseSequenceOf, parseOpenType, Unmarshal*), hence whole-PDU round trips are bounded only; canonical encodings from an independent whole-PDU encoder are not available offline. Trusted: govc, go/ssa, SMT solvers.",
  "DESIGN.md §4 C04")

CLAIMED["C20"] = ("Whole-program frame analysis (structural obligations on go/ssa, no solver): no repository function reachable (class-hierarchy call graph) from ngap.Encoder/Decoder, PlainNasEncode/Decode, NASEncode/NASDecode, EncodeNasPduWithSecurity, GetNasPdu, DeriveRESstarAndSetKey, NASEncrypt, NASMacCalculate and the nine NAS message constructors the emulator uses (nasTestpacket, with nasConvert behind them) "
  "writes a package-level variable, reads one that is written after initialisation, hands the address of one to another function, or writes THROUGH a slice / map / pointer read from one (taint over indexing, slicing, lookup, append, phi and repository calls; store, map update, append, copy and a list of standard-library writers) — with the recorded exception of the SNOW 3G generator state (known finding, with a deterministic interleaving witness run natively). "
  "Together with the functional contracts of C05/C06/C07/C10 (results are functions of the arguments and caller-owned memory: frame clauses `assigns`) this gives sequential = concurrent results for everything but NEA1/NIA1.",
  "No schedule is explored and no race detector is run: the step from disjoint footprints to race freedom is a stated meta-rule; standard library and third-party packages are assumed thread-safe; reachability through reflection is limited to the call graph. "
  "Known finding (not repaired: the generator state would have to move into the callers): snow3g.lfsr / snow3g.fsm are shared by all callers of NEA1/NIA1.",
  "DESIGN.md §4 C20")

CLAIMED["C13"] = ("Proof (deductive, all arguments) of the value graph built by the 8 NGAP builders on the emulator's path (NGSetupRequest, InitialUEMessage, UplinkNASTransport, InitialContextSetupResponse x2, PDUSessionResourceSetupResponse, PDUSessionResourceReleaseResponse, UEContextReleaseComplete): "
  "message class, procedure code, criticality, the IE ids and criticalities of TS 38.413 clause 9.2 (constants transcribed in /verif/spec/ngap38413, not read from the library), each caller-supplied identifier, NAS-PDU and PDU session id at its place, every PLMN field = the PLMN announced at NG Setup; out-of-range INTEGERs are refused by appendInteger (proved, C03). The 8 build-and-encode wrappers are proved (builder executed in line) to hand ngap.Encoder the message of the procedure they are named after with their own arguments at their places (call-site obligations P:call:Encoder.hands). "
  "BOUNDED stand-in (labelled bounded): the octets returned by the 8 build-and-encode wrappers of the emulator's procedures, parsed by an independent TS 38.413/X.691 walker, carry exactly those values over boundary identifiers and NAS lengths, and identifiers just outside their ranges are refused; for the 6 other wrappers of tglib (handover, path switch, paging, release request) the walker finds the message class, the procedure code and the caller's two UE identifiers.",
  "NOT covered: the other 44 builders of the library (not on the emulator's path); the encoding step itself is proved only at primitive level (C03), the traversal being reflection-driven. Trusted: govc, go/ssa, SMT solvers, the transcribed tables, aper.Marshal* assumed to return octets or an error.",
  "DESIGN.md §4 C13")

CLAIMED["C19"] = ("Proof (deductive, every fault position) of the error discipline of the six procedures ManageNGSetup, RegisterUE, EstablishPDU, ServiceRequest, ReleasePDU, DeregisterUE over a ghost N2 association: "
  "once a Read or Write of the association has failed, or a reply the procedure consumes was not decodable (ghost flag io.fault, raised by the assumed contracts of (*sctp.SCTPConn).Read/Write and ngap.Decoder), no further message is sent and the procedure does not return normally — checked at every send and at the normal return on every path, so every fault position is covered; "
  "ManageError returns only when its error is nil and otherwise calls os.Exit with a non-zero status. The reply after Registration Complete, whose decoding result the code discards, is exempt as in the statement.",
  "NOT decided: blocking reads (a silent peer that neither answers nor closes), wall-clock bounds, the real exit status of the process (rests on the model `os.Exit does not return`), main() itself (the banner is printed only after the procedures returned normally, which the obligations tie to the absence of faults). "
  "Assumed: contracts of sctp Read/Write/Close, ngap.Decoder/Encoder, the NAS constructors and build-and-encode wrappers (return octets or an error); functional preconditions of callees are assumed here (they belong to C01/C02); run-time panics end the process.",
  "DESIGN.md §I.2 C19")

CLAIMED["C01"] = ("Proof (deductive, every reply the AMF may send, every configuration) of the emulator's side of the exchange at driver level, over ghost logs written by the contracts of the callees: "
  "ManageNGSetup builds exactly one NGAP message, the NG SETUP REQUEST with the configured gNB id length; RegisterUE builds, in this order, INITIAL UE MESSAGE (RAN-UE-NGAP-ID of the UE), UPLINK NAS TRANSPORT x2, INITIAL CONTEXT SETUP RESPONSE, UPLINK NAS TRANSPORT, "
  "each with the AMF-UE-NGAP-ID taken from the AMF's reply and the UE's RAN-UE-NGAP-ID; the NAS messages are Registration Request, Authentication Response, Registration Request (for the container), Security Mode Complete, Registration Complete; "
  "exactly two messages are security protected: Security Mode Complete with header type 4, new context, COUNT 0, and Registration Complete with header type 2, COUNT 1; the stored uplink COUNT ends at 2; a procedure leaves through ManageError (exit) only after a fault — the association failed, a consumed reply was undecodable or a message builder returned an error — so for an AMF that answers, the exchange runs to its end; the AMF-UE-NGAP-ID of every uplink message after the first reply is the value read from the first IE of that reply (the decoded reply is an unknown but fixed structure at this level); per MNC length (cases ids2 / ids3): the mobile identity of both Registration Requests is the null-scheme SUCI of the UE's SUPI, the serving network name handed to the key derivation is SNName(mcc, mnc) (the precondition of C05's contract, proved at its call site), and NG Setup announces the PLMN octets of the configured IMSI "
  "(EncodeNasPduWithSecurity proved against NASEncode's contract, C06). The pieces the statement composes are decided under their own properties: octets of each NGAP message (C13, C03), SUCI/PLMN (C11), RES* and keys (C05, C15), envelope and MAC (C06, C07).",
  "NOT decided: acceptance by a reference AMF as a whole conversation (no peer is run; kernel SCTP and a socket hook are not used by this technique), the contents of the NAS messages built by nasTestpacket (constructors are assumed: they record what they were asked to build), "
  "the contents of the replies beyond the fields the driver reads (ngap.Decoder is assumed to return a message — an unknown but fixed structure — or an error; that the AMF-UE-NGAP-ID is the FIRST IE of the reply is the code's own assumption and is not checked against TS 38.413). Functional preconditions of callees are assumed at driver level (proved where the callee is claimed). Run-time panics end the procedure.",
  "DESIGN.md §I.2 C01")
CLAIMED["C02"] = ("Proof (deductive, every reply, every UE state, every UE count and repetition count) in three layers. "
  "(1) main() in test mode (argument vector [_, -t], any configuration): loop invariants len(ueList) = len(pduList) = number of registrations done; every ueList[i] / pduList[i] is in range; "
  "the number of establishments is at most the number of registered UEs, the numbers of service requests and releases at most the number of establishments, the number of deregistrations at most the number of registered UEs "
  "(so no procedure is attempted for a UE whose prerequisite loop did not reach it), for counts larger than the number of UEs and for negative counts; repetition i of establishment, service request, release and deregistration is run for element i of the UE list (and of the stored-PDU list) — call-site obligations; stgutg.Min proved. "
  "(2) Each procedure (EstablishPDU, ServiceRequest, ReleasePDU, DeregisterUE) at driver level over ghost logs written by the contracts of the callees: exactly the NGAP messages of the procedure in order, each with the UE's own AMF-UE-NGAP-ID and RAN-UE-NGAP-ID; "
  "one PDU session identity in 1..15 in the NAS request, the release complete and the NGAP response; every protected NAS message uses header type 2 and the stored uplink COUNT, which ends one higher; exit through ManageError only after a fault; the S-NSSAI handed to the establishment request and the release complete is the configured (sst, sd), the GTP address of the setup responses is the configured one, the deregistration request carries the SUCI of the UE's SUPI (cases ids2 / ids3), the octets handed to the extractors of C12 are the NAS-PDU and the transfer of the first item of the third IE of the decoded PDU SESSION RESOURCE SETUP REQUEST (EncodeNasPduWithSecurity proved against NASEncode's contract) — no COUNT is used twice before 2^24 messages. "
  "(3) Relational lemma: establishment, service request and release run one after the other on one UE use the same PDU session identity in all six places. "
  "The check also runs the contracts it composes: C06 (envelope, COUNT), C12 (UE address / TEID / UPF address extraction), C13 (NGAP builders and wire form).",
  "NOT decided: traffic mode of main() (blocks on a channel; XDP packages), acceptance by a reference AMF/SMF (no peer is run), NAS message contents (constructors assumed: they record what they were asked to build), which registration produced element i of the lists (list elements are unknown but fixed values per index). "
  "Assumed: elements of the UE list are non-nil (no element invariants for lists of symbolic length), the procedures return or end the process (their `returns` case), COUNT wrap after 2^24 protected messages is not excluded by the code and not claimed. "
  "Found and repaired under this check: the session identity was the last four SUPI digits, truncated differently in NAS and NGAP (fix commit in /repo).",
  "DESIGN.md §I.2 C02")

CLAIMED["C08"] = ("Proof (deductive, all field values, all IE lengths within the capacity of the IE, all contents) per message type, for 44 of the 45 message types (29 5GMM + 16 5GSM less SECURITY PROTECTED 5GS NAS MESSAGE, which the emulator and NASEncode do not use): "
  "Decode(Encode(m)) = m field by field and Encode(Decode(Encode(m))) = Encode(m) for (a) no optional IE, (b) each optional IE alone (160 pairs), (c) all optional IEs together, (d) all optional IEs arriving in the reverse of the canonical order (lengths fixed at 2 octets, contents symbolic); "
  "thorough tier: every subset of the optional IEs for the messages with at most 10 of them. One level up: each message wrapped in a nas.Message with its message type survives PlainNasEncode / PlainNasDecode (the type dispatch of both directions), unknown 5GMM / 5GSM message types and unknown protocol discriminators are errors in both directions. "
  "The lemmas are generated on every run from the type declarations of the tree under verification (IE value types, message structs, IEI constants) — nothing is taken from the bodies of Encode/Decode — and executed symbolically on the real Encode/Decode functions.",
  "Assumed: bytes.Buffer and encoding/binary.Read/Write behave as their documentation says for fixed-size values and byte slices (model in cmd/govc/models_buf.go: append-only writes; a read of n octets succeeds iff n octets are unread, otherwise consumes the rest and leaves the destination untouched). "
  "Well-formed = what the library's constructors establish (IEI of an optional IE = the message's constant, Len = length of Buffer or at most the capacity of Octet, unused octets zero). "
  "NOT decided: subsets of optional IEs for the 6 messages with more than 10 of them beyond none / each alone / all / reversed (the decode loop handles each IE in its own switch case writing only its own field, which is why those are representative, but that independence is not itself proved); orders other than canonical and reversed; malformed input (a length beyond the capacity of a fixed array panics in the decoder: outside this property).",
  "DESIGN.md §I.2 C08")
CLAIMED["C09"] = ("Proof (deductive, all field values and contents) against a transcription of the message tables of TS 24.501 clauses 8.2 / 8.3 and the message types of tables 9.7.1 / 9.7.2 (cmd/govc/nas24501_tables.go: per message the mandatory fields with format V n / LV / LV-E in order, and per optional IE the IEI and the format half-octet TV / TV n / TLV / TLV-E): "
  "for each of 44 message types the encoding of the mandatory part is exactly header (EPD, security header type or PDU session id + PTI, message type) followed by the mandatory fields in table order with the tabulated widths; for each of the 160 (message, optional IE) pairs the IE appears after the mandatory part with the tabulated IEI, a length field of the tabulated width carrying the number of value octets, and the tabulated size for fixed formats; "
  "structural obligations (go/types): every MsgType constant and every <Message><IE>Type constant has the tabulated value, every optional IE of a message struct is in the table of the message and vice versa, every IE value type can carry its tabulated format. Two genuine defects found and repaired in /repo (Requested QoS rules with a one-octet length, Last visited registered TAI with seven value octets).",
  "The tables are transcribed from the standard from memory (no copy of TS 24.501 is available offline); every row agreed with the library except the two repaired defects, which are corroborated inside the library itself (AuthorizedQosRules carries the same IE with two length octets; the accessors of LastVisitedRegisteredTAI use six octets). Optional IEs of the standard that the library does not implement are not listed. "
  "The ten octets of the mandatory parts that hold two half-octet fields have their own lemmas (which accessor owns which bits), and the messages the emulator sends are proved octet by octet as built by nasTestpacket's constructors (AUTHENTICATION RESPONSE, REGISTRATION REQUEST in both forms, SECURITY MODE COMPLETE, REGISTRATION COMPLETE, SERVICE REQUEST, DEREGISTRATION REQUEST, UL NAS TRANSPORT with PDU SESSION ESTABLISHMENT REQUEST / RELEASE REQUEST / RELEASE COMPLETE) — a third defect found and repaired there (SERVICE REQUEST carried a 5GS mobile identity of type 'no identity'). The multi-octet IE values the emulator fills through accessors (integrity protection maximum data rate, 5G-S-TMSI, S-NSSAI) have hand-written lemmas from TS 24.501 9.11.4.7 / 9.11.3.4 / 9.11.2.8; a fourth defect found and repaired there (SetAMFSetID cleared the AMF pointer). Accessor sweep: 553 generated lemmas state, for every accessor pair of nasType whose field lies inside one octet, is a uint16 spanning octets or is a whole-octet array, what the library's own layout annotation (Row, sBit, len) says — setter places exactly those bits and nothing else, getter reads them; that decides agreement of the code with its layout table, not of the table with the standard. NOT decided: slice-valued IE contents, the values chosen by the constructors for dummy fields (IMEISV digits, PTI), SECURITY PROTECTED 5GS NAS MESSAGE. The check also runs every round-trip lemma of C08 (decode direction: with the layout of the encoding, Decode(Encode(m)) = m is what decoding a message built by an independent encoder needs). Same assumed models of bytes.Buffer / encoding/binary as C08.",
  "DESIGN.md §I.2 C09")

PENDING = {
}

NA_REASON = "not yet brought under contract in this revision of /verif (work in progress; see DESIGN.md §7 order of work)"

ALL = ["C%02d" % i for i in range(1, 21)]

checks = []
for pid in ALL:
    if pid not in CLAIMED:
        continue
    text, note, ref = CLAIMED[pid]
    checks.append({
        "property_id": pid,
        "quick_cmd": "./check %s --tier quick" % pid,
        "thorough_cmd": "./check %s --tier thorough" % pid,
        "evidence_file": "/verif/evidence/%s.json" % pid,
        "replay_cmd_template": "cat {path}",
        "engine": "govc",
        "level_claimed": {"category": "proof", "text": text, "design_ref": ref},
        "level_note": note,
        "technique": TECH,
    })

na = []
for pid in ALL:
    if pid not in CLAIMED:
        na.append({"property_id": pid, "reason": PENDING.get(pid, NA_REASON)})

manifest = {
    "version": 1,
    "setup_cmd": "cd /verif && ./setup.sh",
    "hooks": {
        "guard": "verif",
        "enable": "go build tag `verif` (-tags=verif); the hook files are comment-only zz_contracts_verif.go files holding //@ contracts",
        "baseline_off_cmd": "/verif/baseline_off.sh",
        "source_commits": [c.split()[0] for c in HOOK_COMMITS],
        "add_only": True,
    },
    "engines": [{
        "name": "govc",
        "path": "/verif/cmd/govc",
        "serves_properties": sorted(CLAIMED),
        "kind_free_text": "symbolic executor over go/ssa of the real code generating proof obligations (pre/post/invariant/frame/safety/range) from //@ contracts; SMT back ends z3 4.8.12, z3 5.1.0, cvc5 1.0; native replay of counterexamples",
    }],
    "checks": checks,
    "not_applicable": na,
    "notes": "Contracts live in /repo as comment-only files behind the build tag `verif`; spec functions (oracles) and lemma harnesses live in /verif/spec and /verif/lemmas. See DESIGN.md.",
}
json.dump(manifest, open("/verif/MANIFEST.json", "w"), indent=1)
print("MANIFEST.json written:", len(checks), "checks,", len(na), "not applicable")
