#!/bin/sh
# Runs the repository's pinned test suite with the `verif` build tag OFF, on a
# scratch copy of /repo's working tree (go commands inside /repo rewrite go.work.sum).
set -e
REPO="${VERIF_REPO:-/repo}"
S="/var/tmp/verif_baseline.$$"
trap 'rm -rf "$S"' EXIT
mkdir -p "$S"
rsync -a --exclude=.git --exclude=stgutgmain "$REPO/" "$S/"
export GOPROXY=off GOSUMDB=off GOTOOLCHAIN=local GOFLAGS=
rc=0
for m in . ./src/free5gclib ./src/stgutg ./src/tglib; do
  (cd "$S/$m" && go test -json -vet=off -count=1 -timeout 25m ./...) || rc=1
done
exit $rc
