package main

// Loop cutting with invariants, modular use of contracts, frame checks.

import (
	"fmt"
	"go/token"
	"go/types"
	"sort"
	"strings"

	"golang.org/x/tools/go/ssa"
)

// ---------------- specs (parsed from //@ comments) ----------------

type Clause struct {
	Label   string
	Expr    string
	Binders string // "(i int, msin []byte)" for loop clauses
	Ghost   string // generated ghost function name (loop clauses)
}

type LoopSpec struct {
	Key       string
	Invs      []*Clause
	Decreases *Clause
	Unroll    int
}

type FuncSpec struct {
	Name      string // as written: "NEA1" or "(*Count).AddOne"
	Pkg       string
	Requires  []*Clause
	Ensures   []*Clause
	Assigns   []string
	AssignGlobals []string
	Loops     map[string]*LoopSpec
	Inline    bool
	Inlines   []string
	SplitParam string
	SplitLo, SplitHi int64
	GhostLogs [][2]string
	Pure      bool
	OpaqueFns []string
	Trusted   bool
	Opaque    bool
	MayNil    []string
	Shape     map[string]int
	Props     []string
	Lets      []string // ghost declarations evaluated before the call ("name := expr")
	File      string
	Line      int
	SSAName   string
	Behavior  string // contract case (ACSL-style behavior): "" for the default one
	ProofOnly bool   // never picked at a call site
	NoSafety  bool   // panics end the path instead of being obligations (termination-only behaviors)
	Driver    bool   // driver-level target (ghost I/O, fail-stop obligations)
	AssumePre bool   // callee preconditions assumed, not proved
	Given     []string // statements establishing the initial state of the case
	Calls     map[string][]*Clause // assertions at the calls of a callee (by short name)
	ExitNonZero bool // os.Exit must be called with a non-zero status
}

// Key identifies the contract case: the SSA name, plus "@behavior" for a named one.
func (s *FuncSpec) Key() string {
	if s.Behavior == "" {
		return s.SSAName
	}
	return s.SSAName + "@" + s.Behavior
}

func (s *FuncSpec) HasContract() bool {
	return len(s.Requires) > 0 || len(s.Ensures) > 0 || len(s.Assigns) > 0 || len(s.AssignGlobals) > 0 || len(s.GhostLogs) > 0 || len(s.Calls) > 0 || s.Trusted
}

// ---------------- loops ----------------

func (x *Exec) binderValue(fr *Frame, li *LoopInfo, st *State, name string) (Value, bool) {
	// 0. old_<global>: value of a package-level variable at function entry
	if strings.HasPrefix(name, "old_") && fr.entryHeap != nil && fr.fn.Pkg != nil {
		if g, ok := fr.fn.Pkg.Members[strings.TrimPrefix(name, "old_")].(*ssa.Global); ok {
			o := x.globalObject(g)
			if v, ok := fr.entryHeap.m[o]; ok {
				return x.snap(v), true
			}
			// first touched after entry: its (arbitrary or initial) value is created now and was the same at entry
			saved := x.st
			x.st = st
			v := x.heapGet(o)
			x.st = saved
			return x.snap(v), true
		}
	}
	// 0b. old_<pointer parameter>: the pointee as it was at function entry (a value, not a pointer)
	if strings.HasPrefix(name, "old_") && fr.entryHeap != nil {
		for _, p := range fr.fn.Params {
			if p.Name() == strings.TrimPrefix(name, "old_") {
				if pv, ok := st.regs[p].(PtrV); ok && pv.Obj != nil {
					if v, ok := fr.entryHeap.m[pv.Obj]; ok {
						saved := x.st
						x.st = &State{pc: st.pc, heap: fr.entryHeap}
						r := x.loadPath(v, pv.Path)
						x.st = saved
						return r, true
					}
				}
			}
		}
	}
	// 1. phi at the loop head
	for _, ins := range li.head.Instrs {
		if ph, ok := ins.(*ssa.Phi); ok && ph.Comment == name {
			if v, ok := st.regs[ph]; ok {
				return v, true
			}
		}
	}
	// 2. parameter
	for _, p := range fr.fn.Params {
		if p.Name() == name {
			if v, ok := st.regs[p]; ok {
				return v, true
			}
		}
	}
	// 3. address-taken local / named result
	var best ssa.Value
	for _, b := range fr.fn.Blocks {
		for _, ins := range b.Instrs {
			switch i := ins.(type) {
			case *ssa.Alloc:
				if i.Comment == name {
					if p, ok := st.regs[i]; ok {
						x.st = st
						return x.load(p), true
					}
				}
			case *ssa.DebugRef:
				if id, ok := i.Expr.(interface{ String() string }); ok && !i.IsAddr {
					_ = id
				}
				if identName(i) == name && !i.IsAddr {
					if _, ok := st.regs[i.X]; ok || isConstVal(i.X) {
						if vi, ok := i.X.(ssa.Instruction); ok {
							if vi.Block() != nil && vi.Block().Dominates(li.head) && (vi.Block() != li.head || isPhi(i.X) || precedes(vi, li.at)) {
								if best == nil || dominatesVal(best, i.X) {
									best = i.X
								}
							}
						} else {
							if best == nil {
								best = i.X
							}
						}
					}
				}
			}
		}
	}
	if best != nil {
		x.st = st
		return x.get(best), true
	}
	// 4. phi anywhere dominating the head with this comment
	for _, b := range fr.fn.Blocks {
		if !b.Dominates(li.head) {
			continue
		}
		for _, ins := range b.Instrs {
			if ph, ok := ins.(*ssa.Phi); ok && ph.Comment == name {
				if v, ok := st.regs[ph]; ok {
					return v, true
				}
			}
		}
	}
	return nil, false
}

func isPhi(v ssa.Value) bool { _, ok := v.(*ssa.Phi); return ok }

// precedes: a comes before b in b's block (b == nil: no).
func precedes(a, b ssa.Instruction) bool {
	if a == nil || b == nil || a.Block() != b.Block() {
		return false
	}
	for _, ins := range b.Block().Instrs {
		if ins == a {
			return true
		}
		if ins == b {
			return false
		}
	}
	return false
}
func isConstVal(v ssa.Value) bool {
	_, ok := v.(*ssa.Const)
	return ok
}

func dominatesVal(a, b ssa.Value) bool {
	ai, ok1 := a.(ssa.Instruction)
	bi, ok2 := b.(ssa.Instruction)
	if !ok1 || !ok2 {
		return ok2
	}
	if ai.Block() == bi.Block() {
		for _, ins := range ai.Block().Instrs {
			if ins == ai {
				return true
			}
			if ins == bi {
				return false
			}
		}
	}
	return ai.Block().Dominates(bi.Block())
}

func identName(d *ssa.DebugRef) string {
	if id, ok := d.Expr.(interface{ String() string }); ok {
		_ = id
	}
	if d.Expr == nil {
		return ""
	}
	return types.ExprString(d.Expr)
}

func (x *Exec) evalClause(fr *Frame, li *LoopInfo, st *State, c *Clause) Value {
	gf := x.P.ghostFn(fr.fn.Pkg, c.Ghost)
	if gf == nil {
		unsup("ghost function %s for loop clause not found (contract unbound)", c.Ghost)
	}
	args := make([]Value, len(gf.Params))
	for i, p := range gf.Params {
		v, ok := x.binderValue(fr, li, st, p.Name())
		if !ok {
			unsup("loop clause %s: cannot bind %q at loop head (contract unbound)", c.Label, p.Name())
		}
		args[i] = v
	}
	x.st = st
	r := x.callFunction(gf, args, nil, true)
	return r
}

func (x *Exec) checkInvariant(fr *Frame, li *LoopInfo, ls *LoopSpec, st *State, class string) {
	x.curFunc = append(x.curFunc, fnName(fr.fn))
	defer func() { x.curFunc = x.curFunc[:len(x.curFunc)-1] }()
	for _, c := range ls.Invs {
		v := x.evalClause(fr, li, st, c)
		x.st = st
		x.oblige(class, li.key+"."+c.Label, term(v), li.head.Instrs[0].Pos())
	}
	if x.dry == 0 && x.dryLoop == nil {
		if x.loopSeen == nil {
			x.loopSeen, x.loopBack = map[string]bool{}, map[string]bool{}
		}
		k := x.funcName() + " loop " + li.key
		if class == "I0" {
			x.loopSeen[k] = true
		} else if !x.loopBack[k] {
			// vacuity guard: the end of the loop body must be reachable under the invariants and everything
			// assumed on the way ("false" must not be provable there)
			x.loopBack[k] = true
			x.st = st
			x.oblige("V", "body:"+li.key, False(), li.head.Instrs[0].Pos())
		}
	}
	if class == "I1" && ls.Decreases != nil {
		cut := st.inLoop[li.head]
		v := term(x.evalClause(fr, li, st, ls.Decreases))
		x.st = st
		if cut != nil && cut.variant != nil {
			x.oblige("D", li.key+"."+ls.Decreases.Label, And(BvSle(BVU(0, v.S.W), cut.variant), BvSlt(v, cut.variant)), li.head.Instrs[0].Pos())
		}
	}
}

func (x *Exec) cutLoop(fr *Frame, li *LoopInfo, ls *LoopSpec, st *State) {
	x.checkInvariant(fr, li, ls, st, "I0")
	entryEpoch := x.epoch
	x.epoch++
	// modset fixpoint by dry runs
	mod := map[*Object]bool{}
	for round := 0; round < 6; round++ {
		trial := st.fork(st.pc)
		x.st = trial
		nA, nO, nI := len(x.assumes), len(x.obls), len(x.inputs)
		x.havocLoop(fr, li, trial, mod)
		trial.inLoop[li.head] = &loopCut{}
		trial.phiDone = li.head
		trial.skipCut = li.head
		log := map[*Object]bool{}
		x.writeLog = append(x.writeLog, log)
		nRet := len(fr.returns)
		savedDry := x.dryLoop
		x.dryLoop = li
		x.dry++
		func() {
			defer func() {
				x.dry--
				x.dryLoop = savedDry
				x.writeLog = x.writeLog[:len(x.writeLog)-1]
			}()
			x.run(fr, trial, li.head, nil)
		}()
		x.assumes, x.obls, x.inputs = x.assumes[:nA], x.obls[:nO], x.inputs[:nI]
		fr.returns = fr.returns[:nRet]
		grew := false
		for o := range log {
			if o.Birth <= entryEpoch && !mod[o] {
				if _, exists := st.heap.m[o]; exists || o.Global != nil {
					mod[o] = true
					grew = true
				}
			}
		}
		if !grew {
			break
		}
	}
	x.st = st
	x.havocLoop(fr, li, st, mod)
	cut := &loopCut{}
	st.inLoop[li.head] = cut
	x.curFunc = append(x.curFunc, fnName(fr.fn))
	for _, c := range ls.Invs {
		v := x.evalClause(fr, li, st, c)
		x.st = st
		x.assume(term(v))
	}
	if ls.Decreases != nil {
		cut.variant = term(x.evalClause(fr, li, st, ls.Decreases))
		x.st = st
	}
	x.curFunc = x.curFunc[:len(x.curFunc)-1]
}

func (x *Exec) havocLoop(fr *Frame, li *LoopInfo, st *State, mod map[*Object]bool) {
	x.st = st
	for _, ins := range li.head.Instrs {
		ph, ok := ins.(*ssa.Phi)
		if !ok {
			break
		}
		// a phi whose back-edge values equal itself is loop-invariant
		cur := st.regs[ph]
		st.regs[ph] = x.havocValue(cur, ph.Type(), "loop!"+ph.Comment)
	}
	var objs []*Object
	for o := range mod {
		objs = append(objs, o)
	}
	sort.Slice(objs, func(i, j int) bool { return objs[i].id < objs[j].id })
	for _, o := range objs {
		cur := x.heapGet(o)
		st.heap.m[o] = x.havocValue(cur, o.Typ, "loop!"+o.Name)
	}
}

// havocValue returns an arbitrary value shaped like cur.
func (x *Exec) havocValue(cur Value, t types.Type, name string) Value {
	switch cv := cur.(type) {
	case Scalar:
		return Scalar{Fresh(name, cv.T.S)}
	case StructV:
		var st *types.Struct
		if t != nil {
			st, _ = t.Underlying().(*types.Struct)
		}
		f := make([]Value, len(cv.F))
		for i := range f {
			var ft types.Type
			nm := fmt.Sprintf("%s.%d", name, i)
			if st != nil {
				ft = st.Field(i).Type()
				nm = name + "." + st.Field(i).Name()
			}
			f[i] = x.havocValue(cv.F[i], ft, nm)
		}
		return StructV{f}
	case ArrayV:
		var et types.Type
		if t != nil {
			switch u := t.Underlying().(type) {
			case *types.Array:
				et = u.Elem()
			default:
				et = t // backing store: Typ is the element type
			}
		}
		e := make([]Value, len(cv.E))
		for i := range e {
			e[i] = x.havocValue(cv.E[i], et, fmt.Sprintf("%s[%d]", name, i))
		}
		return ArrayV{e}
	case SymArrV:
		return SymArrV{Arr: Fresh(name+"!arr", Arr(cv.W)), Len: cv.Len, W: cv.W}
	case SliceV:
		if t != nil {
			if sl, ok := t.Underlying().(*types.Slice); ok {
				if s, ok := scalarSort(sl.Elem()); ok && s.K == SBV {
					ns := x.freshSymSliceNoInput(name, s.W, sl.Elem())
					ns.Nil = cv.Nil
					if !cv.Nil.IsConst() {
						ns.Nil = Fresh(name+"!nil", BoolSort)
					}
					return ns
				}
			}
			if isString(t) {
				ns := x.freshSymSliceNoInput(name, 8, types.Typ[types.Uint8])
				ns.Str = true
				ns.Cap = ns.Len
				return ns
			}
		}
		// a slice of non-scalars: length, capacity and nil-ness arbitrary, the elements not tracked
		var et types.Type
		if t != nil {
			if sl, ok := t.Underlying().(*types.Slice); ok {
				et = sl.Elem()
			}
		}
		return x.untrackedSeq(name, et)
	case PtrV:
		// a pointer that may have been assigned: nothing is known about where it points
		x.notes["havocked-pointer:"+name] = true
		return UnknownV{t, "pointer assigned in a loop or by a callee (" + name + ")"}
	case IfaceV:
		return IfaceV{Nil: Fresh(name+"!nil", BoolSort), Tag: "opaque"}
	case *ChoiceV:
		// a value merged from two paths is havocked like either of its sides (the result does not depend on them)
		return x.havocValue(cv.A, t, name)
	case ArrayRef:
		o := cv.Obj
		x.st.heap.m[o] = x.havocValue(x.heapGet(o), nil, name)
		return cv
	}
	if _, isU := cur.(UnknownV); !isU && cur != nil {
		x.notes[fmt.Sprintf("havoc-kept:%T:%s", cur, name)] = true
	}
	return cur
}

// untrackedSeq is a slice value whose length is arbitrary and whose elements are not tracked
// (loads give unknown values: any use that matters leaves the subset).
func (x *Exec) untrackedSeq(name string, elem types.Type) SliceV {
	o := x.newObject(elem, name)
	x.st.heap.m[o] = UnknownV{elem, "elements of a sequence that are not tracked (" + name + ")"}
	ln := Fresh(name+"!len", BV(64))
	cp := Fresh(name+"!cap", BV(64))
	nl := Fresh(name+"!nil", BoolSort)
	x.assume(And(BvUle(ln, cp), BvUle(cp, BVU(1<<maxLenBits, 64)), Imp(nl, Eq(cp, bv64(0)))))
	return SliceV{Obj: o, Off: bv64(0), Len: ln, Cap: cp, Nil: nl}
}

func (x *Exec) freshSymSliceNoInput(name string, w int, elem types.Type) SliceV {
	o := x.newObject(elem, name)
	arr := Fresh(name+"!arr", Arr(w))
	ln := Fresh(name+"!len", BV(64))
	x.st.heap.m[o] = SymArrV{Arr: arr, Len: ln, W: w}
	x.assume(BvUle(ln, BVU(1<<maxLenBits, 64)))
	return SliceV{Obj: o, Off: bv64(0), Len: ln, Cap: ln, Nil: False()}
}

// ---------------- contracts at call sites ----------------

func shortFn(fn *ssa.Function) string {
	if recv := fn.Signature.Recv(); recv != nil {
		t := recv.Type()
		star := ""
		if p, ok := t.(*types.Pointer); ok {
			t = p.Elem()
			star = "*"
		}
		if n, ok := t.(*types.Named); ok {
			return fmt.Sprintf("(%s%s).%s", star, n.Obj().Name(), fn.Name())
		}
	}
	return fn.Name()
}

// useContract replaces a call of fn by its contract: requires are proved,
// assigned locations havocked, ensures assumed.
func (x *Exec) useContract(fr *Frame, fn *ssa.Function, sp *FuncSpec, args []Value, pos token.Pos) Value {
	h := x.P.harnessOf[sp.Key()]
	x.usedSpecs[fnName(fn)] = true
	if sp.Trusted {
		x.assumedCtr[fnName(fn)] = true
	}
	memoKey := ""
	if sp.Pure {
		memoKey = x.pureKey(fn, args)
		if m, ok := x.pureMemo[memoKey]; ok {
			return x.cloneResult(m.result, m.snap, map[*Object]*Object{})
		}
	}
	cm := &calleeCtx{fn: fn, caller: x.funcName()}
	x.calleeMode = append(x.calleeMode, cm)
	defer func() { x.calleeMode = x.calleeMode[:len(x.calleeMode)-1] }()
	nA := len(x.assumes)
	pc0 := x.pc()
	x.callFunction(h, args, nil, true)
	if x.st == nil {
		return nil
	}
	if !cm.done {
		unsup("contract harness of %s did not reach its call site", fn)
	}
	x.substituteEnsures(cm, nA, pc0)
	if x.dry == 0 && x.ghost == 0 && !(fr != nil && fr.ghost) && !sp.Pure && len(sp.Ensures) > 0 {
		// vacuity guard: what the callee's contract makes the caller assume must be consistent on this path
		// (a contradictory contract, or a havoc that misses what the callee assigns, would silently prove
		// everything that follows on the path); one guard per caller, callee and call position
		if x.callGuards == nil {
			x.callGuards = map[string]bool{}
		}
		k := x.funcName() + "|" + shortFn(fn) + "|" + x.P.Fset.Position(pos).String()
		if !x.callGuards[k] {
			x.callGuards[k] = true
			x.callGuardSeq++
			fnm := x.funcName()
			if x.behavior != "" && fnm == x.behaviorFn {
				fnm += "@" + x.behavior
			}
			// the same question just before the call: a call site on a path that is infeasible anyway
			// (an iteration of an unrolled loop that cannot happen) is not the callee's fault
			lbl := fmt.Sprintf("%s#%d", shortFn(fn), x.callGuardSeq)
			x.obls = append(x.obls, &Obligation{Name: fnm + "#V:pre:" + lbl, Class: "V", Func: fnm, Label: "pre:" + lbl, NHyp: nA, PC: pc0, Goal: False(), Inputs: x.inputs})
			x.curFunc = append(x.curFunc, x.funcName())
			x.oblige("V", "after:"+lbl, False(), pos)
			x.curFunc = x.curFunc[:len(x.curFunc)-1]
		}
	}
	if memoKey != "" && x.dry == 0 {
		if x.pureMemo == nil {
			x.pureMemo = map[string]*pureEntry{}
		}
		snap := map[*Object]Value{}
		x.snapshotResult(cm.result, snap)
		x.pureMemo[memoKey] = &pureEntry{result: cm.result, snap: snap}
	}
	return cm.result
}

// pureKey identifies a call of a deterministic function: the identity of its
// arguments and the write-version of every object reachable from them.
func (x *Exec) pureKey(fn *ssa.Function, args []Value) string {
	var sb strings.Builder
	sb.WriteString(fnName(fn))
	seen := map[*Object]bool{}
	var objs []*Object
	var walk func(v Value, depth int)
	walk = func(v Value, depth int) {
		if depth > 8 {
			return
		}
		switch vv := v.(type) {
		case Scalar:
			fmt.Fprintf(&sb, "|s%d", vv.T.id)
		case PtrV:
			if vv.Obj == nil {
				sb.WriteString("|nil")
				return
			}
			fmt.Fprintf(&sb, "|p%d", vv.Obj.id)
			for _, pe := range vv.Path {
				if pe.Idx != nil {
					fmt.Fprintf(&sb, "[%d]", pe.Idx.id)
				} else {
					fmt.Fprintf(&sb, ".%d", pe.Field)
				}
			}
			fmt.Fprintf(&sb, "n%d", vv.Nil.id)
			if !seen[vv.Obj] {
				seen[vv.Obj] = true
				objs = append(objs, vv.Obj)
				if hv, ok := x.st.heap.m[vv.Obj]; ok {
					walk(hv, depth+1)
				}
			}
		case SliceV:
			if vv.Obj == nil {
				sb.WriteString("|nilslice")
				return
			}
			fmt.Fprintf(&sb, "|l%d.%d.%d", vv.Obj.id, vv.Off.id, vv.Len.id)
			if !seen[vv.Obj] {
				seen[vv.Obj] = true
				objs = append(objs, vv.Obj)
				if hv, ok := x.st.heap.m[vv.Obj]; ok {
					if _, isSym := hv.(SymArrV); !isSym {
						walk(hv, depth+1)
					} else {
						fmt.Fprintf(&sb, "a%d", hv.(SymArrV).Arr.id)
					}
				}
			}
		case StructV:
			for _, f := range vv.F {
				walk(f, depth+1)
			}
		case ArrayV:
			for _, e := range vv.E {
				walk(e, depth+1)
			}
		case ArrayRef:
			walk(x.heapGet(vv.Obj), depth+1)
		case IfaceV:
			fmt.Fprintf(&sb, "|i%d", vv.Nil.id)
			if vv.V != nil {
				walk(vv.V, depth+1)
			}
		case *ChoiceV:
			fmt.Fprintf(&sb, "|c%d", vv.C.id)
			walk(vv.A, depth+1)
			walk(vv.B, depth+1)
		case UnknownV:
			sb.WriteString("|u")
		}
	}
	for _, a := range args {
		walk(a, 0)
	}
	return sb.String()
}

// substituteEnsures turns assumed clauses of the form fresh == term (the
// usual shape of a functional postcondition) into substitutions, so that a
// caller verified against a contract sees the specified result directly.
func (x *Exec) substituteEnsures(cm *calleeCtx, nA int, pc0 *Term) {
	if len(cm.fresh) == 0 || x.dry > 0 {
		return
	}
	sub := map[int]*Term{}
	var eqs []*Term
	for _, a := range x.assumes[nA:] {
		body := a
		if a.Op == OImp {
			if a.Args[0] != pc0 {
				continue
			}
			body = a.Args[1]
		} else if !pc0.IsTrue() {
			continue
		}
		eqs = append(eqs, conj(body)...)
	}
	for _, e := range eqs {
		if e.Op == OForall && len(e.Args) == 2 {
			// forall k. k < n  =>  F[k] = G[k]   with F a fresh array: the result's octets are G's
			// (what lies beyond the length of a fresh result is never observed)
			k, body := e.Args[0], e.Args[1]
			if body.Op == OImp && body.Args[1].Op == OEq {
				l, r := body.Args[1].Args[0], body.Args[1].Args[1]
				for rep := 0; rep < 2; rep++ {
					if l.Op == OSelect && r.Op == OSelect && l.Args[1] == k && r.Args[1] == k &&
						l.Args[0].Op == OVar && cm.fresh[l.Args[0].id] && !containsVar(r.Args[0], l.Args[0].id) && !r.Args[0].hasBound {
						if _, dup := sub[l.Args[0].id]; !dup {
							sub[l.Args[0].id] = Subst(r.Args[0], sub)
						}
						break
					}
					l, r = r, l
				}
			}
			continue
		}
		if e.Op != OEq {
			continue
		}
		l, r := e.Args[0], e.Args[1]
		if !(l.Op == OVar && cm.fresh[l.id]) {
			l, r = r, l
		}
		if !(l.Op == OVar && cm.fresh[l.id]) {
			continue
		}
		if _, dup := sub[l.id]; dup {
			continue
		}
		r = Subst(r, sub)
		if containsVar(r, l.id) {
			continue
		}
		// keep earlier substitutions closed under the new one
		one := map[int]*Term{l.id: r}
		for k, v := range sub {
			sub[k] = Subst(v, one)
		}
		sub[l.id] = r
	}
	if len(sub) == 0 {
		return
	}
	cm.result = x.substValue(cm.result, sub)
	for o := range cm.havocked {
		if v, ok := x.st.heap.m[o]; ok {
			x.st.heap.m[o] = x.substValue(v, sub)
		}
	}
	out := x.assumes[:nA]
	for _, a := range x.assumes[nA:] {
		na := Subst(a, sub)
		if !na.IsTrue() {
			out = append(out, na)
		}
	}
	x.assumes = out
}

func containsVar(t *Term, id int) bool {
	seen := map[int]bool{}
	var rec func(t *Term) bool
	rec = func(t *Term) bool {
		if t.id == id {
			return true
		}
		if seen[t.id] || len(t.Args) == 0 {
			return false
		}
		seen[t.id] = true
		for _, a := range t.Args {
			if rec(a) {
				return true
			}
		}
		return false
	}
	return rec(t)
}

func (x *Exec) substValue(v Value, sub map[int]*Term) Value {
	switch vv := v.(type) {
	case Scalar:
		return Scalar{Subst(vv.T, sub)}
	case StructV:
		f := make([]Value, len(vv.F))
		for i := range f {
			f[i] = x.substValue(vv.F[i], sub)
		}
		return StructV{f}
	case ArrayV:
		e := make([]Value, len(vv.E))
		for i := range e {
			e[i] = x.substValue(vv.E[i], sub)
		}
		return ArrayV{e}
	case SymArrV:
		return SymArrV{Arr: Subst(vv.Arr, sub), Len: Subst(vv.Len, sub), W: vv.W}
	case SliceV:
		vv.Off, vv.Len, vv.Cap, vv.Nil = Subst(vv.Off, sub), Subst(vv.Len, sub), Subst(vv.Cap, sub), Subst(vv.Nil, sub)
		if vv.Obj != nil {
			if ov, ok := x.st.heap.m[vv.Obj]; ok && vv.Obj.Birth >= 0 {
				if !x.substSeen[vv.Obj] {
					x.substSeen[vv.Obj] = true
					x.st.heap.m[vv.Obj] = x.substValue(ov, sub)
					delete(x.substSeen, vv.Obj)
				}
			}
		}
		return vv
	case PtrV:
		vv.Nil = Subst(vv.Nil, sub)
		if vv.Obj != nil && len(vv.Path) == 0 {
			if ov, ok := x.st.heap.m[vv.Obj]; ok && vv.Obj.Birth >= 0 && vv.Obj.Global == nil {
				if !x.substSeen[vv.Obj] {
					x.substSeen[vv.Obj] = true
					x.st.heap.m[vv.Obj] = x.substValue(ov, sub)
					delete(x.substSeen, vv.Obj)
				}
			}
		}
		return vv
	case IfaceV:
		vv.Nil = Subst(vv.Nil, sub)
		if vv.V != nil {
			vv.V = x.substValue(vv.V, sub)
		}
		return vv
	case TupleV:
		e := make([]Value, len(vv.E))
		for i := range e {
			e[i] = x.substValue(vv.E[i], sub)
		}
		return TupleV{e}
	case *ChoiceV:
		return &ChoiceV{C: Subst(vv.C, sub), A: x.substValue(vv.A, sub), B: x.substValue(vv.B, sub)}
	}
	return v
}

func (x *Exec) havocCall(fr *Frame, cm *calleeCtx, fn *ssa.Function, args []Value) Value {
	c0 := freshCtr
	log := map[*Object]bool{}
	x.writeLog = append(x.writeLog, log)
	defer func() {
		x.writeLog = x.writeLog[:len(x.writeLog)-1]
		cm.havocked = log
		cm.fresh = map[int]bool{}
		for i := c0 + 1; i <= freshCtr; i++ {
			if t := freshVars[i]; t != nil {
				cm.fresh[t.id] = true
			}
		}
	}()
	for _, a := range cm.assigns {
		x.havocLocation(a, "h!"+fn.Name())
	}
	res := fn.Signature.Results()
	var vals []Value
	for i := 0; i < res.Len(); i++ {
		nm := res.At(i).Name()
		if nm == "" {
			nm = fmt.Sprintf("r%d", i)
		}
		vals = append(vals, x.freshResult(fmt.Sprintf("%s!%s", fn.Name(), nm), res.At(i).Type()))
	}
	var r Value
	switch len(vals) {
	case 0:
		r = nil
	case 1:
		r = vals[0]
	default:
		r = TupleV{E: vals}
	}
	cm.result = r
	return r
}

// freshResult: an arbitrary result value (not recorded as a harness input).
func (x *Exec) freshResult(name string, t types.Type) Value {
	n := len(x.inputs)
	var v Value
	if _, isPtr := t.Underlying().(*types.Pointer); isPtr && x.driver {
		// driver level: the structure a callee returns (a decoded PDU) is looked at lazily
		saved := x.lazy
		x.lazy = true
		v = x.freshValue(name, t, 1)
		x.lazy = saved
	} else {
		v = x.freshValue(name, t, 4)
	}
	x.inputs = x.inputs[:n]
	if iv, ok := v.(IfaceV); ok && types.Identical(t, errorType) {
		iv.Tag = "opaque"
		return iv
	}
	if sv, ok := v.(SliceV); ok && !sv.Str {
		// a returned slice may be nil
		sv.Nil = Fresh(name+"!nil", BoolSort)
		x.assume(Imp(sv.Nil, Eq(sv.Len, bv64(0))))
		return sv
	}
	if pv, ok := v.(PtrV); ok {
		pv.Nil = Fresh(name+"!nil", BoolSort)
		return pv
	}
	return v
}

func (x *Exec) havocLocation(loc Value, name string) {
	switch l := loc.(type) {
	case PtrV:
		if l.Obj == nil {
			return
		}
		cur := x.load(l)
		t := typeAtPath(l.Obj.Typ, l.Path)
		if t == nil {
			if _, isSlice := cur.(SliceV); isSlice {
				unsup("assigns of a slice-typed location whose type is unknown")
			}
		}
		x.store(l, x.havocValue(cur, t, name), True())
	case SliceV:
		if l.Obj == nil {
			return
		}
		x.noteWrite(l.Obj)
		switch bv := x.heapGet(l.Obj).(type) {
		case ArrayV:
			n, ok := concreteLen(l)
			if !ok || !l.Off.IsConst() {
				x.st.heap.m[l.Obj] = x.havocValue(bv, l.Obj.Typ, name)
				return
			}
			off := int(l.Off.Val.Int64())
			e := make([]Value, len(bv.E))
			copy(e, bv.E)
			for i := off; i < off+n && i < len(e); i++ {
				e[i] = x.havocValue(e[i], l.Obj.Typ, fmt.Sprintf("%s[%d]", name, i))
			}
			x.st.heap.m[l.Obj] = ArrayV{e}
		case SymArrV:
			fresh := Fresh(name+"!arr", Arr(bv.W))
			k := FreshBound("k", BV(64))
			outside := Or(BvUlt(k, l.Off), BvUle(BvAdd(l.Off, l.Len), k))
			arr := DefArr(bv.W, k, Ite(outside, Select(bv.Arr, k), Select(fresh, k)))
			x.st.heap.m[l.Obj] = SymArrV{Arr: arr, Len: bv.Len, W: bv.W}
		}
	case *ChoiceV:
		unsup("assigns through a choice pointer")
	default:
		unsup("assigns of %T", loc)
	}
}

// proveCall executes the body of the function under contract and checks its frame.
func (x *Exec) proveCall(fr *Frame, cm *calleeCtx, fn *ssa.Function, args []Value, pos token.Pos) Value {
	if len(x.calleeMode) == 1 {
		x.reqHyp = len(x.assumes)
	}
	cm.epoch = x.epoch
	x.epoch++
	cm.pre = x.st.heap.clone()
	log := map[*Object]bool{}
	x.writeLog = append(x.writeLog, log)
	x.inlined[fnName(fn)] = false
	if len(x.calleeMode) == 1 {
		x.selectFn = fn
	}
	r := x.callFunction(fn, args, nil, false)
	x.writeLog = x.writeLog[:len(x.writeLog)-1]
	if x.st == nil {
		return nil
	}
	cm.result = r
	// frame: every pre-existing object that was written must be covered by assigns
	x.curFunc = append(x.curFunc, fnName(fn))
	defer func() { x.curFunc = x.curFunc[:len(x.curFunc)-1] }()
	var objs []*Object
	for o := range log {
		objs = append(objs, o)
	}
	sort.Slice(objs, func(i, j int) bool { return objs[i].id < objs[j].id })
	for _, o := range objs {
		if o.Birth > cm.epoch-1 && o.Global == nil {
			continue
		}
		before, ok := cm.pre.m[o]
		if !ok {
			if o.Global == nil {
				continue
			}
			// global first touched inside the call: its initial value
			before, ok = x.globalInitVal[o]
			if !ok {
				continue
			}
		}
		after := x.heapGet(o)
		same := x.frameEqual(o, nil, before, after, cm.assigns)
		x.oblige("A", "frame:"+o.Name, same, pos)
	}
	return r
}

// frameEqual: all leaves of the object outside the assigned locations are unchanged.
func (x *Exec) frameEqual(o *Object, path []PathElem, before, after Value, assigns []Value) *Term {
	// fully assigned?
	for _, a := range assigns {
		switch av := a.(type) {
		case PtrV:
			if av.Obj == o && isPrefix(av.Path, path) {
				return True()
			}
		}
	}
	switch bv := before.(type) {
	case Scalar:
		av, ok := after.(Scalar)
		if !ok {
			return False()
		}
		return Eq(bv.T, av.T)
	case StructV:
		av, ok := after.(StructV)
		if !ok {
			return False()
		}
		var cs []*Term
		for i := range bv.F {
			cs = append(cs, x.frameEqual(o, append(append([]PathElem{}, path...), PathElem{Field: i}), bv.F[i], av.F[i], assigns))
		}
		return And(cs...)
	case ArrayV:
		av, ok := after.(ArrayV)
		if !ok || len(av.E) != len(bv.E) {
			return False()
		}
		var cs []*Term
		for i := range bv.E {
			if sameValue(bv.E[i], av.E[i]) {
				continue
			}
			idx := bv64(int64(i))
			covered := False()
			for _, a := range assigns {
				if sv, ok := a.(SliceV); ok && sv.Obj == o && len(path) == 0 {
					covered = Or(covered, And(BvUle(sv.Off, idx), BvUlt(idx, BvAdd(sv.Off, sv.Len))))
				}
			}
			cs = append(cs, Or(covered, x.frameEqual(o, append(append([]PathElem{}, path...), PathElem{Field: -1, Idx: idx}), bv.E[i], av.E[i], assigns)))
		}
		return And(cs...)
	case SymArrV:
		av, ok := after.(SymArrV)
		if !ok {
			return False()
		}
		if av.Arr == bv.Arr {
			return True()
		}
		k := FreshBound("k", BV(64))
		covered := False()
		for _, a := range assigns {
			if sv, ok := a.(SliceV); ok && sv.Obj == o {
				covered = Or(covered, And(BvUle(sv.Off, k), BvUlt(k, BvAdd(sv.Off, sv.Len))))
			}
		}
		return Forall([]*Term{k}, Or(covered, Eq(Select(av.Arr, k), Select(bv.Arr, k))))
	case PtrV, SliceV, IfaceV:
		if sameValue(before, after) {
			return True()
		}
		return False()
	case ArrayRef:
		return True()
	}
	if sameValue(before, after) {
		return True()
	}
	return False()
}

func isPrefix(p, q []PathElem) bool {
	if len(p) > len(q) {
		return false
	}
	for i := range p {
		if p[i].Field != q[i].Field || p[i].Idx != q[i].Idx {
			return false
		}
	}
	return true
}

type pureEntry struct {
	result Value
	snap   map[*Object]Value
}

// snapshotResult records the contents of the (fresh) objects a result points to.
func (x *Exec) snapshotResult(v Value, snap map[*Object]Value) {
	switch vv := v.(type) {
	case SliceV:
		if vv.Obj != nil && vv.Obj.Global == nil && vv.Obj.Birth >= 0 {
			if _, ok := snap[vv.Obj]; !ok {
				if hv, ok := x.st.heap.m[vv.Obj]; ok {
					snap[vv.Obj] = hv
					x.snapshotResult(hv, snap)
				}
			}
		}
	case PtrV:
		if vv.Obj != nil && vv.Obj.Global == nil && vv.Obj.Birth >= 0 {
			if _, ok := snap[vv.Obj]; !ok {
				if hv, ok := x.st.heap.m[vv.Obj]; ok {
					snap[vv.Obj] = hv
					x.snapshotResult(hv, snap)
				}
			}
		}
	case StructV:
		for _, f := range vv.F {
			x.snapshotResult(f, snap)
		}
	case ArrayV:
		for _, e := range vv.E {
			x.snapshotResult(e, snap)
		}
	case TupleV:
		for _, e := range vv.E {
			x.snapshotResult(e, snap)
		}
	case IfaceV:
		if vv.V != nil {
			x.snapshotResult(vv.V, snap)
		}
	}
}

// cloneResult re-creates a memoised result over fresh objects with the recorded contents.
func (x *Exec) cloneResult(v Value, snap map[*Object]Value, done map[*Object]*Object) Value {
	cloneObj := func(o *Object) *Object {
		if o == nil {
			return nil
		}
		hv, ok := snap[o]
		if !ok {
			return o
		}
		if n, ok := done[o]; ok {
			return n
		}
		n := x.newObject(o.Typ, o.Name)
		done[o] = n
		x.st.heap.m[n] = x.cloneResult(hv, snap, done)
		return n
	}
	switch vv := v.(type) {
	case SliceV:
		vv.Obj = cloneObj(vv.Obj)
		return vv
	case PtrV:
		vv.Obj = cloneObj(vv.Obj)
		return vv
	case StructV:
		f := make([]Value, len(vv.F))
		for i := range f {
			f[i] = x.cloneResult(vv.F[i], snap, done)
		}
		return StructV{f}
	case ArrayV:
		e := make([]Value, len(vv.E))
		for i := range e {
			e[i] = x.cloneResult(vv.E[i], snap, done)
		}
		return ArrayV{e}
	case TupleV:
		e := make([]Value, len(vv.E))
		for i := range e {
			e[i] = x.cloneResult(vv.E[i], snap, done)
		}
		return TupleV{e}
	case IfaceV:
		if vv.V != nil {
			vv.V = x.cloneResult(vv.V, snap, done)
		}
		return vv
	}
	return v
}

// typeAtPath follows a pointer path (struct fields, array elements) from the type of an object.
func typeAtPath(t types.Type, path []PathElem) types.Type {
	for _, pe := range path {
		if t == nil {
			return nil
		}
		switch u := t.Underlying().(type) {
		case *types.Struct:
			if pe.Idx != nil || pe.Field < 0 || pe.Field >= u.NumFields() {
				return nil
			}
			t = u.Field(pe.Field).Type()
		case *types.Array:
			if pe.Idx == nil {
				return nil
			}
			t = u.Elem()
		default:
			return nil
		}
	}
	return t
}
