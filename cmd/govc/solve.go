package main

import (
	"bytes"
	"context"
	"fmt"
	"math/big"
	"os"
	"os/exec"
	"path/filepath"
	"strings"
	"sync"
	"time"
)

type SolveResult struct {
	Verdict string // unsat | sat | unknown | timeout | error
	Solver  string
	Secs    float64
	Output  string
	Model   map[string]*big.Int // get-value results keyed by printed term
	Raw     []string            // raw get-value pairs
}

type solverSpec struct {
	name string
	args func(file string, timeoutS int) []string
}

var solvers = []solverSpec{
	{"z3-new", func(f string, t int) []string { return []string{"z3-new", fmt.Sprintf("-T:%d", t), f} }},
	{"z3", func(f string, t int) []string { return []string{"z3", fmt.Sprintf("-T:%d", t), f} }},
	{"z3-new-euf", func(f string, t int) []string {
		return []string{"z3-new", "sat.euf=true", "tactic.default_tactic=smt", fmt.Sprintf("-T:%d", t), f}
	}},
	{"cvc5", func(f string, t int) []string {
		return []string{"cvc5", fmt.Sprintf("--tlimit=%d", t*1000), "--produce-models", f}
	}},
}

var solveSem = make(chan struct{}, 16)

// Solve races the installed solvers on script; the first definite verdict wins.
func Solve(script string, dir, tag string, timeoutS int) SolveResult {
	return Solve2(script, "", dir, tag, timeoutS)
}

// Solve2 additionally races a weaker variant of the script (recursive functions unfolded a fixed
// number of times): only its "unsat" counts.
func Solve2(script, weak string, dir, tag string, timeoutS int) SolveResult {
	file := filepath.Join(dir, tag+".smt2")
	if err := os.WriteFile(file, []byte(script), 0o644); err != nil {
		return SolveResult{Verdict: "error", Output: err.Error()}
	}
	weakFile := ""
	if weak != "" && weak != script {
		weakFile = filepath.Join(dir, tag+".weak.smt2")
		if err := os.WriteFile(weakFile, []byte(weak), 0o644); err != nil {
			weakFile = ""
		}
	}
	// cvc5 wants produce-models before set-logic: it is first in our script already.
	ctx, cancel := context.WithCancel(context.Background())
	defer cancel()
	type res struct {
		r SolveResult
	}
	type job struct {
		sp   solverSpec
		file string
		weak bool
	}
	var jobs []job
	for _, sp := range solvers {
		jobs = append(jobs, job{sp, file, false})
	}
	if weakFile != "" {
		for _, sp := range solvers {
			jobs = append(jobs, job{sp, weakFile, true})
		}
	}
	ch := make(chan SolveResult, len(jobs))
	var wg sync.WaitGroup
	for _, jb := range jobs {
		sp := jb.sp
		jb := jb
		scr := script
		if jb.weak {
			scr = weak
		}
		if sp.name == "cvc5" && strings.Contains(scr, "(lambda") {
			ch <- SolveResult{Verdict: "unknown", Solver: sp.name}
			continue
		}
		wg.Add(1)
		go func() {
			defer wg.Done()
			solveSem <- struct{}{}
			defer func() { <-solveSem }()
			if ctx.Err() != nil {
				ch <- SolveResult{Verdict: "unknown", Solver: sp.name, Output: "cancelled"}
				return
			}
			a := sp.args(jb.file, timeoutS)
			c, cc := context.WithTimeout(ctx, time.Duration(timeoutS+2)*time.Second)
			defer cc()
			cmd := exec.CommandContext(c, a[0], a[1:]...)
			var out bytes.Buffer
			cmd.Stdout = &out
			cmd.Stderr = &out
			t0 := time.Now()
			_ = cmd.Run()
			secs := time.Since(t0).Seconds()
			o := out.String()
			r := SolveResult{Solver: sp.name, Secs: secs, Output: o}
			if jb.weak {
				r.Solver += "/unfolded"
			}
			first := strings.TrimSpace(strings.SplitN(o, "\n", 2)[0])
			switch {
			case strings.Contains(o, "(error") && first != "unsat" && first != "sat":
				r.Verdict = "error"
			case first == "unsat":
				// an (error ...) after unsat is the failed get-value: fine.
				r.Verdict = "unsat"
			case first == "sat":
				if strings.Contains(o, "(error") {
					r.Verdict = "error"
				} else {
					r.Verdict = "sat"
					r.Raw = parseGetValue(o)
				}
			case first == "timeout" || c.Err() != nil:
				r.Verdict = "timeout"
			default:
				r.Verdict = "unknown"
				if first == "unknown" && !strings.Contains(o, "(error") {
					r.Raw = parseGetValue(o) // candidate model (not authoritative)
				}
			}
			// errors before check-sat void the verdict
			if idx := strings.Index(o, "(error"); idx >= 0 {
				vi := strings.Index(o, first)
				if idx < vi {
					r.Verdict = "error"
				}
			}
			if jb.weak && r.Verdict == "sat" {
				// a model of the weaker script decides nothing
				r.Verdict = "unknown"
				r.Raw = nil
			}
			ch <- r
		}()
	}
	var best SolveResult
	best.Verdict = "unknown"
	got := 0
	var outs []string
	for got < len(jobs) {
		r := <-ch
		got++
		outs = append(outs, fmt.Sprintf("[%s %s %.2fs] %s", r.Solver, r.Verdict, r.Secs, trunc(r.Output, 300)))
		if r.Verdict == "unsat" || r.Verdict == "sat" {
			cancel()
			best = r
			break
		}
		if best.Verdict == "unknown" && len(best.Raw) == 0 && (r.Verdict == "timeout" || r.Verdict == "error" || len(r.Raw) > 0) {
			best = r
		}
	}
	if best.Verdict != "unsat" && best.Verdict != "sat" {
		best.Output = strings.Join(outs, "\n")
	}
	go func() { wg.Wait() }()
	return best
}

func trunc(s string, n int) string {
	if len(s) > n {
		return s[:n] + "..."
	}
	return s
}

// parseGetValue returns the value literals of a (get-value ...) reply in order.
func parseGetValue(out string) []string {
	i := strings.Index(out, "((")
	if i < 0 {
		return nil
	}
	s := out[i:]
	// tokenise top-level pairs: ((term value) (term value) ...)
	var vals []string
	depth := 0
	start := -1
	for j := 0; j < len(s); j++ {
		switch s[j] {
		case '|':
			k := strings.IndexByte(s[j+1:], '|')
			if k < 0 {
				return vals
			}
			j += k + 1
		case '(':
			depth++
			if depth == 2 {
				start = j
			}
		case ')':
			if depth == 2 && start >= 0 {
				vals = append(vals, lastSexp(s[start+1:j]))
				start = -1
			}
			depth--
			if depth == 0 {
				return vals
			}
		}
	}
	return vals
}

// lastSexp returns the last s-expression (the value) of "term value".
func lastSexp(p string) string {
	p = strings.TrimSpace(p)
	if strings.HasSuffix(p, ")") {
		depth := 0
		for j := len(p) - 1; j >= 0; j-- {
			if p[j] == ')' {
				depth++
			} else if p[j] == '(' {
				depth--
				if depth == 0 {
					return p[j:]
				}
			}
		}
		return p
	}
	k := strings.LastIndexAny(p, " \t\n")
	return p[k+1:]
}

func parseBVLit(s string) (*big.Int, bool) {
	s = strings.TrimSpace(s)
	switch {
	case strings.HasPrefix(s, "#x"):
		v, ok := new(big.Int).SetString(s[2:], 16)
		return v, ok
	case strings.HasPrefix(s, "#b"):
		v, ok := new(big.Int).SetString(s[2:], 2)
		return v, ok
	case s == "true":
		return big.NewInt(1), true
	case s == "false":
		return big.NewInt(0), true
	case strings.HasPrefix(s, "(_ bv"):
		f := strings.Fields(strings.Trim(s, "()"))
		if len(f) >= 2 {
			v, ok := new(big.Int).SetString(strings.TrimPrefix(f[1], "bv"), 10)
			return v, ok
		}
	}
	return nil, false
}
