package main

// Hash-consed SMT term DAG with a constant-folding simplifier.
// Sorts: Bool, BitVec(w), Array(BitVec 64 -> BitVec w).

import (
	"sync"
	"os"
	"fmt"
	"math/big"
	"sort"
	"strconv"
	"strings"
)

type SortKind int

const (
	SBool SortKind = iota
	SBV
	SArr
)

type Sort struct {
	K SortKind
	W int // BV width, or element width for arrays
}

var BoolSort = Sort{SBool, 0}

func BV(w int) Sort  { return Sort{SBV, w} }
func Arr(w int) Sort { return Sort{SArr, w} }

func (s Sort) String() string {
	switch s.K {
	case SBool:
		return "Bool"
	case SBV:
		return fmt.Sprintf("(_ BitVec %d)", s.W)
	default:
		return fmt.Sprintf("(Array (_ BitVec 64) (_ BitVec %d))", s.W)
	}
}

type Op int

const (
	OConst Op = iota // BV or Bool constant
	OVar             // free variable
	OBound           // bound variable (quantifier)
	ONot
	OAnd
	OOr
	OImp
	OIte
	OEq
	OBvAdd
	OBvSub
	OBvMul
	OBvUDiv
	OBvURem
	OBvSDiv
	OBvSRem
	OBvAnd
	OBvOr
	OBvXor
	OBvNot
	OBvNeg
	OBvShl
	OBvLshr
	OBvAshr
	OBvUlt
	OBvUle
	OBvSlt
	OBvSle
	OConcat
	OExtract // hi, lo in n1,n2
	OZext    // to width in sort
	OSext
	OSelect
	OStore
	OConstArr // constant array of arg0
	OApp      // uninterpreted / defined function application: name
	OForall   // args: bound..., body (last)
	OExists
)

var opNames = map[Op]string{
	ONot: "not", OAnd: "and", OOr: "or", OImp: "=>", OIte: "ite", OEq: "=",
	OBvAdd: "bvadd", OBvSub: "bvsub", OBvMul: "bvmul", OBvUDiv: "bvudiv", OBvURem: "bvurem",
	OBvSDiv: "bvsdiv", OBvSRem: "bvsrem",
	OBvAnd: "bvand", OBvOr: "bvor", OBvXor: "bvxor", OBvNot: "bvnot", OBvNeg: "bvneg",
	OBvShl: "bvshl", OBvLshr: "bvlshr", OBvAshr: "bvashr", OBvUlt: "bvult", OBvUle: "bvule",
	OBvSlt: "bvslt", OBvSle: "bvsle", OConcat: "concat", OSelect: "select", OStore: "store",
}

type Term struct {
	Op       Op
	S        Sort
	Args     []*Term
	Val      *big.Int // OConst
	Name     string   // OVar, OBound, OApp
	N1, N2   int      // extract hi/lo
	id       int
	hasBound bool
	size     int
}

type TermBank struct {
	tab   map[string]*Term
	next  int
	funcs map[string]*FuncDecl // declared / defined functions
	forder []string
	kbuf  []byte
	varAxioms map[string]*Term // defining axioms of canonical array constants
	defArrs   map[int]*Term
	defBodies map[string]defBody
}

type FuncDecl struct {
	Name   string
	Params []Sort
	PNames []string
	Ret    Sort
	Body   *Term // nil => uninterpreted
	Lazy   func(fd *FuncDecl) // builds Body on first need
	ArrSlots [][2]int // (array, length) parameter positions: the function depends on arr[0..len) only
	Rec    bool
	Axioms []*Term // assumed facts about this function (added to every query that mentions it)
	Inst   func(args []*Term) *Term // assumed fact instantiated for every ground application
	Deps   []string
}

var TB = &TermBank{tab: map[string]*Term{}, funcs: map[string]*FuncDecl{}, varAxioms: map[string]*Term{}, defArrs: map[int]*Term{}, defBodies: map[string]defBody{}}

func (b *TermBank) mk(t *Term) *Term {
	buf := b.kbuf[:0]
	buf = strconv.AppendInt(buf, int64(t.Op), 10)
	buf = append(buf, '|')
	buf = strconv.AppendInt(buf, int64(t.S.K), 10)
	buf = append(buf, '.')
	buf = strconv.AppendInt(buf, int64(t.S.W), 10)
	buf = append(buf, '|')
	for _, a := range t.Args {
		buf = strconv.AppendInt(buf, int64(a.id), 10)
		buf = append(buf, ',')
	}
	if t.Val != nil {
		if t.Val.IsUint64() {
			buf = strconv.AppendUint(buf, t.Val.Uint64(), 16)
		} else {
			buf = t.Val.Append(buf, 16)
		}
	}
	buf = append(buf, '|')
	buf = append(buf, t.Name...)
	if t.Op == OExtract {
		buf = append(buf, '|')
		buf = strconv.AppendInt(buf, int64(t.N1), 10)
		buf = append(buf, '.')
		buf = strconv.AppendInt(buf, int64(t.N2), 10)
	}
	b.kbuf = buf
	if x, ok := b.tab[string(buf)]; ok {
		return x
	}
	k := string(buf)
	b.next++
	t.id = b.next
	t.size = 1
	for _, a := range t.Args {
		if a.hasBound {
			t.hasBound = true
		}
		t.size += a.size
		if t.size > 1<<30 {
			t.size = 1 << 30
		}
	}
	if t.Op == OBound {
		t.hasBound = true
	}
	b.tab[k] = t
	return t
}

func mask(w int) *big.Int {
	m := new(big.Int).Lsh(big.NewInt(1), uint(w))
	return m.Sub(m, big.NewInt(1))
}

func norm(v *big.Int, w int) *big.Int {
	r := new(big.Int).And(v, mask(w))
	return r
}

func toSigned(v *big.Int, w int) *big.Int {
	if v.Bit(w-1) == 1 {
		return new(big.Int).Sub(v, new(big.Int).Lsh(big.NewInt(1), uint(w)))
	}
	return new(big.Int).Set(v)
}

// ---- constructors ----

func True() *Term  { return TB.mk(&Term{Op: OConst, S: BoolSort, Val: big.NewInt(1)}) }
func False() *Term { return TB.mk(&Term{Op: OConst, S: BoolSort, Val: big.NewInt(0)}) }
func BoolC(b bool) *Term {
	if b {
		return True()
	}
	return False()
}
func BVC(v *big.Int, w int) *Term {
	return TB.mk(&Term{Op: OConst, S: BV(w), Val: norm(v, w)})
}
func BVU(v uint64, w int) *Term { return BVC(new(big.Int).SetUint64(v), w) }
func BVI(v int64, w int) *Term  { return BVC(big.NewInt(v), w) }

func Var(name string, s Sort) *Term { return TB.mk(&Term{Op: OVar, S: s, Name: name}) }
func Bound(name string, s Sort) *Term {
	return TB.mk(&Term{Op: OBound, S: s, Name: name})
}

func (t *Term) IsConst() bool { return t.Op == OConst }
func (t *Term) IsTrue() bool  { return t.Op == OConst && t.S.K == SBool && t.Val.Sign() != 0 }
func (t *Term) IsFalse() bool { return t.Op == OConst && t.S.K == SBool && t.Val.Sign() == 0 }
func (t *Term) U64() uint64   { return t.Val.Uint64() }

func Not(a *Term) *Term {
	if a.IsConst() {
		return BoolC(a.Val.Sign() == 0)
	}
	if a.Op == ONot {
		return a.Args[0]
	}
	return TB.mk(&Term{Op: ONot, S: BoolSort, Args: []*Term{a}})
}

func And(xs ...*Term) *Term {
	var out []*Term
	seen := map[int]bool{}
	for _, x := range xs {
		if x.IsFalse() {
			return False()
		}
		if x.IsTrue() {
			continue
		}
		if x.Op == OAnd {
			for _, y := range x.Args {
				if !seen[y.id] {
					seen[y.id] = true
					out = append(out, y)
				}
			}
			continue
		}
		if !seen[x.id] {
			seen[x.id] = true
			out = append(out, x)
		}
	}
	for _, x := range out {
		if x.Op == ONot && seen[x.Args[0].id] {
			return False()
		}
	}
	if len(out) == 0 {
		return True()
	}
	if len(out) == 1 {
		return out[0]
	}
	return TB.mk(&Term{Op: OAnd, S: BoolSort, Args: out})
}

func Or(xs ...*Term) *Term {
	var out []*Term
	seen := map[int]bool{}
	for _, x := range xs {
		if x.IsTrue() {
			return True()
		}
		if x.IsFalse() {
			continue
		}
		if x.Op == OOr {
			for _, y := range x.Args {
				if !seen[y.id] {
					seen[y.id] = true
					out = append(out, y)
				}
			}
			continue
		}
		if !seen[x.id] {
			seen[x.id] = true
			out = append(out, x)
		}
	}
	for _, x := range out {
		if x.Op == ONot && seen[x.Args[0].id] {
			return True()
		}
	}
	if len(out) == 0 {
		return False()
	}
	if len(out) == 1 {
		return out[0]
	}
	return TB.mk(&Term{Op: OOr, S: BoolSort, Args: out})
}

func Imp(a, b *Term) *Term {
	if a.IsTrue() {
		return b
	}
	if a.IsFalse() || b.IsTrue() {
		return True()
	}
	if b.IsFalse() {
		return Not(a)
	}
	if a == b {
		return True()
	}
	return TB.mk(&Term{Op: OImp, S: BoolSort, Args: []*Term{a, b}})
}

func Ite(c, a, b *Term) *Term {
	if c.IsTrue() {
		return a
	}
	if c.IsFalse() {
		return b
	}
	if a == b {
		return a
	}
	if a.S.K == SBool {
		if a.IsTrue() && b.IsFalse() {
			return c
		}
		if a.IsFalse() && b.IsTrue() {
			return Not(c)
		}
		if a.IsTrue() {
			return Or(c, b)
		}
		if a.IsFalse() {
			return And(Not(c), b)
		}
		if b.IsTrue() {
			return Or(Not(c), a)
		}
		if b.IsFalse() {
			return And(c, a)
		}
	}
	if c.Op == ONot {
		return Ite(c.Args[0], b, a)
	}
	// ite(c, ite(c, x, y), z) = ite(c, x, z)
	if a.Op == OIte && a.Args[0] == c {
		return Ite(c, a.Args[1], b)
	}
	if b.Op == OIte && b.Args[0] == c {
		return Ite(c, a, b.Args[2])
	}
	return TB.mk(&Term{Op: OIte, S: a.S, Args: []*Term{c, a, b}})
}

func Eq(a, b *Term) *Term {
	if a.S != b.S {
		panic(fmt.Sprintf("Eq sort mismatch %v %v: %s vs %s", a.S, b.S, a.Short(), b.Short()))
	}
	if a == b {
		return True()
	}
	if a.IsConst() && b.IsConst() {
		return BoolC(a.Val.Cmp(b.Val) == 0)
	}
	if a.S.K == SBool {
		if a.IsTrue() {
			return b
		}
		if b.IsTrue() {
			return a
		}
		if a.IsFalse() {
			return Not(b)
		}
		if b.IsFalse() {
			return Not(a)
		}
	}
	if a.IsConst() {
		a, b = b, a
	}
	// ite(c, k1, k2) == k  with constants
	if b.IsConst() && a.Op == OIte && a.Args[1].IsConst() && a.Args[2].IsConst() {
		return Ite(a.Args[0], Eq(a.Args[1], b), Eq(a.Args[2], b))
	}
	if b.IsConst() && a.S.K == SBV && a.S.W <= 64 && b.Val.IsUint64() {
		z, o := knownBits(a)
		v := b.Val.Uint64()
		if v&z != 0 || ^v&o != 0 {
			return False()
		}
	}
	// zext(x) == const
	if b.IsConst() && a.Op == OZext {
		iw := a.Args[0].S.W
		if b.Val.BitLen() > iw {
			return False()
		}
		return Eq(a.Args[0], BVC(b.Val, iw))
	}
	if a.id > b.id {
		a, b = b, a
	}
	return TB.mk(&Term{Op: OEq, S: BoolSort, Args: []*Term{a, b}})
}

func bin(op Op, a, b *Term) *Term {
	if a.S != b.S {
		panic(fmt.Sprintf("bv op %s sort mismatch %v %v", opNames[op], a.S, b.S))
	}
	return TB.mk(&Term{Op: op, S: a.S, Args: []*Term{a, b}})
}

func isZero(t *Term) bool { return t.IsConst() && t.Val.Sign() == 0 }
func isOnes(t *Term) bool { return t.IsConst() && t.S.K == SBV && t.Val.Cmp(mask(t.S.W)) == 0 }

// linear form of a sum: the non-constant summands (atoms, with multiplicity) and the constant.
// canonical linear sums are switched on per target (lemma directive "simplify: linear"): they make
// offsets reached by different groupings the same term, but change the shape of every sum, which the
// slow quantified obligations of other targets are sensitive to
var noLinear = true
var noUlt0 = os.Getenv("GOVC_NO_ULT0") != ""

func linearize(t *Term, atoms *[]*Term, c *big.Int, depth int) {
	if t.IsConst() {
		c.Add(c, t.Val)
		return
	}
	if t.Op == OBvAdd && depth < 24 {
		linearize(t.Args[0], atoms, c, depth+1)
		linearize(t.Args[1], atoms, c, depth+1)
		return
	}
	*atoms = append(*atoms, t)
}

// sumOf rebuilds a sum in canonical shape: atoms in order of creation, the constant last.
func sumOf(atoms []*Term, c *big.Int, w int) *Term {
	sort.SliceStable(atoms, func(i, j int) bool { return atoms[i].id < atoms[j].id })
	c = new(big.Int).And(c, mask(w))
	var r *Term
	for _, a := range atoms {
		if r == nil {
			r = a
		} else {
			r = bin(OBvAdd, r, a)
		}
	}
	if r == nil {
		return BVC(c, w)
	}
	if c.Sign() != 0 {
		r = bin(OBvAdd, r, BVC(c, w))
	}
	return r
}

func BvAdd(a, b *Term) *Term {
	w := a.S.W
	if a.IsConst() && b.IsConst() {
		return BVC(new(big.Int).Add(a.Val, b.Val), w)
	}
	if isZero(a) {
		return b
	}
	if isZero(b) {
		return a
	}
	if a.IsConst() {
		a, b = b, a
	}
	if b.IsConst() && a.Op == OBvSub && a.Args[1].IsConst() {
		return BvAdd(a.Args[0], BVC(new(big.Int).Sub(b.Val, a.Args[1].Val), w))
	}
	if noLinear {
		if b.IsConst() && a.Op == OBvAdd && a.Args[1].IsConst() {
			return BvAdd(a.Args[0], BVC(new(big.Int).Add(a.Args[1].Val, b.Val), w))
		}
		return bin(OBvAdd, a, b)
	}
	// sums are kept in a canonical linear form, so that the same total reached by different
	// groupings is the same term
	var atoms []*Term
	c := new(big.Int)
	linearize(a, &atoms, c, 0)
	linearize(b, &atoms, c, 0)
	return sumOf(atoms, c, w)
}

func BvSub(a, b *Term) *Term {
	w := a.S.W
	if a.IsConst() && b.IsConst() {
		return BVC(new(big.Int).Sub(a.Val, b.Val), w)
	}
	if isZero(b) {
		return a
	}
	if a == b {
		return BVU(0, w)
	}
	if b.IsConst() {
		return BvAdd(a, BVC(new(big.Int).Neg(b.Val), w))
	}
	// sums: cancel the summands of b among those of a
	if a.Op == OBvAdd || b.Op == OBvAdd {
		var aa, ba []*Term
		ca, cb := new(big.Int), new(big.Int)
		linearize(a, &aa, ca, 0)
		linearize(b, &ba, cb, 0)
		all := true
		for _, x := range ba {
			found := false
			for i, y := range aa {
				if y == x {
					aa = append(aa[:i:i], aa[i+1:]...)
					found = true
					break
				}
			}
			if !found {
				all = false
				break
			}
		}
		if all {
			return sumOf(aa, new(big.Int).Sub(ca, cb), w)
		}
	}
	return bin(OBvSub, a, b)
}

func BvMul(a, b *Term) *Term {
	w := a.S.W
	if a.IsConst() && b.IsConst() {
		return BVC(new(big.Int).Mul(a.Val, b.Val), w)
	}
	if a.IsConst() {
		a, b = b, a
	}
	if isZero(b) {
		return b
	}
	if b.IsConst() && b.Val.Cmp(big.NewInt(1)) == 0 {
		return a
	}
	if b.IsConst() && a.Op == OBvMul && a.Args[1].IsConst() {
		return BvMul(a.Args[0], BVC(new(big.Int).Mul(a.Args[1].Val, b.Val), w))
	}
	return bin(OBvMul, a, b)
}

func BvUDiv(a, b *Term) *Term {
	w := a.S.W
	if b.IsConst() && b.Val.Sign() != 0 {
		if a.IsConst() {
			return BVC(new(big.Int).Div(a.Val, b.Val), w)
		}
		if b.Val.Cmp(big.NewInt(1)) == 0 {
			return a
		}
		// power of two -> shift
		if new(big.Int).And(b.Val, new(big.Int).Sub(b.Val, big.NewInt(1))).Sign() == 0 {
			return BvLshr(a, BVU(uint64(b.Val.BitLen()-1), w))
		}
	}
	return bin(OBvUDiv, a, b)
}

func BvURem(a, b *Term) *Term {
	w := a.S.W
	if b.IsConst() && b.Val.Sign() != 0 {
		if a.IsConst() {
			return BVC(new(big.Int).Mod(a.Val, b.Val), w)
		}
		if new(big.Int).And(b.Val, new(big.Int).Sub(b.Val, big.NewInt(1))).Sign() == 0 {
			return BvAnd(a, BVC(new(big.Int).Sub(b.Val, big.NewInt(1)), w))
		}
	}
	return bin(OBvURem, a, b)
}

func BvSDiv(a, b *Term) *Term {
	w := a.S.W
	if a.IsConst() && b.IsConst() && b.Val.Sign() != 0 {
		x, y := toSigned(a.Val, w), toSigned(b.Val, w)
		return BVC(new(big.Int).Quo(x, y), w)
	}
	return bin(OBvSDiv, a, b)
}

func BvSRem(a, b *Term) *Term {
	w := a.S.W
	if a.IsConst() && b.IsConst() && b.Val.Sign() != 0 {
		x, y := toSigned(a.Val, w), toSigned(b.Val, w)
		return BVC(new(big.Int).Rem(x, y), w)
	}
	return bin(OBvSRem, a, b)
}

func BvAnd(a, b *Term) *Term {
	w := a.S.W
	if a.IsConst() && b.IsConst() {
		return BVC(new(big.Int).And(a.Val, b.Val), w)
	}
	if a.IsConst() {
		a, b = b, a
	}
	if isZero(b) {
		return b
	}
	if isOnes(b) {
		return a
	}
	if a == b {
		return a
	}
	if b.IsConst() {
		// zext(x) & c where c covers all of x's bits
		if a.Op == OZext {
			iw := a.Args[0].S.W
			low := new(big.Int).And(b.Val, mask(iw))
			if low.Cmp(mask(iw)) == 0 {
				return a
			}
			return Zext(BvAnd(a.Args[0], BVC(low, iw)), w)
		}
		// (x & c1) & c2
		if a.Op == OBvAnd && a.Args[1].IsConst() {
			return BvAnd(a.Args[0], BVC(new(big.Int).And(a.Args[1].Val, b.Val), w))
		}
		// low mask 2^k-1 -> zext(extract)
		k := b.Val.BitLen()
		if k < w && b.Val.Cmp(mask(k)) == 0 {
			return Zext(Extract(a, k-1, 0), w)
		}
	}
	return foldKnown(bin(OBvAnd, a, b))
}

// seg describes bits [hi..lo] of a word: either zero or taken from a term.
type seg struct {
	hi, lo int
	t      *Term // nil: zero bits; else a term of width hi-lo+1
}

// segments decomposes t into zero / non-zero bit ranges (most significant first), or nil.
func segments(t *Term, depth int) []seg {
	w := t.S.W
	switch t.Op {
	case OConst:
		if t.Val.Sign() == 0 {
			return []seg{{w - 1, 0, nil}}
		}
	case OZext:
		iw := t.Args[0].S.W
		inner := segments(t.Args[0], depth+1)
		if inner == nil {
			inner = []seg{{iw - 1, 0, t.Args[0]}}
		}
		return append([]seg{{w - 1, iw, nil}}, inner...)
	case OConcat:
		if depth > 8 {
			return nil
		}
		lw := t.Args[1].S.W
		hi := segments(t.Args[0], depth+1)
		if hi == nil {
			hi = []seg{{t.Args[0].S.W - 1, 0, t.Args[0]}}
		}
		lo := segments(t.Args[1], depth+1)
		if lo == nil {
			lo = []seg{{lw - 1, 0, t.Args[1]}}
		}
		out := make([]seg, 0, len(hi)+len(lo))
		for _, s := range hi {
			out = append(out, seg{s.hi + lw, s.lo + lw, s.t})
		}
		return append(out, lo...)
	}
	return nil
}

// mergeDisjoint combines a|b (or a^b, a+b) when no bit position is non-zero in both.
func mergeDisjoint(a, b *Term) *Term {
	sa, sb := segments(a, 0), segments(b, 0)
	if sa == nil || sb == nil {
		return nil
	}
	hasZero := func(ss []seg) bool {
		for _, s := range ss {
			if s.t == nil {
				return true
			}
		}
		return false
	}
	if !hasZero(sa) || !hasZero(sb) {
		return nil
	}
	w := a.S.W
	// cut points
	cuts := map[int]bool{0: true, w: true}
	for _, s := range sa {
		cuts[s.lo] = true
		cuts[s.hi+1] = true
	}
	for _, s := range sb {
		cuts[s.lo] = true
		cuts[s.hi+1] = true
	}
	pick := func(ss []seg, hi, lo int) (*Term, bool) {
		for _, s := range ss {
			if s.lo <= lo && hi <= s.hi {
				if s.t == nil {
					return nil, true
				}
				return Extract(s.t, hi-s.lo, lo-s.lo), true
			}
		}
		return nil, false
	}
	var pts []int
	for c := range cuts {
		pts = append(pts, c)
	}
	sort.Ints(pts)
	var res *Term
	for i := len(pts) - 1; i > 0; i-- {
		hi, lo := pts[i]-1, pts[i-1]
		ta, oka := pick(sa, hi, lo)
		tb, okb := pick(sb, hi, lo)
		if !oka || !okb {
			return nil
		}
		var piece *Term
		switch {
		case ta == nil && tb == nil:
			piece = BVU(0, hi-lo+1)
		case ta == nil:
			piece = tb
		case tb == nil:
			piece = ta
		default:
			return nil
		}
		if res == nil {
			res = piece
		} else {
			res = Concat(res, piece)
		}
	}
	return res
}

func BvOr(a, b *Term) *Term {
	w := a.S.W
	if a.IsConst() && b.IsConst() {
		return BVC(new(big.Int).Or(a.Val, b.Val), w)
	}
	if !a.IsConst() && !b.IsConst() {
		if m := mergeDisjoint(a, b); m != nil {
			return m
		}
	}
	if a.IsConst() {
		a, b = b, a
	}
	if isZero(b) {
		return a
	}
	if isOnes(b) {
		return b
	}
	if a == b {
		return a
	}
	return bin(OBvOr, a, b)
}

func BvXor(a, b *Term) *Term {
	w := a.S.W
	if a.IsConst() && b.IsConst() {
		return BVC(new(big.Int).Xor(a.Val, b.Val), w)
	}
	if a.IsConst() {
		a, b = b, a
	}
	if isZero(b) {
		return a
	}
	if a == b {
		return BVU(0, w)
	}
	if isOnes(b) {
		return BvNot(a)
	}
	return bin(OBvXor, a, b)
}

func BvNot(a *Term) *Term {
	if a.IsConst() {
		return BVC(new(big.Int).Xor(a.Val, mask(a.S.W)), a.S.W)
	}
	if a.Op == OBvNot {
		return a.Args[0]
	}
	return TB.mk(&Term{Op: OBvNot, S: a.S, Args: []*Term{a}})
}

func BvNeg(a *Term) *Term {
	if a.IsConst() {
		return BVC(new(big.Int).Neg(a.Val), a.S.W)
	}
	return TB.mk(&Term{Op: OBvNeg, S: a.S, Args: []*Term{a}})
}

func BvShl(a, b *Term) *Term {
	w := a.S.W
	if b.IsConst() {
		if b.Val.Cmp(big.NewInt(int64(w))) >= 0 {
			return BVU(0, w)
		}
		k := int(b.Val.Int64())
		if k == 0 {
			return a
		}
		if a.IsConst() {
			return BVC(new(big.Int).Lsh(a.Val, uint(k)), w)
		}
		return Concat(Extract(a, w-1-k, 0), BVU(0, k))
	}
	if isZero(a) {
		return a
	}
	return bin(OBvShl, a, b)
}

func BvLshr(a, b *Term) *Term {
	w := a.S.W
	if b.IsConst() {
		if b.Val.Cmp(big.NewInt(int64(w))) >= 0 {
			return BVU(0, w)
		}
		k := int(b.Val.Int64())
		if k == 0 {
			return a
		}
		if a.IsConst() {
			return BVC(new(big.Int).Rsh(a.Val, uint(k)), w)
		}
		return Zext(Extract(a, w-1, k), w)
	}
	if isZero(a) {
		return a
	}
	return bin(OBvLshr, a, b)
}

func BvAshr(a, b *Term) *Term {
	w := a.S.W
	if b.IsConst() {
		k := int64(w - 1)
		if b.Val.Cmp(big.NewInt(int64(w))) < 0 {
			k = b.Val.Int64()
		}
		if k == 0 {
			return a
		}
		if a.IsConst() {
			return BVC(new(big.Int).Rsh(toSigned(a.Val, w), uint(k)), w)
		}
		return Sext(Extract(a, w-1, int(k)), w)
	}
	return bin(OBvAshr, a, b)
}

func cmpc(op Op, a, b *Term) *Term {
	w := a.S.W
	x, y := a.Val, b.Val
	if op == OBvSlt || op == OBvSle {
		x, y = toSigned(x, w), toSigned(y, w)
	}
	c := x.Cmp(y)
	switch op {
	case OBvUlt, OBvSlt:
		return BoolC(c < 0)
	default:
		return BoolC(c <= 0)
	}
}

// upper bound (unsigned) derivable syntactically, or nil
// knownBits: bits of a bit-vector term (width <= 64) that are zero resp. one whatever its variables are.
var kbMemo = map[int][2]uint64{}
var kbMu sync.Mutex

func knownBits(t *Term) (zeros, ones uint64) {
	if t.S.K != SBV || t.S.W > 64 {
		return 0, 0
	}
	w := t.S.W
	full := ^uint64(0)
	if w < 64 {
		full = (uint64(1) << uint(w)) - 1
	}
	if t.Op == OConst {
		v := new(big.Int).And(t.Val, mask(w)).Uint64()
		return full &^ v, v
	}
	kbMu.Lock()
	r, ok := kbMemo[t.id]
	kbMu.Unlock()
	if ok {
		return r[0], r[1]
	}
	var z, o uint64
	switch t.Op {
	case OZext:
		iz, io := knownBits(t.Args[0])
		iw := t.Args[0].S.W
		if iw <= 64 {
			im := ^uint64(0)
			if iw < 64 {
				im = (uint64(1) << uint(iw)) - 1
			}
			z, o = iz|(full&^im), io
		}
	case OBvAnd:
		az, ao := knownBits(t.Args[0])
		bz, bo := knownBits(t.Args[1])
		z, o = az|bz, ao&bo
	case OBvOr:
		az, ao := knownBits(t.Args[0])
		bz, bo := knownBits(t.Args[1])
		z, o = az&bz, ao|bo
	case OBvXor:
		az, ao := knownBits(t.Args[0])
		bz, bo := knownBits(t.Args[1])
		z, o = az&bz|ao&bo, az&bo|ao&bz
	case OExtract:
		if t.Args[0].S.W <= 64 {
			az, ao := knownBits(t.Args[0])
			z, o = az>>uint(t.N2)&full, ao>>uint(t.N2)&full
		}
	case OConcat:
		az, ao := knownBits(t.Args[0])
		bz, bo := knownBits(t.Args[1])
		lw := uint(t.Args[1].S.W)
		z, o = az<<lw|bz, ao<<lw|bo
	case OBvShl:
		if t.Args[1].IsConst() && t.Args[1].Val.IsUint64() && t.Args[1].Val.Uint64() < 64 {
			k := uint(t.Args[1].Val.Uint64())
			az, ao := knownBits(t.Args[0])
			z, o = (az<<k|((uint64(1)<<k)-1))&full, ao<<k&full
		}
	case OBvLshr:
		if t.Args[1].IsConst() && t.Args[1].Val.IsUint64() && t.Args[1].Val.Uint64() < 64 {
			k := uint(t.Args[1].Val.Uint64())
			az, ao := knownBits(t.Args[0])
			z, o = (az>>k|^(full>>k))&full, ao>>k
		}
	case OIte:
		az, ao := knownBits(t.Args[1])
		bz, bo := knownBits(t.Args[2])
		z, o = az&bz, ao&bo
	}
	z &= full
	o &= full
	kbMu.Lock()
	kbMemo[t.id] = [2]uint64{z, o}
	kbMu.Unlock()
	return z, o
}

// foldKnown replaces a term all of whose bits are known by the constant.
func foldKnown(t *Term) *Term {
	if t.S.K != SBV || t.S.W > 64 || t.Op == OConst {
		return t
	}
	z, o := knownBits(t)
	full := ^uint64(0)
	if t.S.W < 64 {
		full = (uint64(1) << uint(t.S.W)) - 1
	}
	if z|o == full {
		return BVU(o, t.S.W)
	}
	return t
}

// urange: unsigned bounds [lo, hi] of a bit-vector term when they can be read off its shape
// (constants, zero extensions, masks, sums that cannot wrap).  ok=false: nothing known.
func urange(t *Term) (lo, hi *big.Int, ok bool) {
	if t.S.K != SBV {
		return nil, nil, false
	}
	switch t.Op {
	case OConst:
		return t.Val, t.Val, true
	case OBvAdd:
		al, ah, ok1 := urange(t.Args[0])
		bl, bh, ok2 := urange(t.Args[1])
		if ok1 && ok2 {
			h := new(big.Int).Add(ah, bh)
			if h.Cmp(mask(t.S.W)) <= 0 {
				return new(big.Int).Add(al, bl), h, true
			}
		}
		return nil, nil, false
	}
	if u := ubound(t); u != nil {
		return big.NewInt(0), u, true
	}
	return nil, nil, false
}

// signedByRange decides a signed comparison when both sides are known to be small non-negative numbers.
func signedByRange(a, b *Term, strict bool) *Term {
	al, ah, ok1 := urange(a)
	bl, bh, ok2 := urange(b)
	if !ok1 || !ok2 {
		return nil
	}
	half := new(big.Int).Lsh(big.NewInt(1), uint(a.S.W-1))
	if ah.Cmp(half) >= 0 || bh.Cmp(half) >= 0 {
		return nil
	}
	if strict {
		if ah.Cmp(bl) < 0 {
			return True()
		}
		if al.Cmp(bh) >= 0 {
			return False()
		}
	} else {
		if ah.Cmp(bl) <= 0 {
			return True()
		}
		if al.Cmp(bh) > 0 {
			return False()
		}
	}
	return nil
}

func ubound(t *Term) *big.Int {
	switch t.Op {
	case OConst:
		return t.Val
	case OZext:
		if u := ubound(t.Args[0]); u != nil {
			return u
		}
		return mask(t.Args[0].S.W)
	case OConcat:
		if isZero(t.Args[0]) {
			if u := ubound(t.Args[1]); u != nil {
				return u
			}
			return mask(t.Args[1].S.W)
		}
	case OBvAnd:
		if t.Args[1].IsConst() {
			return t.Args[1].Val
		}
	case OIte:
		a, b := ubound(t.Args[1]), ubound(t.Args[2])
		if a != nil && b != nil {
			if a.Cmp(b) > 0 {
				return a
			}
			return b
		}
	case OBvURem:
		if t.Args[1].IsConst() && t.Args[1].Val.Sign() > 0 {
			return new(big.Int).Sub(t.Args[1].Val, big.NewInt(1))
		}
	}
	return nil
}

func BvUlt(a, b *Term) *Term {
	if a.S != b.S {
		panic("bvult sort mismatch")
	}
	if a.IsConst() && b.IsConst() {
		return cmpc(OBvUlt, a, b)
	}
	if a == b || isZero(b) {
		return False()
	}
	if isZero(a) && !noUlt0 {
		// 0 <u x  is  x != 0 (one shape for both spellings, so that recorded facts apply)
		return Not(Eq(b, a))
	}
	if b.IsConst() {
		if u := ubound(a); u != nil && u.Cmp(b.Val) < 0 {
			return True()
		}
		if a.S.W <= 64 && b.Val.IsUint64() {
			z, o := knownBits(a)
			full := ^uint64(0)
			if a.S.W < 64 {
				full = (uint64(1) << uint(a.S.W)) - 1
			}
			if full&^z < b.Val.Uint64() {
				return True()
			}
			if o >= b.Val.Uint64() {
				return False()
			}
		}
		if a.Op == OZext && b.Val.BitLen() <= a.Args[0].S.W {
			return BvUlt(a.Args[0], BVC(b.Val, a.Args[0].S.W))
		}
	}
	if a.IsConst() {
		if u := ubound(b); u != nil && u.Cmp(a.Val) <= 0 {
			return False()
		}
	}
	return TB.mk(&Term{Op: OBvUlt, S: BoolSort, Args: []*Term{a, b}})
}
func BvUle(a, b *Term) *Term {
	if a.IsConst() && b.IsConst() {
		return cmpc(OBvUle, a, b)
	}
	if a == b || isZero(a) {
		return True()
	}
	if b.IsConst() {
		if u := ubound(a); u != nil && u.Cmp(b.Val) <= 0 {
			return True()
		}
	}
	return Not(BvUlt(b, a))
}
func BvSlt(a, b *Term) *Term {
	if a.S != b.S {
		panic("bvslt sort mismatch")
	}
	if a.IsConst() && b.IsConst() {
		return cmpc(OBvSlt, a, b)
	}
	if a == b {
		return False()
	}
	w := a.S.W
	half := new(big.Int).Lsh(big.NewInt(1), uint(w-1))
	if r := signedByRange(a, b, true); r != nil {
		return r
	}
	// both provably non-negative -> unsigned compare
	ua, ub := ubound(a), ubound(b)
	if ua != nil && ub != nil && ua.Cmp(half) < 0 && ub.Cmp(half) < 0 {
		return BvUlt(a, b)
	}
	return TB.mk(&Term{Op: OBvSlt, S: BoolSort, Args: []*Term{a, b}})
}
func BvSle(a, b *Term) *Term {
	if a.IsConst() && b.IsConst() {
		return cmpc(OBvSle, a, b)
	}
	if a == b {
		return True()
	}
	return Not(BvSlt(b, a))
}

func Concat(a, b *Term) *Term {
	w := a.S.W + b.S.W
	if a.IsConst() && b.IsConst() {
		v := new(big.Int).Lsh(a.Val, uint(b.S.W))
		return BVC(v.Or(v, b.Val), w)
	}
	if isZero(a) {
		return Zext(b, w)
	}
	// concat(extract(x,h,m+1), extract(x,m,l)) = extract(x,h,l)
	if a.Op == OExtract && b.Op == OExtract && a.Args[0] == b.Args[0] && a.N2 == b.N1+1 {
		return Extract(a.Args[0], a.N1, b.N2)
	}
	return TB.mk(&Term{Op: OConcat, S: BV(w), Args: []*Term{a, b}})
}

func Extract(a *Term, hi, lo int) *Term {
	w := a.S.W
	if hi >= w || lo < 0 || hi < lo {
		panic(fmt.Sprintf("bad extract %d %d of width %d", hi, lo, w))
	}
	if lo == 0 && hi == w-1 {
		return a
	}
	nw := hi - lo + 1
	switch a.Op {
	case OConst:
		return BVC(new(big.Int).Rsh(a.Val, uint(lo)), nw)
	case OExtract:
		return Extract(a.Args[0], a.N2+hi, a.N2+lo)
	case OConcat:
		lw := a.Args[1].S.W
		if hi < lw {
			return Extract(a.Args[1], hi, lo)
		}
		if lo >= lw {
			return Extract(a.Args[0], hi-lw, lo-lw)
		}
		return Concat(Extract(a.Args[0], hi-lw, 0), Extract(a.Args[1], lw-1, lo))
	case OZext:
		iw := a.Args[0].S.W
		if hi < iw {
			return Extract(a.Args[0], hi, lo)
		}
		if lo >= iw {
			return BVU(0, nw)
		}
		return Zext(Extract(a.Args[0], iw-1, lo), nw)
	case OSext:
		iw := a.Args[0].S.W
		if hi < iw {
			return Extract(a.Args[0], hi, lo)
		}
	case OBvAnd, OBvOr, OBvXor:
		return binByOp(a.Op, Extract(a.Args[0], hi, lo), Extract(a.Args[1], hi, lo))
	case OBvNot:
		return BvNot(Extract(a.Args[0], hi, lo))
	case OIte:
		if a.Args[1].IsConst() || a.Args[2].IsConst() {
			return Ite(a.Args[0], Extract(a.Args[1], hi, lo), Extract(a.Args[2], hi, lo))
		}
	case OBvAdd, OBvSub, OBvMul:
		if lo == 0 {
			return binByOp(a.Op, Extract(a.Args[0], hi, 0), Extract(a.Args[1], hi, 0))
		}
	}
	return TB.mk(&Term{Op: OExtract, S: BV(nw), Args: []*Term{a}, N1: hi, N2: lo})
}

func binByOp(op Op, a, b *Term) *Term {
	switch op {
	case OBvAnd:
		return BvAnd(a, b)
	case OBvOr:
		return BvOr(a, b)
	case OBvXor:
		return BvXor(a, b)
	case OBvAdd:
		return BvAdd(a, b)
	case OBvSub:
		return BvSub(a, b)
	case OBvMul:
		return BvMul(a, b)
	}
	panic("binByOp")
}

func Zext(a *Term, w int) *Term {
	if a.S.W == w {
		return a
	}
	if a.S.W > w {
		panic("zext narrowing")
	}
	if a.IsConst() {
		return BVC(a.Val, w)
	}
	if a.Op == OZext {
		return Zext(a.Args[0], w)
	}
	return TB.mk(&Term{Op: OZext, S: BV(w), Args: []*Term{a}})
}

func Sext(a *Term, w int) *Term {
	if a.S.W == w {
		return a
	}
	if a.IsConst() {
		return BVC(toSigned(a.Val, a.S.W), w)
	}
	if a.Op == OZext { // sign bit is zero
		return Zext(a.Args[0], w)
	}
	return TB.mk(&Term{Op: OSext, S: BV(w), Args: []*Term{a}})
}

// Resize converts to width w: truncation, or zero/sign extension.
func Resize(a *Term, w int, signed bool) *Term {
	switch {
	case a.S.W == w:
		return a
	case a.S.W > w:
		return Extract(a, w-1, 0)
	case signed:
		return Sext(a, w)
	default:
		return Zext(a, w)
	}
}

func Select(arr, idx *Term) *Term {
	if idx.S.W != 64 {
		panic("select index must be 64 bits")
	}
	switch arr.Op {
	case OVar:
		if d, ok := TB.defBodies[arr.Name]; ok {
			return Subst(d.body, map[int]*Term{d.k.id: idx})
		}
	case OConstArr:
		return arr.Args[0]
	case OStore:
		e := Eq(arr.Args[1], idx)
		if e.IsTrue() {
			return arr.Args[2]
		}
		if e.IsFalse() {
			return Select(arr.Args[0], idx)
		}
	case OIte:
		if arr.size < 200 {
			return Ite(arr.Args[0], Select(arr.Args[1], idx), Select(arr.Args[2], idx))
		}
	}
	return TB.mk(&Term{Op: OSelect, S: BV(arr.S.W), Args: []*Term{arr, idx}})
}

func Store(arr, idx, v *Term) *Term {
	if v.S.W != arr.S.W {
		panic(fmt.Sprintf("store width mismatch %d vs %d", v.S.W, arr.S.W))
	}
	if arr.Op == OStore && arr.Args[1] == idx {
		return Store(arr.Args[0], idx, v)
	}
	return TB.mk(&Term{Op: OStore, S: arr.S, Args: []*Term{arr, idx, v}})
}

func ConstArr(v *Term) *Term {
	return TB.mk(&Term{Op: OConstArr, S: Arr(v.S.W), Args: []*Term{v}})
}

func App(name string, ret Sort, args ...*Term) *Term {
	return TB.mk(&Term{Op: OApp, S: ret, Name: name, Args: args})
}

func Forall(bound []*Term, body *Term) *Term {
	if body.IsConst() || !body.hasBound {
		return body
	}
	args := append(append([]*Term{}, bound...), body)
	t := TB.mk(&Term{Op: OForall, S: BoolSort, Args: args})
	t.hasBound = anyOtherBound(body, bound)
	return t
}

func Exists(bound []*Term, body *Term) *Term {
	if body.IsConst() || !body.hasBound {
		return body
	}
	args := append(append([]*Term{}, bound...), body)
	t := TB.mk(&Term{Op: OExists, S: BoolSort, Args: args})
	t.hasBound = anyOtherBound(body, bound)
	return t
}

func anyOtherBound(body *Term, bound []*Term) bool {
	bs := map[int]bool{}
	for _, b := range bound {
		bs[b.id] = true
	}
	seen := map[int]bool{}
	var rec func(t *Term) bool
	rec = func(t *Term) bool {
		if !t.hasBound || seen[t.id] {
			return false
		}
		seen[t.id] = true
		if t.Op == OBound {
			return !bs[t.id]
		}
		for _, a := range t.Args {
			if rec(a) {
				return true
			}
		}
		return false
	}
	return rec(body)
}

// Subst replaces variables/bounds (by term id) in t.
func Subst(t *Term, m map[int]*Term) *Term {
	memo := map[int]*Term{}
	var rec func(t *Term) *Term
	rec = func(t *Term) *Term {
		if r, ok := m[t.id]; ok {
			return r
		}
		if len(t.Args) == 0 {
			return t
		}
		if r, ok := memo[t.id]; ok {
			return r
		}
		args := make([]*Term, len(t.Args))
		ch := false
		for i, a := range t.Args {
			args[i] = rec(a)
			if args[i] != a {
				ch = true
			}
		}
		var r *Term
		if !ch {
			r = t
		} else {
			r = rebuild(t, args)
		}
		memo[t.id] = r
		return r
	}
	return rec(t)
}

func rebuild(t *Term, a []*Term) *Term {
	switch t.Op {
	case ONot:
		return Not(a[0])
	case OAnd:
		return And(a...)
	case OOr:
		return Or(a...)
	case OImp:
		return Imp(a[0], a[1])
	case OIte:
		return Ite(a[0], a[1], a[2])
	case OEq:
		return Eq(a[0], a[1])
	case OBvAdd:
		return BvAdd(a[0], a[1])
	case OBvSub:
		return BvSub(a[0], a[1])
	case OBvMul:
		return BvMul(a[0], a[1])
	case OBvUDiv:
		return BvUDiv(a[0], a[1])
	case OBvURem:
		return BvURem(a[0], a[1])
	case OBvSDiv:
		return BvSDiv(a[0], a[1])
	case OBvSRem:
		return BvSRem(a[0], a[1])
	case OBvAnd:
		return BvAnd(a[0], a[1])
	case OBvOr:
		return BvOr(a[0], a[1])
	case OBvXor:
		return BvXor(a[0], a[1])
	case OBvNot:
		return BvNot(a[0])
	case OBvNeg:
		return BvNeg(a[0])
	case OBvShl:
		return BvShl(a[0], a[1])
	case OBvLshr:
		return BvLshr(a[0], a[1])
	case OBvAshr:
		return BvAshr(a[0], a[1])
	case OBvUlt:
		return BvUlt(a[0], a[1])
	case OBvUle:
		return BvUle(a[0], a[1])
	case OBvSlt:
		return BvSlt(a[0], a[1])
	case OBvSle:
		return BvSle(a[0], a[1])
	case OConcat:
		return Concat(a[0], a[1])
	case OExtract:
		return Extract(a[0], t.N1, t.N2)
	case OZext:
		return Zext(a[0], t.S.W)
	case OSext:
		return Sext(a[0], t.S.W)
	case OSelect:
		return Select(a[0], a[1])
	case OStore:
		return Store(a[0], a[1], a[2])
	case OConstArr:
		return ConstArr(a[0])
	case OApp:
		return App(t.Name, t.S, a...)
	case OForall:
		return Forall(a[:len(a)-1], a[len(a)-1])
	case OExists:
		return Exists(a[:len(a)-1], a[len(a)-1])
	}
	panic("rebuild: op")
}

// ---- printing ----

func bvLit(v *big.Int, w int) string {
	if w%4 == 0 {
		s := v.Text(16)
		return "#x" + strings.Repeat("0", w/4-len(s)) + s
	}
	s := v.Text(2)
	return "#b" + strings.Repeat("0", w-len(s)) + s
}

func (t *Term) Short() string {
	s := t.sexp(map[int]string{}, 0)
	if len(s) > 200 {
		return s[:200] + "..."
	}
	return s
}

func smtName(n string) string {
	ok := true
	for _, c := range n {
		if !(c >= 'a' && c <= 'z' || c >= 'A' && c <= 'Z' || c >= '0' && c <= '9' || c == '_' || c == '.' || c == '!' || c == '$') {
			ok = false
		}
	}
	if ok && n != "" {
		return n
	}
	return "|" + strings.ReplaceAll(n, "|", "!") + "|"
}

// sexp prints t; nodes present in names are printed by their name.
func (t *Term) sexp(names map[int]string, depth int) string {
	if n, ok := names[t.id]; ok {
		return n
	}
	switch t.Op {
	case OConst:
		if t.S.K == SBool {
			if t.Val.Sign() != 0 {
				return "true"
			}
			return "false"
		}
		return bvLit(t.Val, t.S.W)
	case OVar, OBound:
		return smtName(t.Name)
	case OExtract:
		return fmt.Sprintf("((_ extract %d %d) %s)", t.N1, t.N2, t.Args[0].sexp(names, depth+1))
	case OZext:
		return fmt.Sprintf("((_ zero_extend %d) %s)", t.S.W-t.Args[0].S.W, t.Args[0].sexp(names, depth+1))
	case OSext:
		return fmt.Sprintf("((_ sign_extend %d) %s)", t.S.W-t.Args[0].S.W, t.Args[0].sexp(names, depth+1))
	case OConstArr:
		return fmt.Sprintf("((as const %s) %s)", t.S, t.Args[0].sexp(names, depth+1))
	case OApp:
		if len(t.Args) == 0 {
			return smtName(t.Name)
		}
		var sb strings.Builder
		sb.WriteString("(" + smtName(t.Name))
		for _, a := range t.Args {
			sb.WriteString(" " + a.sexp(names, depth+1))
		}
		sb.WriteString(")")
		return sb.String()
	case OForall, OExists:
		q := "forall"
		if t.Op == OExists {
			q = "exists"
		}
		var sb strings.Builder
		sb.WriteString("(" + q + " (")
		n := len(t.Args) - 1
		for _, b := range t.Args[:n] {
			fmt.Fprintf(&sb, "(%s %s)", smtName(b.Name), b.S)
		}
		sb.WriteString(") " + t.Args[n].sexp(names, depth+1) + ")")
		return sb.String()
	}
	var sb strings.Builder
	sb.WriteString("(" + opNames[t.Op])
	for _, a := range t.Args {
		sb.WriteString(" " + a.sexp(names, depth+1))
	}
	sb.WriteString(")")
	return sb.String()
}

// Script builds an SMT-LIB script checking satisfiability of the conjunction
// of asserts.  Shared bound-free subterms are hoisted into define-fun.
func Script(asserts []*Term, getVals []*Term, opaque map[string]bool) string {
	return ScriptOpt(asserts, getVals, opaque, false)
}

// ScriptOpt: with unfoldOnly, recursive spec functions are left uninterpreted and only their
// ground unfolding instances (two levels) are stated.  That script is weaker than the one with
// define-fun-rec, so its "unsat" is a proof, while its "sat" decides nothing.
func ScriptOpt(asserts []*Term, getVals []*Term, opaque map[string]bool, unfoldOnly bool) string {
	// collect reference counts
	refs := map[int]int{}
	var order []*Term
	seen := map[int]bool{}
	vars := map[string]*Term{}
	apps := map[string]bool{}
	var visit func(t *Term)
	visit = func(t *Term) {
		refs[t.id]++
		if seen[t.id] {
			return
		}
		seen[t.id] = true
		for _, a := range t.Args {
			visit(a)
		}
		if t.Op == OVar {
			vars[t.Name] = t
		}
		if t.Op == OApp {
			apps[t.Name] = true
		}
		order = append(order, t)
	}
	// function bodies / axioms reachable
	var fnOrder []string
	fnSeen := map[string]bool{}
	var addFn func(n string)
	pendingAx := []*Term{}
	addFn = func(n string) {
		if fnSeen[n] {
			return
		}
		fnSeen[n] = true
		fd := TB.funcs[n]
		if fd == nil {
			panic("undeclared function " + n)
		}
		if fd.Lazy != nil && !opaque[n] {
			l := fd.Lazy
			fd.Lazy = nil
			l(fd)
		}
		if fd.Body != nil && !opaque[n] {
			collectApps(fd.Body, func(m string) {
				if m != n {
					addFn(m)
				}
			})
		}
		for _, ax := range fd.Axioms {
			collectApps(ax, func(m string) { addFn(m) })
			pendingAx = append(pendingAx, ax)
		}
		fnOrder = append(fnOrder, n)
	}
	for _, a := range asserts {
		collectApps(a, addFn)
	}
	all := append(append([]*Term{}, pendingAx...), asserts...)
	for _, a := range all {
		visit(a)
	}
	// extensional congruence for opaque functions over byte strings: for two applications
	// F(..a1,n1..) and F(..a2,n2..), either the results agree or the strings differ at a witness index.
	{
		byFn := map[string][]*Term{}
		var fnames []string
		for _, t := range order {
			if t.Op != OApp || t.hasBound {
				continue
			}
			fd := TB.funcs[t.Name]
			if fd == nil || len(fd.ArrSlots) == 0 || !(fd.Body == nil && fd.Lazy == nil || opaque[t.Name]) {
				continue
			}
			if len(byFn[t.Name]) == 0 {
				fnames = append(fnames, t.Name)
			}
			byFn[t.Name] = append(byFn[t.Name], t)
		}
		sort.Strings(fnames)
		for _, fnm := range fnames {
			apps := byFn[fnm]
			fd := TB.funcs[fnm]
			if len(apps) > 12 {
				apps = apps[:12]
			}
			isArr := map[int]bool{}
			for _, sl := range fd.ArrSlots {
				isArr[sl[0]] = true
			}
			for i := 0; i < len(apps); i++ {
				for j := i + 1; j < len(apps); j++ {
					a, b := apps[i], apps[j]
					var conds []*Term
					for pi := range a.Args {
						if isArr[pi] {
							continue
						}
						conds = append(conds, Eq(a.Args[pi], b.Args[pi]))
					}
					skip := false
					for si, sl := range fd.ArrSlots {
						// byte strings of constant length written as store chains: compare element by element
						if ea, ok := storeChainElems(a.Args[sl[0]], a.Args[sl[1]]); ok {
							if eb, ok2 := storeChainElems(b.Args[sl[0]], b.Args[sl[1]]); ok2 {
								if len(ea) != len(eb) {
									skip = true // different lengths: the strings differ, nothing to state
									break
								}
								for i := range ea {
									conds = append(conds, Eq(ea[i], eb[i]))
								}
								continue
							}
						}
						k0 := Var(fmt.Sprintf("ext!%d!%d!%d", a.id, b.id, si), BV(64))
						conds = append(conds, Imp(BvUlt(k0, a.Args[sl[1]]), Eq(Select(a.Args[sl[0]], k0), Select(b.Args[sl[0]], k0))))
					}
					if skip {
						continue
					}
					inst := Imp(And(conds...), Eq(a, b))
					if !inst.IsTrue() {
						visit(inst)
						all = append(all, inst)
					}
				}
			}
		}
	}
	// unfolding of every ground application of a recursive spec function: the instance
	// f(args) = body[args] is a consequence of the definition, and stating it spares the solver the
	// search for it (inductive steps need exactly one unfolding).
	{
		levels := 1
		if unfoldOnly {
			levels = 2
			if v := os.Getenv("GOVC_UNFOLD"); v != "" {
				fmt.Sscan(v, &levels)
			}
		}
		done := map[int]bool{}
		total := 0
		for lv := 0; lv < levels; lv++ {
			var inst []*Term
			for _, t := range order {
				if t.Op != OApp || t.hasBound || done[t.id] || total >= 96 {
					continue
				}
				fd := TB.funcs[t.Name]
				if fd == nil || !fd.Rec || fd.Body == nil || opaque[t.Name] || len(t.Args) != len(fd.Params) {
					continue
				}
				done[t.id] = true
				total++
				m := map[int]*Term{}
				for i, pn := range fd.PNames {
					m[Var(pn, fd.Params[i]).id] = t.Args[i]
				}
				inst = append(inst, Eq(t, Subst(fd.Body, m)))
			}
			for _, e := range inst {
				if !e.IsTrue() {
					collectApps(e, addFn)
					visit(e)
					all = append(all, e)
				}
			}
		}
	}
	// instances of assumed facts about uninterpreted functions, one per ground application
	{
		var inst []*Term
		for _, t := range order {
			if t.Op != OApp || t.hasBound {
				continue
			}
			if fd := TB.funcs[t.Name]; fd != nil && fd.Inst != nil {
				inst = append(inst, fd.Inst(t.Args))
			}
		}
		for _, e := range inst {
			if !e.IsTrue() {
				collectApps(e, addFn)
				visit(e)
				all = append(all, e)
			}
		}
	}
	// defining axioms of canonical arrays that occur (transitively)
	doneAx := map[string]bool{}
	for changed := true; changed; {
		changed = false
		var vnames []string
		for n := range vars {
			vnames = append(vnames, n)
		}
		sort.Strings(vnames)
		for _, n := range vnames {
			if ax, ok := TB.varAxioms[n]; ok && !doneAx[n] {
				doneAx[n] = true
				changed = true
				collectApps(ax, addFn)
				for len(pendingAx) > 0 {
					pa := pendingAx[0]
					pendingAx = pendingAx[1:]
					_ = pa
				}
				visit(ax)
				all = append(all, ax)
			}
		}
	}
	for _, g := range getVals {
		visit(g)
	}
	var sb strings.Builder
	sb.WriteString("(set-option :produce-models true)\n(set-logic ALL)\n")
	vn := make([]string, 0, len(vars))
	for n := range vars {
		vn = append(vn, n)
	}
	sort.Strings(vn)
	for _, n := range vn {
		fmt.Fprintf(&sb, "(declare-fun %s () %s)\n", smtName(n), vars[n].S)
	}
	for _, n := range fnOrder {
		fd := TB.funcs[n]
		if fd.Body == nil || opaque[n] || (unfoldOnly && fd.Rec) {
			fmt.Fprintf(&sb, "(declare-fun %s (", smtName(n))
			for i, p := range fd.Params {
				if i > 0 {
					sb.WriteString(" ")
				}
				sb.WriteString(p.String())
			}
			fmt.Fprintf(&sb, ") %s)\n", fd.Ret)
		} else {
			kw := "define-fun"
			if fd.Rec {
				kw = "define-fun-rec"
			}
			fmt.Fprintf(&sb, "(%s %s (", kw, smtName(n))
			for i, p := range fd.Params {
				fmt.Fprintf(&sb, "(%s %s)", smtName(fd.PNames[i]), p)
			}
			fmt.Fprintf(&sb, ") %s %s)\n", fd.Ret, printTree(fd.Body))
		}
	}
	names := map[int]string{}
	for _, t := range order {
		if t.hasBound || len(t.Args) == 0 {
			continue
		}
		if refs[t.id] > 1 || t.size > 40 {
			nm := fmt.Sprintf("t!%d", t.id)
			fmt.Fprintf(&sb, "(define-fun %s () %s %s)\n", nm, t.S, t.sexpTop(names))
			names[t.id] = nm
		}
	}
	for _, a := range all {
		fmt.Fprintf(&sb, "(assert %s)\n", a.sexp(names, 0))
	}
	sb.WriteString("(check-sat)\n")
	if len(getVals) > 0 {
		sb.WriteString("(get-value (")
		for _, g := range getVals {
			sb.WriteString(g.sexp(names, 0) + " ")
		}
		sb.WriteString("))\n")
	}
	return sb.String()
}

// sexpTop prints the node itself expanded one level (children by name).
func (t *Term) sexpTop(names map[int]string) string {
	saved, had := names[t.id]
	delete(names, t.id)
	s := t.sexp(names, 0)
	if had {
		names[t.id] = saved
	}
	return s
}

// printTree prints a function body with let-free sharing via local let bindings.
func printTree(t *Term) string {
	// bodies reference parameters as OVar with the parameter name; use let for sharing
	refs := map[int]int{}
	var order []*Term
	seen := map[int]bool{}
	var visit func(t *Term)
	visit = func(t *Term) {
		refs[t.id]++
		if seen[t.id] {
			return
		}
		seen[t.id] = true
		for _, a := range t.Args {
			visit(a)
		}
		order = append(order, t)
	}
	visit(t)
	names := map[int]string{}
	var sb strings.Builder
	n := 0
	for _, x := range order {
		if x == t || len(x.Args) == 0 || x.hasBound {
			continue
		}
		if refs[x.id] > 1 {
			nm := fmt.Sprintf("l!%d", x.id)
			fmt.Fprintf(&sb, "(let ((%s %s)) ", nm, x.sexpTop(names))
			names[x.id] = nm
			n++
		}
	}
	sb.WriteString(t.sexp(names, 0))
	sb.WriteString(strings.Repeat(")", n))
	return sb.String()
}

func collectApps(t *Term, f func(string)) {
	seen := map[int]bool{}
	var rec func(t *Term)
	rec = func(t *Term) {
		if seen[t.id] {
			return
		}
		seen[t.id] = true
		if t.Op == OApp {
			f(t.Name)
		}
		for _, a := range t.Args {
			rec(a)
		}
	}
	rec(t)
}

func DeclareFunc(fd *FuncDecl) {
	if _, ok := TB.funcs[fd.Name]; !ok {
		TB.forder = append(TB.forder, fd.Name)
	}
	TB.funcs[fd.Name] = fd
}

var freshCtr int
var freshVars = map[int]*Term{}

func Fresh(prefix string, s Sort) *Term {
	freshCtr++
	t := Var(fmt.Sprintf("%s!%d", prefix, freshCtr), s)
	freshVars[freshCtr] = t
	return t
}

func FreshBound(prefix string, s Sort) *Term {
	freshCtr++
	return Bound(fmt.Sprintf("%s!b%d", prefix, freshCtr), s)
}

type defBody struct {
	k    *Term
	body *Term
}

// DefArr returns the canonical array constant a with (forall k. a[k] = body(k)).
// Two requests with the same definition yield the same constant.
func DefArr(w int, k *Term, body *Term) *Term {
	ck := Bound("K!c", BV(64))
	cb := Subst(body, map[int]*Term{k.id: ck})
	if a, ok := TB.defArrs[cb.id]; ok && a.S.W == w {
		return a
	}
	a := Var(fmt.Sprintf("da!%d", len(TB.defArrs)), Arr(w))
	TB.defArrs[cb.id] = a
	TB.varAxioms[a.Name] = Forall([]*Term{ck}, Eq(TB.mk(&Term{Op: OSelect, S: BV(w), Args: []*Term{a, ck}}), cb))
	TB.defBodies[a.Name] = defBody{ck, cb}
	return a
}

// storeChainElems recognises store(...store((as const 0), 0, e0)..., n-1, e_{n-1}) with constant length n
// and returns e0..e_{n-1}.
func storeChainElems(arr, ln *Term) ([]*Term, bool) {
	if !ln.IsConst() || !ln.Val.IsInt64() || ln.Val.Int64() > 4096 {
		return nil, false
	}
	n := int(ln.Val.Int64())
	elems := make([]*Term, n)
	t := arr
	for t.Op == OStore {
		idx := t.Args[1]
		if !idx.IsConst() || !idx.Val.IsInt64() {
			return nil, false
		}
		i := int(idx.Val.Int64())
		if i >= 0 && i < n && elems[i] == nil {
			elems[i] = t.Args[2]
		}
		t = t.Args[0]
	}
	if t.Op != OConstArr {
		return nil, false
	}
	for i := range elems {
		if elems[i] == nil {
			elems[i] = t.Args[0]
		}
	}
	return elems, true
}
