package main

// Models of bytes.Buffer and encoding/binary.Read / Write as the NAS codec uses them
// (TS 24.501 messages are written field by field into a bytes.Buffer and read back from one).
//
// A buffer is the struct {buf []byte; off int; lastRead}: the unread part is buf[off:].
//   - binary.Write(w, order, data) appends the octets of data (fixed-size values, arrays, structs of
//     them, byte slices; multi-octet integers in the given order) and returns nil (bytes.Buffer.Write
//     never fails).
//   - binary.Read(r, order, data) with n = the size of data: if n octets are unread they are stored
//     into data and consumed; if fewer are unread, all of them are consumed, data is left untouched
//     and an error is returned (io.ReadFull); n = 0 does nothing.  Whether enough octets are unread
//     must be decided by the path condition and the assumptions (a short solver query is allowed):
//     the model does not fork.
// These are assumed contracts of the standard library (listed in the evidence).

import (
	"fmt"
	"os"
	"go/token"
	"go/types"
)

// A rope remembers how a byte string was put together by successive writes: the pieces, where each
// starts and how long it is (terms).  It is a cache of facts that hold by construction of the flat
// string (concatBytes); a read that starts where a piece starts and asks for as many octets as the
// piece has is answered from the piece, which keeps offsets and lengths syntactically equal to the
// writer's.  Anything else falls back to the flat string.
type ropeSeg struct {
	piece     SliceV
	start, ln *Term
}

type rope struct {
	segs  []ropeSeg
	total *Term
	ident Value // the heap value of the flat object when the rope was recorded
}

func sameStore(a, b Value) bool {
	switch av := a.(type) {
	case SymArrV:
		bv, ok := b.(SymArrV)
		return ok && av.Arr == bv.Arr && av.Len == bv.Len
	case ArrayV:
		bv, ok := b.(ArrayV)
		if !ok || len(av.E) != len(bv.E) {
			return false
		}
		return len(av.E) == 0 || &av.E[0] == &bv.E[0]
	}
	return false
}

func (x *Exec) ropeOf(s SliceV) *rope {
	if s.Obj == nil || x.ropes == nil || !isZero(s.Off) {
		return nil
	}
	r := x.ropes[s.Obj]
	if r == nil || !sameStore(r.ident, x.st.heap.m[s.Obj]) || r.total != s.Len {
		return nil
	}
	return r
}

// appendRope records buf = old ++ piece.
func (x *Exec) appendRope(old SliceV, piece SliceV, buf SliceV) {
	if buf.Obj == nil {
		return
	}
	if x.ropes == nil {
		x.ropes = map[*Object]*rope{}
	}
	var segs []ropeSeg
	if r := x.ropeOf(old); r != nil {
		segs = append(segs, r.segs...)
	} else if !isZero(old.Len) {
		segs = append(segs, ropeSeg{piece: old, start: bv64(0), ln: old.Len})
	}
	if !isZero(piece.Len) {
		segs = append(segs, ropeSeg{piece: piece, start: old.Len, ln: piece.Len})
	}
	x.ropes[buf.Obj] = &rope{segs: segs, total: buf.Len, ident: x.st.heap.m[buf.Obj]}
}

func sameTerm(a, b *Term) bool {
	return a == b || (a.IsConst() && b.IsConst() && a.Val.Cmp(b.Val) == 0)
}

// ropeRead answers a read of n octets at offset off from the pieces: the octets and the offset after them.
func (x *Exec) ropeRead(buf SliceV, off, n *Term) (SliceV, *Term, bool) {
	r := x.ropeOf(buf)
	if r == nil {
		if os.Getenv("GOVC_DEBUG_ROPE") != "" {
			fmt.Fprintf(os.Stderr, "ROPE none for read at %s n=%s\n", off.Short(), n.Short())
		}
		return SliceV{}, nil, false
	}
	if os.Getenv("GOVC_DEBUG_ROPE") != "" {
		defer func() {
			fmt.Fprintf(os.Stderr, "ROPE read at %s n=%s segs=%d\n", off.Short(), n.Short(), len(r.segs))
		}()
	}
	for i, sg := range r.segs {
		if !sameTerm(sg.start, off) {
			continue
		}
		next := func(j int) *Term {
			if j+1 < len(r.segs) {
				return r.segs[j+1].start
			}
			return r.total
		}
		if sameTerm(sg.ln, n) {
			return sg.piece, next(i), true
		}
		if !n.IsConst() {
			if x.probeValid(Eq(sg.ln, n)) {
				return sg.piece, next(i), true
			}
			return SliceV{}, nil, false
		}
		// a fixed-size read over several fixed-size pieces
		want := int(n.Val.Int64())
		var ts []*Term
		j := i
		for ; j < len(r.segs) && len(ts) < want; j++ {
			m, ok := concreteLen(r.segs[j].piece)
			if !ok || len(ts)+m > want {
				return SliceV{}, nil, false
			}
			for k := 0; k < m; k++ {
				ts = append(ts, x.byteAt(r.segs[j].piece, bv64(int64(k))))
			}
		}
		if len(ts) != want {
			return SliceV{}, nil, false
		}
		return x.mkBytes(ts), next(j - 1), true
	}
	return SliceV{}, nil, false
}

func (x *Exec) mkBytes(ts []*Term) SliceV {
	o := x.newObject(types.Typ[types.Uint8], "octets")
	e := make([]Value, len(ts))
	for i, t := range ts {
		e[i] = Scalar{t}
	}
	x.st.heap.m[o] = ArrayV{e}
	n := bv64(int64(len(ts)))
	return SliceV{Obj: o, Off: bv64(0), Len: n, Cap: n, Nil: False()}
}

// flattenOctets is the byte string binary.Write produces for v (big endian unless little is set).
func (x *Exec) flattenOctets(v Value, little bool) SliceV {
	switch vv := v.(type) {
	case Scalar:
		if vv.T.S.K != SBV {
			// bool: one octet
			return x.mkBytes([]*Term{Ite(vv.T, BVU(1, 8), BVU(0, 8))})
		}
		w := vv.T.S.W
		var ts []*Term
		for i := w/8 - 1; i >= 0; i-- {
			ts = append(ts, Extract(vv.T, i*8+7, i*8))
		}
		if little {
			for i, j := 0, len(ts)-1; i < j; i, j = i+1, j-1 {
				ts[i], ts[j] = ts[j], ts[i]
			}
		}
		return x.mkBytes(ts)
	case ArrayRef:
		return x.flattenOctets(x.heapGet(vv.Obj), little)
	case ArrayV:
		r := x.mkBytes(nil)
		for _, e := range vv.E {
			r = x.concatBytes(r, x.flattenOctets(e, little), false)
		}
		return r
	case StructV:
		r := x.mkBytes(nil)
		for _, e := range vv.F {
			r = x.concatBytes(r, x.flattenOctets(e, little), false)
		}
		return r
	case SliceV:
		return vv
	case *ChoiceV:
		return x.flattenSlice(&ChoiceV{C: vv.C, A: x.flattenOctets(vv.A, little), B: x.flattenOctets(vv.B, little)})
	}
	unsup("binary.Write of %T", v)
	return SliceV{}
}

// unflattenOctets builds a value of type t from the octets of src starting at off; it returns the
// value and the number of octets used.
func (x *Exec) unflattenOctets(src SliceV, off *Term, t types.Type, little bool) (Value, int) {
	switch u := t.Underlying().(type) {
	case *types.Basic:
		s, ok := scalarSort(t)
		if !ok {
			unsup("binary.Read into %s", t)
		}
		if s.K != SBV {
			return Scalar{Not(Eq(x.byteAt(src, off), BVU(0, 8)))}, 1
		}
		n := s.W / 8
		var v *Term
		for i := 0; i < n; i++ {
			b := x.byteAt(src, BvAdd(off, bv64(int64(i))))
			if v == nil {
				v = b
			} else if little {
				v = Concat(b, v)
			} else {
				v = Concat(v, b)
			}
		}
		return Scalar{v}, n
	case *types.Array:
		e := make([]Value, u.Len())
		used := 0
		for i := range e {
			var n int
			e[i], n = x.unflattenOctets(src, BvAdd(off, bv64(int64(used))), u.Elem(), little)
			used += n
		}
		return ArrayV{e}, used
	case *types.Struct:
		f := make([]Value, u.NumFields())
		used := 0
		for i := range f {
			var n int
			f[i], n = x.unflattenOctets(src, BvAdd(off, bv64(int64(used))), u.Field(i).Type(), little)
			used += n
		}
		return StructV{f}, used
	}
	unsup("binary.Read into %s", t)
	return nil, 0
}

// fixedSize is the encoded size of a fixed-size type (-1: not fixed-size).
func fixedSize(t types.Type) int {
	switch u := t.Underlying().(type) {
	case *types.Basic:
		if s, ok := scalarSort(t); ok {
			if s.K != SBV {
				return 1
			}
			return s.W / 8
		}
	case *types.Array:
		n := fixedSize(u.Elem())
		if n < 0 {
			return -1
		}
		return n * int(u.Len())
	case *types.Struct:
		tot := 0
		for i := 0; i < u.NumFields(); i++ {
			n := fixedSize(u.Field(i).Type())
			if n < 0 {
				return -1
			}
			tot += n
		}
		return tot
	}
	return -1
}

// bufferOf resolves an io.Reader / io.Writer / *bytes.Buffer argument to the buffer object.
func (x *Exec) bufferOf(v Value) (PtrV, StructV) {
	if iv, ok := v.(IfaceV); ok {
		v = iv.V
	}
	p, ok := v.(PtrV)
	if !ok || p.Obj == nil {
		unsup("bytes.Buffer operation on %T", v)
	}
	sv, ok := x.snap(x.load(p)).(StructV)
	if !ok || len(sv.F) < 2 {
		unsup("bytes.Buffer with an unexpected representation")
	}
	if _, isU := sv.F[0].(UnknownV); isU {
		unsup("bytes.Buffer whose contents are unknown")
	}
	return p, sv
}

func (x *Exec) setBuffer(p PtrV, buf SliceV, off *Term) {
	x.store(p, StructV{F: []Value{buf, Scalar{off}, Scalar{BVU(0, 8)}}}, True())
}

func isLittle(v Value) bool {
	if iv, ok := v.(IfaceV); ok && iv.Dyn != nil {
		return types.TypeString(iv.Dyn, nil) == "encoding/binary.littleEndian"
	}
	return false
}

// decide tells whether c holds on every / no execution reaching this point; anything else leaves the subset.
func (x *Exec) decide(c *Term, what string) bool {
	c = x.underPC(c)
	if c.IsConst() {
		return c.IsTrue()
	}
	if x.probeValid(c) {
		return true
	}
	if x.probeValid(Not(c)) {
		return false
	}
	unsup("%s is not decided by the preconditions", what)
	return false
}

func init() {
	nilErr := IfaceV{Nil: True(), Tag: "error"}
	extModels["bytes.NewBuffer"] = func(x *Exec, fr *Frame, args []Value, pos token.Pos) Value {
		b := asSlice(args[0])
		o := x.newObject(nil, "bytes.Buffer")
		x.st.heap.m[o] = StructV{F: []Value{b, Scalar{bv64(0)}, Scalar{BVU(0, 8)}}}
		return PtrV{Obj: o, Nil: False()}
	}
	// strconv.Itoa: some string (the code under verification only logs it)
	extModels["strconv.Itoa"] = func(x *Exec, fr *Frame, args []Value, pos token.Pos) Value {
		n := len(x.inputs)
		sv := x.freshSymSlice("itoa", 8, types.Typ[types.Uint8])
		x.inputs = x.inputs[:n]
		sv.Str = true
		return sv
	}
	// bytes.NewReader: the same reading discipline (only reads are modelled)
	extModels["bytes.NewReader"] = func(x *Exec, fr *Frame, args []Value, pos token.Pos) Value {
		b := asSlice(args[0])
		o := x.newObject(nil, "bytes.Reader")
		x.st.heap.m[o] = StructV{F: []Value{b, Scalar{bv64(0)}, Scalar{BVU(0, 8)}}}
		return PtrV{Obj: o, Nil: False()}
	}
	extModels["(*bytes.Reader).Len"] = func(x *Exec, fr *Frame, args []Value, pos token.Pos) Value {
		_, sv := x.bufferOf(args[0])
		return Scalar{BvSub(asSlice(sv.F[0]).Len, term(sv.F[1]))}
	}
	extModels["(*bytes.Buffer).Len"] = func(x *Exec, fr *Frame, args []Value, pos token.Pos) Value {
		_, sv := x.bufferOf(args[0])
		return Scalar{BvSub(asSlice(sv.F[0]).Len, term(sv.F[1]))}
	}
	extModels["(*bytes.Buffer).Bytes"] = func(x *Exec, fr *Frame, args []Value, pos token.Pos) Value {
		_, sv := x.bufferOf(args[0])
		b, off := asSlice(sv.F[0]), term(sv.F[1])
		if b.Obj == nil {
			return b
		}
		return SliceV{Obj: b.Obj, Off: BvAdd(b.Off, off), Len: BvSub(b.Len, off), Cap: BvSub(b.Cap, off), Nil: False()}
	}
	// (*bytes.Buffer).Next(n): the next n unread octets (all that are left if fewer), consumed; a view
	// of the buffer's own storage.
	extModels["(*bytes.Buffer).Next"] = func(x *Exec, fr *Frame, args []Value, pos token.Pos) Value {
		p, sv := x.bufferOf(args[0])
		buf, off := asSlice(sv.F[0]), term(sv.F[1])
		n := Resize(term(args[1]), 64, true)
		rem := BvSub(buf.Len, off)
		if piece, next, ok := x.ropeRead(buf, off, n); ok {
			x.setBuffer(p, buf, next)
			return piece
		}
		take := n
		if !x.decide(BvUle(n, rem), "whether Buffer.Next finds enough octets") {
			take = rem
		}
		if buf.Obj == nil {
			return SliceV{Off: bv64(0), Len: bv64(0), Cap: bv64(0), Nil: False()}
		}
		x.setBuffer(p, buf, BvAdd(off, take))
		return SliceV{Obj: buf.Obj, Off: BvAdd(buf.Off, off), Len: take, Cap: take, Nil: False()}
	}
	extModels["(*bytes.Buffer).Write"] = func(x *Exec, fr *Frame, args []Value, pos token.Pos) Value {
		p, sv := x.bufferOf(args[0])
		d := asSlice(args[1])
		old := asSlice(sv.F[0])
		nb := x.concatBytes(old, d, false)
		x.appendRope(old, d, nb)
		x.setBuffer(p, nb, term(sv.F[1]))
		return TupleV{E: []Value{Scalar{d.Len}, nilErr}}
	}
	extModels["encoding/binary.Write"] = func(x *Exec, fr *Frame, args []Value, pos token.Pos) Value {
		p, sv := x.bufferOf(args[0])
		data, ok := args[2].(IfaceV)
		if !ok || data.V == nil || data.Dyn == nil {
			unsup("binary.Write of a value of unknown dynamic type")
		}
		v := data.V
		if _, isPtr := data.Dyn.Underlying().(*types.Pointer); isPtr {
			v = x.load(v)
		}
		oct := x.flattenOctets(x.snap(v), isLittle(args[1]))
		old := asSlice(sv.F[0])
		nb := x.concatBytes(old, oct, false)
		x.appendRope(old, oct, nb)
		x.setBuffer(p, nb, term(sv.F[1]))
		return nilErr
	}
	extModels["encoding/binary.Read"] = func(x *Exec, fr *Frame, args []Value, pos token.Pos) Value {
		p, sv := x.bufferOf(args[0])
		buf, off := asSlice(sv.F[0]), term(sv.F[1])
		data, ok := args[2].(IfaceV)
		if !ok || data.V == nil || data.Dyn == nil {
			unsup("binary.Read into a value of unknown dynamic type")
		}
		little := isLittle(args[1])
		rem := BvSub(buf.Len, off)
		unread := SliceV{Obj: buf.Obj, Off: BvAdd(buf.Off, off), Len: rem, Cap: rem, Nil: False()}
		fail := func() Value {
			// io.ReadFull consumed what was there; the destination is untouched
			x.setBuffer(p, buf, buf.Len)
			return IfaceV{Nil: False(), Tag: "error"}
		}
		var dst SliceV
		isSlice := false
		switch dt := data.Dyn.Underlying().(type) {
		case *types.Slice:
			dst, isSlice = asSlice(data.V), true
		case *types.Pointer:
			if _, sl := dt.Elem().Underlying().(*types.Slice); sl {
				dst, isSlice = asSlice(x.load(data.V)), true
				break
			}
			n := fixedSize(dt.Elem())
			if n < 0 {
				unsup("binary.Read into %s", data.Dyn)
			}
			if n == 0 {
				return nilErr
			}
			if piece, next, ok := x.ropeRead(buf, off, bv64(int64(n))); ok {
				v, _ := x.unflattenOctets(piece, bv64(0), dt.Elem(), little)
				x.store(data.V, v, True())
				x.setBuffer(p, buf, next)
				return nilErr
			}
			if !x.decide(BvUle(bv64(int64(n)), rem), "whether binary.Read finds enough octets") {
				return fail()
			}
			v, _ := x.unflattenOctets(unread, bv64(0), dt.Elem(), little)
			x.store(data.V, v, True())
			x.setBuffer(p, buf, BvAdd(off, bv64(int64(n))))
			return nilErr
		default:
			unsup("binary.Read into %s", data.Dyn)
		}
		if isSlice {
			if isZero(dst.Len) {
				return nilErr
			}
			if piece, next, ok := x.ropeRead(buf, off, dst.Len); ok {
				x.copyOp(fr, []Value{dst, piece}, pos)
				x.setBuffer(p, buf, next)
				return nilErr
			}
			if !x.decide(BvUle(dst.Len, rem), "whether binary.Read finds enough octets") {
				if !x.decide(Eq(dst.Len, bv64(0)), "whether binary.Read is asked for octets") {
					return fail()
				}
				return nilErr
			}
			src := SliceV{Obj: unread.Obj, Off: unread.Off, Len: dst.Len, Cap: dst.Len, Nil: False()}
			x.copyOp(fr, []Value{dst, src}, pos)
			x.setBuffer(p, buf, BvAdd(off, dst.Len))
			return nilErr
		}
		return nilErr
	}
}
