package main

// Message tables of 3GPP TS 24.501 (Release 15), clauses 8.2 (5GS mobility management) and 8.3 (5GS
// session management), and the message types of tables 9.7.1 / 9.7.2 — transcribed from the
// standard, not from the library.  Only the binding to the library is by name: each row names the Go
// type of the IE (nasType.<name>) so that the generated lemma can read the field it is about.
//
// Row syntax:  <message> <message type> | <mandatory fields after the header> | <optional IEs>
//   mandatory field:  <GoType>:V<n> (value of n octets; two half octets share V1), :LV (one length
//                     octet), :LVE (two length octets)
//   optional IE:      <GoType>:<IEI hex>:TV1 (half octet IEI, one octet in all), :TV<n> (n octets in
//                     all), :TLV (IEI, one length octet), :TLVE (IEI, two length octets)
// The header is implicit: 5GMM = extended protocol discriminator, security header type + spare half
// octet, message type; 5GSM = extended protocol discriminator, PDU session ID, PTI, message type.
// Optional IEs of the standard that this copy of the library does not implement are not listed
// (the property is about what is on the wire).
var ts24501Tables = []string{
	// ---- 8.2 5GMM ----
	"AuthenticationRequest 0x56 | SpareHalfOctetAndNgksi:V1 ABBA:LV | AuthenticationParameterRAND:21:TV17 AuthenticationParameterAUTN:20:TLV EAPMessage:78:TLVE",
	"AuthenticationResponse 0x57 | | AuthenticationResponseParameter:2D:TLV EAPMessage:78:TLVE",
	"AuthenticationResult 0x5a | SpareHalfOctetAndNgksi:V1 EAPMessage:LVE | ABBA:38:TLV",
	"AuthenticationFailure 0x59 | Cause5GMM:V1 | AuthenticationFailureParameter:30:TLV",
	"AuthenticationReject 0x58 | | EAPMessage:78:TLVE",
	"RegistrationRequest 0x41 | NgksiAndRegistrationType5GS:V1 MobileIdentity5GS:LVE | NoncurrentNativeNASKeySetIdentifier:C:TV1 Capability5GMM:10:TLV UESecurityCapability:2E:TLV RequestedNSSAI:2F:TLV LastVisitedRegisteredTAI:52:TV7 S1UENetworkCapability:17:TLV UplinkDataStatus:40:TLV PDUSessionStatus:50:TLV MICOIndication:B:TV1 UEStatus:2B:TLV AdditionalGUTI:77:TLVE AllowedPDUSessionStatus:25:TLV UesUsageSetting:18:TLV RequestedDRXParameters:51:TLV EPSNASMessageContainer:70:TLVE LADNIndication:74:TLVE PayloadContainer:7B:TLVE NetworkSlicingIndication:9:TV1 UpdateType5GS:53:TLV NASMessageContainer:71:TLVE",
	"RegistrationAccept 0x42 | RegistrationResult5GS:LV | GUTI5G:77:TLVE EquivalentPlmns:4A:TLV TAIList:54:TLV AllowedNSSAI:15:TLV RejectedNSSAI:11:TLV ConfiguredNSSAI:31:TLV NetworkFeatureSupport5GS:21:TLV PDUSessionStatus:50:TLV PDUSessionReactivationResult:26:TLV PDUSessionReactivationResultErrorCause:72:TLVE LADNInformation:79:TLVE MICOIndication:B:TV1 NetworkSlicingIndication:9:TV1 ServiceAreaList:27:TLV T3512Value:5E:TLV Non3GppDeregistrationTimerValue:5D:TLV T3502Value:16:TLV EmergencyNumberList:34:TLV ExtendedEmergencyNumberList:7A:TLVE SORTransparentContainer:73:TLVE EAPMessage:78:TLVE NSSAIInclusionMode:A:TV1 OperatordefinedAccessCategoryDefinitions:76:TLVE NegotiatedDRXParameters:51:TLV",
	"RegistrationComplete 0x43 | | SORTransparentContainer:73:TLVE",
	"RegistrationReject 0x44 | Cause5GMM:V1 | T3346Value:5F:TLV T3502Value:16:TLV EAPMessage:78:TLVE",
	"ULNASTransport 0x67 | SpareHalfOctetAndPayloadContainerType:V1 PayloadContainer:LVE | PduSessionID2Value:12:TV2 OldPDUSessionID:59:TV2 RequestType:8:TV1 SNSSAI:22:TLV DNN:25:TLV AdditionalInformation:24:TLV",
	"DLNASTransport 0x68 | SpareHalfOctetAndPayloadContainerType:V1 PayloadContainer:LVE | PduSessionID2Value:12:TV2 AdditionalInformation:24:TLV Cause5GMM:58:TV2 BackoffTimerValue:37:TLV",
	"DeregistrationRequestUEOriginatingDeregistration 0x45 | NgksiAndDeregistrationType:V1 MobileIdentity5GS:LVE |",
	"DeregistrationAcceptUEOriginatingDeregistration 0x46 | |",
	"DeregistrationRequestUETerminatedDeregistration 0x47 | SpareHalfOctetAndDeregistrationType:V1 | Cause5GMM:58:TV2 T3346Value:5F:TLV",
	"DeregistrationAcceptUETerminatedDeregistration 0x48 | |",
	"ServiceRequest 0x4c | ServiceTypeAndNgksi:V1 TMSI5GS:LVE | UplinkDataStatus:40:TLV PDUSessionStatus:50:TLV AllowedPDUSessionStatus:25:TLV NASMessageContainer:71:TLVE",
	"ServiceAccept 0x4e | | PDUSessionStatus:50:TLV PDUSessionReactivationResult:26:TLV PDUSessionReactivationResultErrorCause:72:TLVE EAPMessage:78:TLVE",
	"ServiceReject 0x4d | Cause5GMM:V1 | PDUSessionStatus:50:TLV T3346Value:5F:TLV EAPMessage:78:TLVE",
	"ConfigurationUpdateCommand 0x54 | | ConfigurationUpdateIndication:D:TV1 GUTI5G:77:TLVE TAIList:54:TLV AllowedNSSAI:15:TLV ServiceAreaList:27:TLV FullNameForNetwork:43:TLV ShortNameForNetwork:45:TLV LocalTimeZone:46:TV2 UniversalTimeAndLocalTimeZone:47:TV8 NetworkDaylightSavingTime:49:TLV LADNInformation:79:TLVE MICOIndication:B:TV1 NetworkSlicingIndication:9:TV1 ConfiguredNSSAI:31:TLV RejectedNSSAI:11:TLV OperatordefinedAccessCategoryDefinitions:76:TLVE SMSIndication:F:TV1",
	"ConfigurationUpdateComplete 0x55 | |",
	"IdentityRequest 0x5b | SpareHalfOctetAndIdentityType:V1 |",
	"IdentityResponse 0x5c | MobileIdentity:LVE |",
	"Notification 0x65 | SpareHalfOctetAndAccessType:V1 |",
	"NotificationResponse 0x66 | | PDUSessionStatus:50:TLV",
	"SecurityModeCommand 0x5d | SelectedNASSecurityAlgorithms:V1 SpareHalfOctetAndNgksi:V1 ReplayedUESecurityCapabilities:LV | IMEISVRequest:E:TV1 SelectedEPSNASSecurityAlgorithms:57:TV2 Additional5GSecurityInformation:36:TLV EAPMessage:78:TLVE ABBA:38:TLV ReplayedS1UESecurityCapabilities:19:TLV",
	"SecurityModeComplete 0x5e | | IMEISV:77:TLVE NASMessageContainer:71:TLVE",
	"SecurityModeReject 0x5f | Cause5GMM:V1 |",
	"Status5GMM 0x64 | Cause5GMM:V1 |",
	// ---- 8.3 5GSM ----
	"PDUSessionEstablishmentRequest 0xc1 | IntegrityProtectionMaximumDataRate:V2 | PDUSessionType:9:TV1 SSCMode:A:TV1 Capability5GSM:28:TLV MaximumNumberOfSupportedPacketFilters:55:TV3 AlwaysonPDUSessionRequested:B:TV1 SMPDUDNRequestContainer:39:TLV ExtendedProtocolConfigurationOptions:7B:TLVE",
	"PDUSessionEstablishmentAccept 0xc2 | SelectedSSCModeAndSelectedPDUSessionType:V1 AuthorizedQosRules:LVE SessionAMBR:LV | Cause5GSM:59:TV2 PDUAddress:29:TLV RQTimerValue:56:TV2 SNSSAI:22:TLV AlwaysonPDUSessionIndication:8:TV1 MappedEPSBearerContexts:75:TLVE EAPMessage:78:TLVE AuthorizedQosFlowDescriptions:79:TLVE ExtendedProtocolConfigurationOptions:7B:TLVE DNN:25:TLV",
	"PDUSessionEstablishmentReject 0xc3 | Cause5GSM:V1 | BackoffTimerValue:37:TLV AllowedSSCMode:F:TV1 EAPMessage:78:TLVE ExtendedProtocolConfigurationOptions:7B:TLVE",
	"PDUSessionAuthenticationCommand 0xc5 | EAPMessage:LVE | ExtendedProtocolConfigurationOptions:7B:TLVE",
	"PDUSessionAuthenticationComplete 0xc6 | EAPMessage:LVE | ExtendedProtocolConfigurationOptions:7B:TLVE",
	"PDUSessionAuthenticationResult 0xc7 | | EAPMessage:78:TLVE ExtendedProtocolConfigurationOptions:7B:TLVE",
	"PDUSessionModificationRequest 0xc9 | | Capability5GSM:28:TLV Cause5GSM:59:TV2 MaximumNumberOfSupportedPacketFilters:55:TV3 AlwaysonPDUSessionRequested:B:TV1 IntegrityProtectionMaximumDataRate:13:TV3 RequestedQosRules:7A:TLVE RequestedQosFlowDescriptions:79:TLVE MappedEPSBearerContexts:7F:TLVE ExtendedProtocolConfigurationOptions:7B:TLVE",
	"PDUSessionModificationReject 0xca | Cause5GSM:V1 | BackoffTimerValue:37:TLV ExtendedProtocolConfigurationOptions:7B:TLVE",
	"PDUSessionModificationCommand 0xcb | | Cause5GSM:59:TV2 SessionAMBR:2A:TLV RQTimerValue:56:TV2 AlwaysonPDUSessionIndication:8:TV1 AuthorizedQosRules:7A:TLVE MappedEPSBearerContexts:7F:TLVE AuthorizedQosFlowDescriptions:79:TLVE ExtendedProtocolConfigurationOptions:7B:TLVE",
	"PDUSessionModificationComplete 0xcc | | ExtendedProtocolConfigurationOptions:7B:TLVE",
	"PDUSessionModificationCommandReject 0xcd | Cause5GSM:V1 | ExtendedProtocolConfigurationOptions:7B:TLVE",
	"PDUSessionReleaseRequest 0xd1 | | Cause5GSM:59:TV2 ExtendedProtocolConfigurationOptions:7B:TLVE",
	"PDUSessionReleaseReject 0xd2 | Cause5GSM:V1 | ExtendedProtocolConfigurationOptions:7B:TLVE",
	"PDUSessionReleaseCommand 0xd3 | Cause5GSM:V1 | BackoffTimerValue:37:TLV EAPMessage:78:TLVE ExtendedProtocolConfigurationOptions:7B:TLVE",
	"PDUSessionReleaseComplete 0xd4 | | Cause5GSM:59:TV2 ExtendedProtocolConfigurationOptions:7B:TLVE",
	"Status5GSM 0xd6 | Cause5GSM:V1 |",
}
