package main

// nasgen: mechanical generation of the round-trip lemmas of the NAS message codec (C08).
//
// Input: the type declarations of the copy of the repository under verification, read on every run —
//   - src/free5gclib/nas/nasType/*.go: the IE value types (fields Iei / Len / Octet / Buffer),
//   - src/free5gclib/nas/nasMessage/NAS_*.go: one struct per message (embedded IE types: value =
//     mandatory, pointer = optional), its <Message><IE>Type constants, Encode<Message> /
//     Decode<Message> / New<Message>.
// Output: a lemma file in package nasMessage.  Nothing is taken from the bodies of the Encode /
// Decode functions: the statement of each lemma is the generic one of the property,
//
//	Decode(Encode(m)) = m  and  Encode(Decode(Encode(m))) = Encode(m)   for every well-formed m,
//
// instantiated per message type for (a) no optional IE, (b) each optional IE alone, (c) all
// optional IEs, with every field value, every IE length within the capacity of the IE and every
// content symbolic.  "Well formed" is what the constructors of the library establish: the IEI of an
// optional IE is the constant the message declares for it, Len is the length of Buffer (at most
// what the length field can carry) or at most the capacity of Octet, octets of Octet beyond Len are
// zero, and what is not transmitted (the IEI of a mandatory IE) is zero.

import (
	"fmt"
	"regexp"
	"go/ast"
	"go/parser"
	"go/token"
	"os"
	"path/filepath"
	"sort"
	"strconv"
	"strings"
)

type nasIEType struct {
	Name     string
	HasIei   bool
	LenBits  int // 0: no Len field
	OctetN   int // 0: no Octet; -1: scalar uint8; >0: [N]uint8
	HasBuf   bool
	Other    bool // fields the generator does not know
}

type nasMsgField struct {
	Type     string
	Optional bool
}

type nasMsg struct {
	Name   string
	Fields []nasMsgField
	File   string
	params, args []string
	opts         []int
	done         bool
}

func parseNasTypes(dir string) (map[string]*nasIEType, error) {
	fset := token.NewFileSet()
	out := map[string]*nasIEType{}
	files, _ := filepath.Glob(filepath.Join(dir, "*.go"))
	for _, fn := range files {
		if strings.HasSuffix(fn, "_test.go") || strings.HasPrefix(filepath.Base(fn), "zz_") {
			continue
		}
		f, err := parser.ParseFile(fset, fn, nil, 0)
		if err != nil {
			return nil, err
		}
		for _, d := range f.Decls {
			gd, ok := d.(*ast.GenDecl)
			if !ok || gd.Tok != token.TYPE {
				continue
			}
			for _, s := range gd.Specs {
				ts := s.(*ast.TypeSpec)
				st, ok := ts.Type.(*ast.StructType)
				if !ok {
					continue
				}
				t := &nasIEType{Name: ts.Name.Name}
				for _, fl := range st.Fields.List {
					for _, n := range fl.Names {
						ty := exprStr(fset, fl.Type)
						switch {
						case n.Name == "Iei" && ty == "uint8":
							t.HasIei = true
						case n.Name == "Len" && ty == "uint8":
							t.LenBits = 8
						case n.Name == "Len" && ty == "uint16":
							t.LenBits = 16
						case n.Name == "Octet" && ty == "uint8":
							t.OctetN = -1
						case n.Name == "Octet" && strings.HasPrefix(ty, "[") && strings.HasSuffix(ty, "]uint8"):
							k, err := strconv.Atoi(ty[1:strings.Index(ty, "]")])
							if err != nil {
								t.Other = true
							}
							t.OctetN = k
						case n.Name == "Buffer" && ty == "[]uint8":
							t.HasBuf = true
						default:
							t.Other = true
						}
					}
					if len(fl.Names) == 0 {
						t.Other = true
					}
				}
				out[t.Name] = t
			}
		}
	}
	return out, nil
}

func parseNasMessages(dir string) ([]*nasMsg, map[string]bool, map[string]bool, error) {
	fset := token.NewFileSet()
	var msgs []*nasMsg
	consts := map[string]bool{}
	funcs := map[string]bool{}
	files, _ := filepath.Glob(filepath.Join(dir, "NAS_*.go"))
	sort.Strings(files)
	for _, fn := range files {
		if strings.HasSuffix(fn, "_test.go") {
			continue
		}
		f, err := parser.ParseFile(fset, fn, nil, 0)
		if err != nil {
			return nil, nil, nil, err
		}
		for _, d := range f.Decls {
			switch dd := d.(type) {
			case *ast.FuncDecl:
				funcs[dd.Name.Name] = true
			case *ast.GenDecl:
				for _, s := range dd.Specs {
					switch ss := s.(type) {
					case *ast.ValueSpec:
						for _, n := range ss.Names {
							consts[n.Name] = true
						}
					case *ast.TypeSpec:
						st, ok := ss.Type.(*ast.StructType)
						if !ok {
							continue
						}
						m := &nasMsg{Name: ss.Name.Name, File: filepath.Base(fn)}
						okMsg := true
						for _, fl := range st.Fields.List {
							if len(fl.Names) != 0 {
								okMsg = false
								break
							}
							ty := exprStr(fset, fl.Type)
							opt := strings.HasPrefix(ty, "*")
							ty = strings.TrimPrefix(ty, "*")
							if !strings.HasPrefix(ty, "nasType.") {
								okMsg = false
								break
							}
							m.Fields = append(m.Fields, nasMsgField{Type: strings.TrimPrefix(ty, "nasType."), Optional: opt})
						}
						if okMsg && len(m.Fields) > 0 {
							msgs = append(msgs, m)
						}
					}
				}
			}
		}
	}
	return msgs, consts, funcs, nil
}

// genNasLemmas writes the lemma file; it returns the messages it could not cover (with the reason).
func genNasLemmas(repo string, out string) ([]string, error) {
	types, err := parseNasTypes(filepath.Join(repo, "src/free5gclib/nas/nasType"))
	if err != nil {
		return nil, err
	}
	msgs, consts, funcs, err := parseNasMessages(filepath.Join(repo, "src/free5gclib/nas/nasMessage"))
	if err != nil {
		return nil, err
	}
	var b strings.Builder
	b.WriteString("//go:build verif\n\n// Code generated by govc (nasgen) from the type declarations of nasType and nasMessage. DO NOT EDIT.\n\npackage nasMessage\n\nimport (\n\t\"bytes\"\n\n\t\"free5gclib/nas/nasType\"\n\n\t\"vspec/vc\"\n)\n\nvar _ = nasType.NewEAPMessage\nvar _ = vc.Imp\n\n")
	b.WriteString("func vcSameOctets(a, b []byte) bool {\n\treturn len(a) == len(b) && vc.Forall(0, len(a), func(j int) bool { return a[j] == b[j] })\n}\n\n")
	var skipped []string
	for _, m := range msgs {
		reason := ""
		if !funcs["Encode"+m.Name] || !funcs["Decode"+m.Name] || !funcs["New"+m.Name] {
			reason = "no Encode/Decode/New function"
		}
		for _, f := range m.Fields {
			t := types[f.Type]
			if t == nil {
				reason = "unknown IE type " + f.Type
			} else if t.Other || (t.OctetN == 0 && !t.HasBuf) || (t.HasBuf && t.LenBits == 0) || (t.HasBuf && t.OctetN != 0) {
				reason = "IE type " + f.Type + " has a shape the generator does not know"
			} else if f.Optional && !consts[m.Name+f.Type+"Type"] {
				reason = "no constant " + m.Name + f.Type + "Type"
			} else if f.Optional && !t.HasIei && t.OctetN != -1 {
				reason = "optional IE " + f.Type + " without IEI field"
			}
		}
		if reason != "" {
			skipped = append(skipped, m.Name+": "+reason)
			continue
		}
		genNasMessage(&b, m, types)
	}
	if err := genNasLayout(&b, msgs, types); err != nil {
		return nil, err
	}
	if err := os.WriteFile(out, []byte(b.String()), 0o644); err != nil {
		return nil, err
	}
	covered := map[string]*nasMsg{}
	for _, m := range msgs {
		if m.params != nil || m.done {
			covered[m.Name] = m
		}
	}
	more, err := genNasDispatch(repo, covered, types)
	if err != nil {
		return nil, err
	}
	if err := genNasAccessors(repo); err != nil {
		return nil, err
	}
	return append(skipped, more...), nil
}

// genNasDispatch writes, in package nas, one lemma per message of GmmMessage / GsmMessage: the
// message wrapped in a nas.Message with its message type survives PlainNasEncode / PlainNasDecode
// (the type dispatch of both directions selects the codec of that message).
func genNasDispatch(repo string, covered map[string]*nasMsg, types map[string]*nasIEType) ([]string, error) {
	fset := token.NewFileSet()
	fn := filepath.Join(repo, "src/free5gclib/nas/nas.go")
	f, err := parser.ParseFile(fset, fn, nil, 0)
	if err != nil {
		return nil, err
	}
	consts := map[string]bool{}
	groups := map[string][]string{}
	for _, d := range f.Decls {
		gd, ok := d.(*ast.GenDecl)
		if !ok {
			continue
		}
		for _, s := range gd.Specs {
			switch ss := s.(type) {
			case *ast.ValueSpec:
				for _, n := range ss.Names {
					consts[n.Name] = true
				}
			case *ast.TypeSpec:
				st, ok := ss.Type.(*ast.StructType)
				if !ok || (ss.Name.Name != "GmmMessage" && ss.Name.Name != "GsmMessage") {
					continue
				}
				for _, fl := range st.Fields.List {
					ty := exprStr(fset, fl.Type)
					if len(fl.Names) == 0 && strings.HasPrefix(ty, "*nasMessage.") {
						groups[ss.Name.Name] = append(groups[ss.Name.Name], strings.TrimPrefix(ty, "*nasMessage."))
					}
				}
			}
		}
	}
	var b strings.Builder
	var skipped []string
	b.WriteString("//go:build verif\n\n// Code generated by govc (nasgen) from the declarations of nas.go and nasMessage. DO NOT EDIT.\n\npackage nas\n\nimport (\n\t\"free5gclib/nas/nasMessage\"\n\n\t\"vspec/vc\"\n)\n\nvar _ = vc.Imp\n\n")
	for _, grp := range []string{"GmmMessage", "GsmMessage"} {
		for _, name := range groups[grp] {
			m := covered[name]
			if m == nil {
				if name != "SecurityProtected5GSNASMessage" {
					skipped = append(skipped, name+": member of "+grp+" without generated builder")
				}
				continue
			}
			if !consts["MsgType"+name] {
				skipped = append(skipped, name+": no constant MsgType"+name)
				continue
			}
			ident := ""
			for _, fl := range m.Fields {
				if strings.Contains(fl.Type, "MessageIdentity") {
					ident = fl.Type
				}
			}
			if ident == "" {
				skipped = append(skipped, name+": no message identity field")
				continue
			}
			var flags []string
			for range m.opts {
				flags = append(flags, "false")
			}
			epd, hdr, idx := "0x7e", "GmmHeader", 2
			if grp == "GsmMessage" {
				epd, hdr, idx = "0x2e", "GsmHeader", 3
			}
			fmt.Fprintf(&b, "// prop: C08\n// inline: *\nfunc vcLemma_dispatch_%s(%s) {\n", name, strings.Join(m.params, ", "))
			fmt.Fprintf(&b, "\ta := nasMessage.VcBuild_%s(%s)\n", name, strings.Join(append(flags, m.args...), ", "))
			fmt.Fprintf(&b, "\tvc.Assume(a.ExtendedProtocolDiscriminator.Octet == %s && a.%s.Octet == MsgType%s)\n", epd, ident, name)
			fmt.Fprintf(&b, "\tm := NewMessage()\n\tm.%s = New%s()\n\tm.%s.%s.SetMessageType(MsgType%s)\n\tm.%s.%s = a\n", grp, grp, grp, hdr, name, grp, name)
			fmt.Fprintf(&b, "\twire, err := m.PlainNasEncode()\n\tvc.Assert(\"encodes\", err == nil && len(wire) > %d && wire[0] == %s && wire[%d] == MsgType%s)\n", idx, epd, idx, name)
			fmt.Fprintf(&b, "\tr := NewMessage()\n\terr = r.PlainNasDecode(&wire)\n\tvc.Assert(\"decodes\", err == nil && r.%s != nil && r.%s.%s.GetMessageType() == MsgType%s)\n", grp, grp, hdr, name)
			fmt.Fprintf(&b, "\tvc.Assert(\"same\", r.%s != nil && nasMessage.VcSame_%s(a, r.%s.%s))\n}\n\n", grp, name, grp, name)
		}
	}
	return skipped, os.WriteFile(filepath.Join(repo, "src/free5gclib/nas/zz_verif_lemma_generated_c08.go"), []byte(b.String()), 0o644)
}

func genNasMessage(b *strings.Builder, m *nasMsg, types map[string]*nasIEType) {
	var params []string // declarations
	var args []string   // names
	var opts []int      // indices of optional fields
	for i, f := range m.Fields {
		t := types[f.Type]
		p := "p" + strconv.Itoa(i)
		if t.OctetN == -1 {
			params = append(params, p+"o uint8")
			args = append(args, p+"o")
		}
		if t.OctetN > 0 {
			params = append(params, fmt.Sprintf("%so [%d]uint8", p, t.OctetN))
			args = append(args, p+"o")
		}
		if t.LenBits > 0 {
			params = append(params, fmt.Sprintf("%sl uint%d", p, t.LenBits))
			args = append(args, p+"l")
		}
		if t.HasBuf {
			params = append(params, p+"b []byte")
			args = append(args, p+"b")
		}
		if f.Optional {
			opts = append(opts, i)
		}
	}
	m.params, m.args, m.opts, m.done = params, args, opts, true
	var has []string
	var hasNames []string
	for _, i := range opts {
		has = append(has, fmt.Sprintf("has%d bool", i))
		hasNames = append(hasNames, fmt.Sprintf("has%d", i))
	}
	// the builder: a well-formed message from field values, lengths and contents
	fmt.Fprintf(b, "// %s (%s): %d fields, %d optional\nfunc VcBuild_%s(%s) *%s {\n", m.Name, m.File, len(m.Fields), len(opts), m.Name, strings.Join(append(has, params...), ", "), m.Name)
	fmt.Fprintf(b, "\ta := New%s(0)\n", m.Name)
	for i, f := range m.Fields {
		t := types[f.Type]
		p := "p" + strconv.Itoa(i)
		ind := "\t"
		if f.Optional {
			fmt.Fprintf(b, "\tif has%d {\n", i)
			ind = "\t\t"
			fmt.Fprintf(b, "%sa.%s = nasType.New%s(%s%sType)\n", ind, f.Type, f.Type, m.Name, f.Type)
		}
		x := "a." + f.Type
		switch {
		case t.HasBuf:
			// any length the length field can carry, any contents
			fmt.Fprintf(b, "%svc.Assume(len(%sb) == int(%sl))\n", ind, p, p)
			fmt.Fprintf(b, "%s%s.SetLen(%sl)\n", ind, x, p)
			fmt.Fprintf(b, "%scopy(%s.Buffer, %sb)\n", ind, x, p)
		case t.OctetN == -1 && f.Optional && !t.HasIei:
			// half-octet IE: the IEI is the high nibble of the octet (set by the constructor), the value the low one
			fmt.Fprintf(b, "%s%s.Octet = %s.Octet&0xf0 | %so&0x0f\n", ind, x, x, p)
		case t.OctetN == -1:
			fmt.Fprintf(b, "%s%s.Octet = %so\n", ind, x, p)
			if t.LenBits > 0 {
				fmt.Fprintf(b, "%s%s.Len = %sl\n", ind, x, p)
			}
		case t.OctetN > 0 && t.LenBits == 0:
			fmt.Fprintf(b, "%s%s.Octet = %so\n", ind, x, p)
			if used := tsValueOctets(m.Name, f.Type, f.Optional); used > 0 && used < t.OctetN {
				// the array is larger than the IE of the standard: the octets that are not part of the IE are zero
				fmt.Fprintf(b, "%sfor j := %d; j < %d; j++ {\n%s\t%s.Octet[j] = 0\n%s}\n", ind, used, t.OctetN, ind, x, ind)
			}
		case t.OctetN > 0:
			// length within the capacity; octets beyond the length are zero
			fmt.Fprintf(b, "%svc.Assume(int(%sl) <= %d)\n", ind, p, t.OctetN)
			fmt.Fprintf(b, "%s%s.Len = %sl\n", ind, x, p)
			fmt.Fprintf(b, "%scopy(%s.Octet[:%sl], %so[:%sl])\n", ind, x, p, p, p)
		}
		if f.Optional {
			b.WriteString("\t}\n")
		}
	}
	b.WriteString("\treturn a\n}\n\n")
	// field-wise equality (as a predicate, for the lemmas of package nas) and as labelled assertions
	fieldEq := func(f nasMsgField) string {
		t := types[f.Type]
		x, y := "a."+f.Type, "d."+f.Type
		var eq []string
		if t.HasIei {
			eq = append(eq, fmt.Sprintf("%s.Iei == %s.Iei", y, x))
		}
		if t.LenBits > 0 {
			eq = append(eq, fmt.Sprintf("%s.Len == %s.Len", y, x))
		}
		if t.OctetN != 0 {
			eq = append(eq, fmt.Sprintf("%s.Octet == %s.Octet", y, x))
		}
		if t.HasBuf {
			eq = append(eq, fmt.Sprintf("vcSameOctets(%s.Buffer, %s.Buffer)", y, x))
		}
		return strings.Join(eq, " && ")
	}
	fmt.Fprintf(b, "func VcSame_%s(a, d *%s) bool {\n\tif a == nil || d == nil {\n\t\treturn false\n\t}\n", m.Name, m.Name)
	for _, f := range m.Fields {
		if f.Optional {
			fmt.Fprintf(b, "\tif (a.%s == nil) != (d.%s == nil) {\n\t\treturn false\n\t}\n\tif a.%s != nil && !(%s) {\n\t\treturn false\n\t}\n", f.Type, f.Type, f.Type, fieldEq(f))
		} else {
			fmt.Fprintf(b, "\tif !(%s) {\n\t\treturn false\n\t}\n", fieldEq(f))
		}
	}
	b.WriteString("\treturn true\n}\n\n")
	fmt.Fprintf(b, "func vcAssertSame_%s(a, d *%s) {\n", m.Name, m.Name)
	for _, f := range m.Fields {
		x, y := "a."+f.Type, "d."+f.Type
		if f.Optional {
			fmt.Fprintf(b, "\tvc.Assert(%q, (%s == nil) == (%s == nil))\n", f.Type+".presence", y, x)
			fmt.Fprintf(b, "\tif %s != nil && %s != nil {\n\t\tvc.Assert(%q, %s)\n\t}\n", x, y, f.Type, fieldEq(f))
		} else {
			fmt.Fprintf(b, "\tvc.Assert(%q, %s)\n", f.Type, fieldEq(f))
		}
	}
	b.WriteString("}\n\n")
	// the round trip
	fmt.Fprintf(b, "func vcRT_%s(%s) {\n", m.Name, strings.Join(append(has, params...), ", "))
	fmt.Fprintf(b, "\ta := VcBuild_%s(%s)\n", m.Name, strings.Join(append(hasNames, args...), ", "))
	fmt.Fprintf(b, "\tbuf := new(bytes.Buffer)\n\ta.Encode%s(buf)\n\twire := buf.Bytes()\n", m.Name)
	fmt.Fprintf(b, "\td := New%s(0)\n\td.Decode%s(&wire)\n\tvcAssertSame_%s(a, d)\n", m.Name, m.Name, m.Name)
	fmt.Fprintf(b, "\tbuf2 := new(bytes.Buffer)\n\td.Encode%s(buf2)\n\tvc.Assert(\"reencode\", vcSameOctets(buf2.Bytes(), wire))\n}\n\n", m.Name)
	call := func(flags func(i int) string) string {
		var a []string
		for _, i := range opts {
			a = append(a, flags(i))
		}
		return fmt.Sprintf("\tvcRT_%s(%s)\n", m.Name, strings.Join(append(a, args...), ", "))
	}
	ps := strings.Join(params, ", ")
	fmt.Fprintf(b, "// prop: C08\nfunc vcLemma_rt_%s_none(%s) {\n%s}\n\n", m.Name, ps, call(func(int) string { return "false" }))
	for _, k := range opts {
		kk := k
		fmt.Fprintf(b, "// prop: C08\nfunc vcLemma_rt_%s_only_%s(%s) {\n%s}\n\n", m.Name, m.Fields[k].Type, ps, call(func(i int) string {
			if i == kk {
				return "true"
			}
			return "false"
		}))
	}
	if len(opts) > 1 {
		fmt.Fprintf(b, "// prop: C08\nfunc vcLemma_rt_%s_all(%s) {\n%s}\n\n", m.Name, ps, call(func(int) string { return "true" }))
	}
	// boundary lengths of the IEs kept in a fixed array: the capacity of the array, and zero (everything concrete but the contents)
	for _, k := range opts {
		t := types[m.Fields[k].Type]
		if t.OctetN <= 0 || t.LenBits == 0 {
			continue
		}
		for _, ln := range []int{t.OctetN, 0} {
			var a []string
			for _, i := range opts {
				if i == k {
					a = append(a, "true")
				} else {
					a = append(a, "false")
				}
			}
			var as []string
			for _, nm := range args {
				if nm == fmt.Sprintf("p%dl", k) {
					as = append(as, strconv.Itoa(ln))
				} else {
					as = append(as, nm)
				}
			}
			var ps3 []string
			for _, pd := range params {
				if !strings.HasPrefix(pd, fmt.Sprintf("p%dl ", k)) {
					ps3 = append(ps3, pd)
				}
			}
			fmt.Fprintf(b, "// prop: C08\nfunc vcLemma_rt_%s_only_%s_len%d(%s) {\n\tvcRT_%s(%s)\n}\n\n", m.Name, m.Fields[k].Type, ln, strings.Join(ps3, ", "), m.Name, strings.Join(append(a, as...), ", "))
		}
	}
	// every subset of the optional IEs (thorough tier; up to 10 optional IEs): the subset is the split parameter
	if len(opts) > 1 && len(opts) <= 10 {
		fmt.Fprintf(b, "// prop: C08\n// tier: thorough\n// split: subset 0..%d\nfunc vcLemma_rt_%s_subset(subset int, %s) {\n%s}\n\n", (1<<uint(len(opts)))-1, m.Name, ps,
			func() string {
				var a []string
				for j := range opts {
					a = append(a, fmt.Sprintf("subset>>%d&1 == 1", j))
				}
				return fmt.Sprintf("\tvcRT_%s(%s)\n", m.Name, strings.Join(append(a, args...), ", "))
			}())
	}
	// optional IEs arriving in the reverse of the canonical order: lengths fixed (2 octets of contents, the capacity
	// if smaller), contents and field values symbolic.  The octets of IE k are those Encode appends for it alone.
	if len(opts) > 1 {
		var fixed []string // arguments with fixed lengths
		for i, f := range m.Fields {
			t := types[f.Type]
			p := "p" + strconv.Itoa(i)
			if t.OctetN != 0 {
				fixed = append(fixed, p+"o")
			}
			if t.LenBits > 0 {
				n := 2
				if t.OctetN > 0 && t.OctetN < n {
					n = t.OctetN
				}
				if t.OctetN == -1 {
					fixed = append(fixed, p+"l")
				} else {
					fixed = append(fixed, strconv.Itoa(n))
				}
			}
			if t.HasBuf {
				fixed = append(fixed, p+"b")
			}
		}
		var ps2 []string
		for i, f := range m.Fields {
			t := types[f.Type]
			p := "p" + strconv.Itoa(i)
			if t.OctetN == -1 {
				ps2 = append(ps2, p+"o uint8")
			}
			if t.OctetN > 0 {
				ps2 = append(ps2, fmt.Sprintf("%so [%d]uint8", p, t.OctetN))
			}
			if t.LenBits > 0 && t.OctetN == -1 {
				ps2 = append(ps2, fmt.Sprintf("%sl uint%d", p, t.LenBits))
			}
			if t.HasBuf {
				ps2 = append(ps2, p+"b []byte")
			}
		}
		mk := func(flags func(i int) string) string {
			var a []string
			for _, i := range opts {
				a = append(a, flags(i))
			}
			return fmt.Sprintf("VcBuild_%s(%s)", m.Name, strings.Join(append(a, fixed...), ", "))
		}
		var shapes []string
		for i, f := range m.Fields {
			if types[f.Type].HasBuf {
				shapes = append(shapes, fmt.Sprintf("p%db 2", i))
			}
		}
		shapeLine := ""
		if len(shapes) > 0 {
			shapeLine = "// shape: " + strings.Join(shapes, " ") + "\n"
		}
		fmt.Fprintf(b, "// prop: C08\n%sfunc vcLemma_rt_%s_reversed(%s) {\n", shapeLine, m.Name, strings.Join(ps2, ", "))
		fmt.Fprintf(b, "\tb0 := new(bytes.Buffer)\n\t%s.Encode%s(b0)\n\twire := append([]byte(nil), b0.Bytes()...)\n\tn0 := len(wire)\n", mk(func(int) string { return "false" }), m.Name)
		for j := len(opts) - 1; j >= 0; j-- {
			kk := opts[j]
			fmt.Fprintf(b, "\t{\n\t\tbk := new(bytes.Buffer)\n\t\t%s.Encode%s(bk)\n\t\twire = append(wire, bk.Bytes()[n0:]...)\n\t}\n", mk(func(i int) string {
				if i == kk {
					return "true"
				}
				return "false"
			}), m.Name)
		}
		fmt.Fprintf(b, "\ta := %s\n\td := New%s(0)\n\td.Decode%s(&wire)\n\tvcAssertSame_%s(a, d)\n}\n\n", mk(func(int) string { return "true" }), m.Name, m.Name, m.Name)
	}
}

// ---------------- C09: layout against the tables of TS 24.501 ----------------

type tsField struct {
	GoType string
	Format string // V, LV, LVE / TV1, TV, TLV, TLVE
	N      int    // V<n>: octets; TV<n>: octets in all
	IEI    int
}

type tsMsg struct {
	Name    string
	MsgType int
	Mand    []tsField
	Opt     []tsField
}

func parseTsTables() (map[string]*tsMsg, error) {
	out := map[string]*tsMsg{}
	for _, row := range ts24501Tables {
		parts := strings.Split(row, "|")
		if len(parts) != 3 {
			return nil, fmt.Errorf("bad table row %q", row)
		}
		hd := strings.Fields(parts[0])
		if len(hd) != 2 {
			return nil, fmt.Errorf("bad table row head %q", row)
		}
		mt, err := strconv.ParseInt(strings.TrimPrefix(hd[1], "0x"), 16, 32)
		if err != nil {
			return nil, err
		}
		m := &tsMsg{Name: hd[0], MsgType: int(mt)}
		for _, f := range strings.Fields(parts[1]) {
			q := strings.Split(f, ":")
			if len(q) != 2 {
				return nil, fmt.Errorf("bad mandatory field %q in %s", f, m.Name)
			}
			tf := tsField{GoType: q[0]}
			switch {
			case q[1] == "LV" || q[1] == "LVE":
				tf.Format = q[1]
			case strings.HasPrefix(q[1], "V"):
				tf.Format = "V"
				tf.N, _ = strconv.Atoi(q[1][1:])
			default:
				return nil, fmt.Errorf("bad format %q in %s", f, m.Name)
			}
			m.Mand = append(m.Mand, tf)
		}
		for _, f := range strings.Fields(parts[2]) {
			q := strings.Split(f, ":")
			if len(q) != 3 {
				return nil, fmt.Errorf("bad optional IE %q in %s", f, m.Name)
			}
			iei, err := strconv.ParseInt(q[1], 16, 32)
			if err != nil {
				return nil, err
			}
			tf := tsField{GoType: q[0], IEI: int(iei)}
			switch {
			case q[2] == "TLV" || q[2] == "TLVE" || q[2] == "TV1":
				tf.Format = q[2]
			case strings.HasPrefix(q[2], "TV"):
				tf.Format = "TV"
				tf.N, _ = strconv.Atoi(q[2][2:])
			default:
				return nil, fmt.Errorf("bad format %q in %s", f, m.Name)
			}
			m.Opt = append(m.Opt, tf)
		}
		out[m.Name] = m
	}
	return out, nil
}

// nasLayoutFindings: disagreements between the declarations and the tables that need no solver
// (an IE of the library missing in the table, a table row without field, a shape that cannot carry
// the tabulated format).  Each is reported as a failed structural obligation of C09.
var nasLayoutFindings []string
var nasLayoutCovered int

func genNasLayout(b *strings.Builder, msgs []*nasMsg, types map[string]*nasIEType) error {
	tabs, err := parseTsTables()
	if err != nil {
		return err
	}
	nasLayoutFindings = nil
	nasLayoutCovered = 0
	for _, m := range msgs {
		if !m.done {
			continue
		}
		tm := tabs[m.Name]
		if tm == nil {
			nasLayoutFindings = append(nasLayoutFindings, m.Name+": no row in the transcription of TS 24.501 clause 8")
			continue
		}
		// header
		var mand, opt []nasMsgField
		for _, f := range m.Fields {
			if f.Optional {
				opt = append(opt, f)
			} else {
				mand = append(mand, f)
			}
		}
		gsm := tm.MsgType >= 0xc0
		hdr := 3
		if gsm {
			hdr = 4
		}
		if len(mand) < hdr {
			nasLayoutFindings = append(nasLayoutFindings, m.Name+": fewer mandatory fields than the header has")
			continue
		}
		okMsg := true
		wantHdr := []string{"ExtendedProtocolDiscriminator", "SpareHalfOctetAndSecurityHeaderType"}
		if gsm {
			wantHdr = []string{"ExtendedProtocolDiscriminator", "PDUSessionID", "PTI"}
		}
		for i, w := range wantHdr {
			if mand[i].Type != w {
				nasLayoutFindings = append(nasLayoutFindings, fmt.Sprintf("%s: header field %d is %s, the standard has %s", m.Name, i+1, mand[i].Type, w))
				okMsg = false
			}
		}
		if !strings.HasSuffix(mand[hdr-1].Type, "MessageIdentity") && !strings.Contains(mand[hdr-1].Type, "MessageIdentity") {
			nasLayoutFindings = append(nasLayoutFindings, fmt.Sprintf("%s: header field %d is %s, the standard has the message type", m.Name, hdr, mand[hdr-1].Type))
			okMsg = false
		}
		rest := mand[hdr:]
		if len(rest) != len(tm.Mand) {
			nasLayoutFindings = append(nasLayoutFindings, fmt.Sprintf("%s: %d mandatory fields after the header, table 8 has %d", m.Name, len(rest), len(tm.Mand)))
			okMsg = false
		}
		if !okMsg {
			continue
		}
		for i, f := range rest {
			if f.Type != tm.Mand[i].GoType {
				nasLayoutFindings = append(nasLayoutFindings, fmt.Sprintf("%s: mandatory field %d is %s, the table has %s", m.Name, i+1, f.Type, tm.Mand[i].GoType))
				okMsg = false
			}
		}
		optByType := map[string]tsField{}
		for _, o := range tm.Opt {
			optByType[o.GoType] = o
		}
		for _, f := range opt {
			if _, ok := optByType[f.Type]; !ok {
				nasLayoutFindings = append(nasLayoutFindings, fmt.Sprintf("%s: optional IE %s is not in the table of the message", m.Name, f.Type))
				okMsg = false
			}
		}
		have := map[string]bool{}
		for _, f := range opt {
			have[f.Type] = true
		}
		for _, o := range tm.Opt {
			if !have[o.GoType] {
				nasLayoutFindings = append(nasLayoutFindings, fmt.Sprintf("%s: table row %s (IEI %X) has no field in the library's message", m.Name, o.GoType, o.IEI))
				okMsg = false
			}
		}
		if !okMsg {
			continue
		}
		nasLayoutCovered++
		var flagsNone []string
		for range m.opts {
			flagsNone = append(flagsNone, "false")
		}
		build := func(flags []string) string {
			return fmt.Sprintf("VcBuild_%s(%s)", m.Name, strings.Join(append(append([]string{}, flags...), m.args...), ", "))
		}
		// mandatory part
		fmt.Fprintf(b, "// %s: message type %#x; layout of the mandatory part (TS 24.501 table for the message)\n// prop: C09\nfunc vcLemma_layout_%s_mandatory(%s) {\n", m.Name, tm.MsgType, m.Name, strings.Join(m.params, ", "))
		fmt.Fprintf(b, "\ta := %s\n\tbuf := new(bytes.Buffer)\n\ta.Encode%s(buf)\n\tw := buf.Bytes()\n\toff := 0\n", build(flagsNone), m.Name)
		for i := 0; i < hdr; i++ {
			fmt.Fprintf(b, "\tvc.Assert(%q, len(w) > off && w[off] == a.%s.Octet)\n\toff++\n", "header."+mand[i].Type, mand[i].Type)
		}
		for i, f := range rest {
			t := types[f.Type]
			tf := tm.Mand[i]
			lbl := "field." + f.Type
			switch tf.Format {
			case "V":
				if tf.N == 1 && t.OctetN == -1 && t.LenBits == 0 {
					fmt.Fprintf(b, "\tvc.Assert(%q, len(w) > off && w[off] == a.%s.Octet)\n\toff++\n", lbl, f.Type)
				} else if t.OctetN == tf.N && t.LenBits == 0 {
					fmt.Fprintf(b, "\tvc.Assert(%q, len(w) >= off+%d && vc.Forall(0, %d, func(j int) bool { return w[off+j] == a.%s.Octet[j] }))\n\toff += %d\n", lbl, tf.N, tf.N, f.Type, tf.N)
				} else {
					nasLayoutFindings = append(nasLayoutFindings, fmt.Sprintf("%s: %s cannot carry format V%d", m.Name, f.Type, tf.N))
				}
			case "LV", "LVE":
				lw := 1
				if tf.Format == "LVE" {
					lw = 2
				}
				if t.LenBits != 8*lw {
					nasLayoutFindings = append(nasLayoutFindings, fmt.Sprintf("%s: %s cannot carry format %s (length field of %d bits)", m.Name, f.Type, tf.Format, t.LenBits))
					continue
				}
				if !t.HasBuf {
					// the value is kept in a fixed array (or one octet): the length field, then the octets the
					// length announces; an IE that is not the last one must have exactly its announced length
					if lw == 1 {
						fmt.Fprintf(b, "\tvc.Assert(%q, len(w) > off && w[off] == a.%s.Len)\n\toff++\n", lbl+".length", f.Type)
					} else {
						fmt.Fprintf(b, "\tvc.Assert(%q, len(w) > off+1 && uint16(w[off])<<8|uint16(w[off+1]) == a.%s.Len)\n\toff += 2\n", lbl+".length", f.Type)
					}
					if t.OctetN == -1 {
						fmt.Fprintf(b, "\tvc.Assert(%q, len(w) > off && w[off] == a.%s.Octet)\n\toff++\n", lbl+".value", f.Type)
					} else {
						fmt.Fprintf(b, "\tvc.Assert(%q, len(w) >= off+int(a.%s.Len) && vc.Forall(0, int(a.%s.Len), func(j int) bool { return w[off+j] == a.%s.Octet[j] }))\n", lbl+".value", f.Type, f.Type, f.Type)
						fmt.Fprintf(b, "\tif len(w) == off+%d {\n\t\toff += %d\n\t} else {\n\t\toff += int(a.%s.Len)\n\t}\n", t.OctetN, t.OctetN, f.Type)
					}
					continue
				}
				if lw == 1 {
					fmt.Fprintf(b, "\tvc.Assert(%q, len(w) > off && w[off] == a.%s.Len)\n\toff++\n", lbl+".length", f.Type)
				} else {
					fmt.Fprintf(b, "\tvc.Assert(%q, len(w) > off+1 && uint16(w[off])<<8|uint16(w[off+1]) == a.%s.Len)\n\toff += 2\n", lbl+".length", f.Type)
				}
				fmt.Fprintf(b, "\tvc.Assert(%q, len(w) >= off+len(a.%s.Buffer) && vc.Forall(0, len(a.%s.Buffer), func(j int) bool { return w[off+j] == a.%s.Buffer[j] }))\n\toff += len(a.%s.Buffer)\n", lbl+".value", f.Type, f.Type, f.Type, f.Type)
			}
		}
		fmt.Fprintf(b, "\tvc.Assert(\"end\", len(w) == off)\n}\n\n")
		// each optional IE
		for _, k := range m.opts {
			f := m.Fields[k]
			t := types[f.Type]
			tf := optByType[f.Type]
			var flags []string
			for _, i := range m.opts {
				if i == k {
					flags = append(flags, "true")
				} else {
					flags = append(flags, "false")
				}
			}
			fmt.Fprintf(b, "// %s, IE %s: IEI %X, format %s%s\n// prop: C09\nfunc vcLemma_layout_%s_ie_%s(%s) {\n", m.Name, f.Type, tf.IEI, tf.Format, nStr(tf), m.Name, f.Type, strings.Join(m.params, ", "))
			fmt.Fprintf(b, "\tb0 := new(bytes.Buffer)\n\t%s.Encode%s(b0)\n\tn0 := len(b0.Bytes())\n", build(flagsNone), m.Name)
			fmt.Fprintf(b, "\ta := %s\n\tbuf := new(bytes.Buffer)\n\ta.Encode%s(buf)\n\tw := buf.Bytes()\n", build(flags), m.Name)
			x := "a." + f.Type
			switch tf.Format {
			case "TV1":
				if t.OctetN != -1 || t.HasIei || t.LenBits != 0 {
					nasLayoutFindings = append(nasLayoutFindings, fmt.Sprintf("%s: %s cannot carry a half-octet IE", m.Name, f.Type))
					fmt.Fprintf(b, "\t_, _, _ = w, n0, a\n")
					break
				}
				fmt.Fprintf(b, "\tvc.Assert(\"size\", len(w) == n0+1)\n\tvc.Assert(\"iei\", w[n0]>>4 == %#x)\n\tvc.Assert(\"value\", w[n0]&0x0f == %s.Octet&0x0f)\n", tf.IEI, x)
			case "TV":
				fmt.Fprintf(b, "\tvc.Assert(\"size\", len(w) == n0+%d)\n\tvc.Assert(\"iei\", w[n0] == %#x)\n", tf.N, tf.IEI)
				if t.OctetN == -1 && tf.N == 2 {
					fmt.Fprintf(b, "\tvc.Assert(\"value\", w[n0+1] == %s.Octet)\n", x)
				} else if t.OctetN >= tf.N-1 {
					fmt.Fprintf(b, "\tvc.Assert(\"value\", vc.Forall(0, %d, func(j int) bool { return w[n0+1+j] == %s.Octet[j] }))\n", tf.N-1, x)
				} else {
					nasLayoutFindings = append(nasLayoutFindings, fmt.Sprintf("%s: %s cannot carry format TV%d", m.Name, f.Type, tf.N))
				}
			case "TLV", "TLVE":
				lw := 1
				if tf.Format == "TLVE" {
					lw = 2
				}
				if t.LenBits != 8*lw || !t.HasIei {
					nasLayoutFindings = append(nasLayoutFindings, fmt.Sprintf("%s: %s cannot carry format %s (length field of %d bits)", m.Name, f.Type, tf.Format, t.LenBits))
					fmt.Fprintf(b, "\t_, _, _ = w, n0, a\n")
					break
				}
				fmt.Fprintf(b, "\tvc.Assert(\"iei\", len(w) >= n0+%d && w[n0] == %#x)\n", 1+lw, tf.IEI)
				if lw == 1 {
					fmt.Fprintf(b, "\tvc.Assert(\"length\", w[n0+1] == %s.Len)\n", x)
				} else {
					fmt.Fprintf(b, "\tvc.Assert(\"length\", uint16(w[n0+1])<<8|uint16(w[n0+2]) == %s.Len)\n", x)
				}
				if t.HasBuf {
					fmt.Fprintf(b, "\tvc.Assert(\"size\", len(w) == n0+%d+int(%s.Len))\n", 1+lw, x)
					fmt.Fprintf(b, "\tvc.Assert(\"value\", vc.Forall(0, len(%s.Buffer), func(j int) bool { return w[n0+%d+j] == %s.Buffer[j] }))\n", x, 1+lw, x)
				} else if t.OctetN == -1 {
					fmt.Fprintf(b, "\tvc.Assert(\"size\", len(w) == n0+%d)\n\tvc.Assert(\"value\", w[n0+%d] == %s.Octet)\n", 2+lw, 1+lw, x)
				} else {
					// an array with a length: the length octets given, or the whole array
					fmt.Fprintf(b, "\tvc.Assert(\"size\", len(w) == n0+%d+int(%s.Len) || len(w) == n0+%d)\n", 1+lw, x, 1+lw+t.OctetN)
					fmt.Fprintf(b, "\tvc.Assert(\"value\", vc.Forall(0, int(%s.Len), func(j int) bool { return w[n0+%d+j] == %s.Octet[j] }))\n", x, 1+lw, x)
				}
			}
			b.WriteString("}\n\n")
		}
	}
	return nil
}

func nStr(f tsField) string {
	if f.N > 0 {
		return strconv.Itoa(f.N)
	}
	return ""
}

// tsValueOctets: the number of value octets the standard gives a fixed-size IE of a message (0: unknown).
func tsValueOctets(msg, goType string, optional bool) int {
	tabs, err := parseTsTables()
	if err != nil || tabs[msg] == nil {
		return 0
	}
	if optional {
		for _, o := range tabs[msg].Opt {
			if o.GoType == goType && o.Format == "TV" {
				return o.N - 1
			}
		}
		return 0
	}
	for _, o := range tabs[msg].Mand {
		if o.GoType == goType && o.Format == "V" {
			return o.N
		}
	}
	return 0
}

// ---------------- accessor sweep (C09): bit fields inside IE values ----------------
//
// Every Get/Set accessor of nasType carries a line "// <field> Row, sBit, len = [r1, r2], s , n":
// the field occupies n bits starting at bit s (8 = most significant) of octet r1 of the value.
// For the fields that lie inside one octet (r1 = r2, s - n >= 0, n <= 8), for the uint16 fields
// that span octets of a fixed array and for the whole-octet fields copied from / to a [k]uint8
// a lemma states what the annotation says: the setter puts the low n bits of its argument there and changes nothing else,
// the getter reads them from there.  The annotation is the library's documentation of the layout,
// not the standard (the standard is the oracle only for the octets listed in
// lemmas/src/free5gclib/nas/nasType/lemmas_c09.go); what the sweep decides is that the code agrees
// with its own layout table.

var nasAccSkipped, nasAccCovered int

func genNasAccessors(repo string) error {
	dir := filepath.Join(repo, "src/free5gclib/nas/nasType")
	types, err := parseNasTypes(dir)
	if err != nil {
		return err
	}
	fset := token.NewFileSet()
	files, _ := filepath.Glob(filepath.Join(dir, "NAS_*.go"))
	sort.Strings(files)
	rowRe := regexp.MustCompile(`Row, sBit, len = \[(\d+), ?(\d+)\], ?(\d+) ?, ?(\d+)\s*$`)
	var b strings.Builder
	b.WriteString("//go:build verif\n\n// Code generated by govc (nasgen) from the layout annotations of nasType. DO NOT EDIT.\n\npackage nasType\n\nimport \"vspec/vc\"\n\nvar _ = vc.Imp\n\n")
	nasAccSkipped, nasAccCovered = 0, 0
	type acc struct {
		row, sbit, n int
		row2         int
		argT         string
		hasGet       bool
		hasSet       bool
	}
	for _, fn := range files {
		if strings.HasSuffix(fn, "_test.go") {
			continue
		}
		f, err := parser.ParseFile(fset, fn, nil, parser.ParseComments)
		if err != nil {
			return err
		}
		accs := map[string]*acc{} // "Type.Field"
		var order []string
		for _, d := range f.Decls {
			fd, ok := d.(*ast.FuncDecl)
			if !ok || fd.Recv == nil || fd.Doc == nil || len(fd.Recv.List) != 1 {
				continue
			}
			rt := strings.TrimPrefix(exprStr(fset, fd.Recv.List[0].Type), "*")
			name := fd.Name.Name
			isGet, isSet := strings.HasPrefix(name, "Get"), strings.HasPrefix(name, "Set")
			if !isGet && !isSet {
				continue
			}
			var m []string
			for _, c := range fd.Doc.List {
				if mm := rowRe.FindStringSubmatch(c.Text); mm != nil {
					m = mm
				}
			}
			if m == nil {
				continue
			}
			r1, _ := strconv.Atoi(m[1])
			r2, _ := strconv.Atoi(m[2])
			s, _ := strconv.Atoi(m[3])
			n, _ := strconv.Atoi(m[4])
			var argT string
			if isSet && len(fd.Type.Params.List) == 1 {
				argT = exprStr(fset, fd.Type.Params.List[0].Type)
			}
			if isGet && fd.Type.Results != nil && len(fd.Type.Results.List) == 1 {
				argT = exprStr(fset, fd.Type.Results.List[0].Type)
			}
			rows := r2 - r1 + 1
			switch {
			case argT == "uint8" && r1 == r2 && n <= 8 && n >= 1 && s-n >= 0 && s <= 8:
			case argT == "uint16" && r2 > r1 && rows <= 4 && n >= 1 && n <= 16 && s <= 8 && s >= 1 && rows*8-(8-s)-n >= 0:
				// a field that spans octets: n bits from bit s of octet r1 onwards
			case strings.HasPrefix(argT, "[") && argT == fmt.Sprintf("[%d]uint8", rows) && s == 8 && n == 8*rows:
				// whole octets copied from / to an array
			default:
				nasAccSkipped++
				continue
			}
			k := rt + "." + name[3:]
			a := accs[k]
			if a == nil {
				a = &acc{row: r1, row2: r2, sbit: s, n: n, argT: argT}
				accs[k] = a
				order = append(order, k)
			}
			if a.row != r1 || a.row2 != r2 || a.sbit != s || a.n != n || a.argT != argT {
				nasLayoutFindings = append(nasLayoutFindings, fmt.Sprintf("%s: getter and setter are annotated with different positions", k))
				continue
			}
			if isGet {
				a.hasGet = true
			} else {
				a.hasSet = true
			}
		}
		for _, k := range order {
			a := accs[k]
			tn, field, _ := strings.Cut(k, ".")
			t := types[tn]
			if t == nil || !a.hasGet || !a.hasSet {
				nasAccSkipped++
				continue
			}
			if a.argT != "uint8" {
				if t.OctetN <= 0 || a.row2 >= t.OctetN {
					nasAccSkipped++
					continue
				}
				rows := a.row2 - a.row + 1
				var inRows []string
				for r := a.row; r <= a.row2; r++ {
					inRows = append(inRows, fmt.Sprintf("j == %d", r))
				}
				others := fmt.Sprintf("\tvc.Assert(\"others\", vc.Forall(0, %d, func(j int) bool { return %s || a.Octet[j] == o[j] }))\n", t.OctetN, strings.Join(inRows, " || "))
				if a.argT == "uint16" {
					// the octets r1..r2 read as one big-endian number W
					w := func(arr string) string {
						var parts []string
						for i := 0; i < rows; i++ {
							parts = append(parts, fmt.Sprintf("uint32(%s[%d])<<%d", arr, a.row+i, 8*(rows-1-i)))
						}
						return "(" + strings.Join(parts, " | ") + ")"
					}
					sh := rows*8 - (8 - a.sbit) - a.n
					mask := (1 << uint(a.n)) - 1
					fmt.Fprintf(&b, "// %s: %d bits from bit %d of octet %d to octet %d\n// prop: C09\n", k, a.n, a.sbit, a.row, a.row2)
					fmt.Fprintf(&b, "func vcLemma_acc_%s_%s(o [%d]uint8, v uint16) {\n\ta := &%s{Octet: o}\n\ta.Set%s(v)\n", tn, field, t.OctetN, tn, field)
					fmt.Fprintf(&b, "\tvc.Assert(\"set\", %s == %s&^(%#x<<%d)|(uint32(v)&%#x)<<%d)\n", w("a.Octet"), w("o"), mask, sh, mask, sh)
					b.WriteString(others)
					fmt.Fprintf(&b, "\tvc.Assert(\"get\", a.Get%s() == v&%#x)\n\tr := &%s{Octet: o}\n\tvc.Assert(\"read\", uint32(r.Get%s()) == %s>>%d&%#x)\n}\n\n", field, mask, tn, field, w("o"), sh, mask)
				} else {
					fmt.Fprintf(&b, "// %s: octets %d..%d\n// prop: C09\n", k, a.row, a.row2)
					fmt.Fprintf(&b, "func vcLemma_acc_%s_%s(o [%d]uint8, v [%d]uint8) {\n\ta := &%s{Octet: o}\n\ta.Set%s(v)\n", tn, field, t.OctetN, rows, tn, field)
					fmt.Fprintf(&b, "\tvc.Assert(\"set\", vc.Forall(0, %d, func(j int) bool { return a.Octet[%d+j] == v[j] }))\n", rows, a.row)
					b.WriteString(others)
					fmt.Fprintf(&b, "\tg := a.Get%s()\n\tvc.Assert(\"get\", vc.Forall(0, %d, func(j int) bool { return g[j] == v[j] }))\n", field, rows)
					fmt.Fprintf(&b, "\tr := &%s{Octet: o}\n\tq := r.Get%s()\n\tvc.Assert(\"read\", vc.Forall(0, %d, func(j int) bool { return q[j] == o[%d+j] }))\n}\n\n", tn, field, rows, a.row)
				}
				nasAccCovered++
				continue
			}
			sh := a.sbit - a.n
			mask := (1 << uint(a.n)) - 1
			fmt.Fprintf(&b, "// %s: bits %d..%d of octet %d\n// prop: C09\n", k, a.sbit, sh+1, a.row)
			switch {
			case t.OctetN == -1 && a.row == 0:
				fmt.Fprintf(&b, "func vcLemma_acc_%s_%s(o uint8, v uint8) {\n\ta := &%s{Octet: o}\n\ta.Set%s(v)\n", tn, field, tn, field)
				fmt.Fprintf(&b, "\tvc.Assert(\"set\", a.Octet == o&^(%#x<<%d)|(v&%#x)<<%d)\n\tvc.Assert(\"get\", a.Get%s() == v&%#x)\n", mask, sh, mask, sh, field, mask)
				fmt.Fprintf(&b, "\tr := &%s{Octet: o}\n\tvc.Assert(\"read\", r.Get%s() == o>>%d&%#x)\n}\n\n", tn, field, sh, mask)
			case t.OctetN > 0 && a.row < t.OctetN:
				fmt.Fprintf(&b, "func vcLemma_acc_%s_%s(o [%d]uint8, v uint8) {\n\ta := &%s{Octet: o}\n\ta.Set%s(v)\n", tn, field, t.OctetN, tn, field)
				fmt.Fprintf(&b, "\tvc.Assert(\"set\", a.Octet[%d] == o[%d]&^(%#x<<%d)|(v&%#x)<<%d)\n", a.row, a.row, mask, sh, mask, sh)
				fmt.Fprintf(&b, "\tvc.Assert(\"others\", vc.Forall(0, %d, func(j int) bool { return j == %d || a.Octet[j] == o[j] }))\n", t.OctetN, a.row)
				fmt.Fprintf(&b, "\tvc.Assert(\"get\", a.Get%s() == v&%#x)\n\tr := &%s{Octet: o}\n\tvc.Assert(\"read\", r.Get%s() == o[%d]>>%d&%#x)\n}\n\n", field, mask, tn, field, a.row, sh, mask)
			case t.HasBuf:
				fmt.Fprintf(&b, "// shape: buf %d\nfunc vcLemma_acc_%s_%s(buf []byte, v uint8) {\n", a.row+1, tn, field)
				fmt.Fprintf(&b, "\tvar o [%d]uint8\n\tcopy(o[:], buf)\n\ta := &%s{Buffer: buf}\n\ta.Set%s(v)\n", a.row+1, tn, field)
				fmt.Fprintf(&b, "\tvc.Assert(\"set\", a.Buffer[%d] == o[%d]&^(%#x<<%d)|(v&%#x)<<%d)\n", a.row, a.row, mask, sh, mask, sh)
				fmt.Fprintf(&b, "\tvc.Assert(\"others\", vc.Forall(0, %d, func(j int) bool { return a.Buffer[j] == o[j] }))\n", a.row)
				fmt.Fprintf(&b, "\tvc.Assert(\"get\", a.Get%s() == v&%#x)\n}\n\n", field, mask)
			default:
				nasAccSkipped++
				continue
			}
			nasAccCovered++
		}
	}
	return os.WriteFile(filepath.Join(dir, "zz_verif_lemma_generated_acc.go"), []byte(b.String()), 0o644)
}
