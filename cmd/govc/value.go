package main

import (
	"os"
	"fmt"
	"go/types"
	"strings"

	"golang.org/x/tools/go/ssa"
)

// ---------------- symbolic values ----------------

type Value interface{}

type Scalar struct{ T *Term }
type StructV struct{ F []Value }
type ArrayV struct{ E []Value } // concrete-shape array (also backing store of concrete-length slices)
type SymArrV struct {           // symbolic-shape backing store with scalar elements
	Arr *Term
	Len *Term
	W   int
}
type PathElem struct {
	Field int   // >=0: struct field
	Idx   *Term // != nil: array index (BV64)
}
type PtrV struct {
	Obj  *Object
	Path []PathElem
	Nil  *Term // Bool: pointer is nil
}
type SliceV struct {
	Obj           *Object
	Off, Len, Cap *Term
	Nil           *Term
	Str           bool
}
type IfaceV struct {
	Nil *Term
	Dyn types.Type // nil: unknown dynamic type
	V   Value
	Tag string // model-specific tag (e.g. "error", "hmac")
}
type FuncV struct {
	Fn   *ssa.Function
	Bind []Value
}
type TupleV struct{ E []Value }
type MapData struct {
	Keys []*Term
	Vals []Value
}
type MapV struct {
	Keys []*Term
	Vals []Value
	Def  Value
	D    *MapData // mutable contents (package initialisers only)
}
type ChoiceV struct {
	C    *Term
	A, B Value
}
type UnknownV struct {
	T   types.Type
	Why string
}

// LazyV: a value of type T that has not been looked at yet (the result of an assumed contract at
// driver level: a decoded NGAP PDU).  It is materialised — value-nested parts eagerly, pointers and
// sequences lazily again — the first time it is read, and kept in constObjs, so that every later
// read on any path sees the same symbols: "the" decoded message.
type LazyV struct {
	T    types.Type
	Name string
}

// LazySeqV: the elements of a sequence of non-scalars of unknown length; element i is materialised
// when first read at a constant index and remembered.
type LazySeqV struct {
	Elem types.Type
	Name string
	memo map[int64]Value
}

type Object struct {
	id     int
	Typ    types.Type // type of the stored value (element type for backing stores)
	Name   string
	Global *ssa.Global
	Birth  int // allocation epoch (for loop modset)
}

func (o *Object) String() string { return fmt.Sprintf("obj%d(%s)", o.id, o.Name) }

type Heap struct {
	m map[*Object]Value
}

func (h *Heap) clone() *Heap {
	n := &Heap{m: make(map[*Object]Value, len(h.m))}
	for k, v := range h.m {
		n.m[k] = v
	}
	return n
}

// Unsupported is raised (panic) when the executor meets something outside the subset.
type Unsupported struct{ Msg string }

func unsup(f string, a ...interface{}) {
	if os.Getenv("GOVC_DEBUG_UNSUP") != "" {
		fn := []string{}
		if curExec != nil {
			fn = curExec.curFunc
		}
		fmt.Fprintf(os.Stderr, "UNSUP %s\n  in %v\n  %s\n", fmt.Sprintf(f, a...), fn, debugStack())
	}
	panic(Unsupported{fmt.Sprintf(f, a...)})
}

func bv64(v int64) *Term { return BVI(v, 64) }

func isScalarType(t types.Type) (w int, signed bool, isBool bool, ok bool) {
	switch u := t.Underlying().(type) {
	case *types.Basic:
		switch u.Kind() {
		case types.Bool, types.UntypedBool:
			return 0, false, true, true
		case types.Int8:
			return 8, true, false, true
		case types.Int16:
			return 16, true, false, true
		case types.Int32, types.UntypedRune:
			return 32, true, false, true
		case types.Int64, types.Int, types.UntypedInt:
			return 64, true, false, true
		case types.Uint8:
			return 8, false, false, true
		case types.Uint16:
			return 16, false, false, true
		case types.Uint32:
			return 32, false, false, true
		case types.Uint64, types.Uint, types.Uintptr:
			return 64, false, false, true
		}
	}
	return 0, false, false, false
}

func scalarSort(t types.Type) (Sort, bool) {
	w, _, isb, ok := isScalarType(t)
	if !ok {
		return Sort{}, false
	}
	if isb {
		return BoolSort, true
	}
	return BV(w), true
}

func isSigned(t types.Type) bool {
	_, s, _, _ := isScalarType(t)
	return s
}

func isString(t types.Type) bool {
	b, ok := t.Underlying().(*types.Basic)
	return ok && (b.Kind() == types.String || b.Kind() == types.UntypedString)
}

// zeroValue builds the Go zero value of type t.
func (x *Exec) zeroValue(t types.Type) Value {
	if s, ok := scalarSort(t); ok {
		if s.K == SBool {
			return Scalar{False()}
		}
		return Scalar{BVU(0, s.W)}
	}
	switch u := t.Underlying().(type) {
	case *types.Basic:
		if isString(t) {
			return x.constString("")
		}
		return UnknownV{t, "basic kind"}
	case *types.Struct:
		f := make([]Value, u.NumFields())
		for i := range f {
			f[i] = x.zeroValue(u.Field(i).Type())
		}
		return StructV{f}
	case *types.Array:
		n := int(u.Len())
		if n > 1<<16 {
			return UnknownV{t, "huge array"}
		}
		e := make([]Value, n)
		for i := range e {
			e[i] = x.zeroValue(u.Elem())
		}
		return ArrayV{e}
	case *types.Pointer:
		return PtrV{Nil: True()}
	case *types.Slice:
		return SliceV{Off: bv64(0), Len: bv64(0), Cap: bv64(0), Nil: True()}
	case *types.Interface:
		return IfaceV{Nil: True()}
	case *types.Map:
		return MapV{}
	case *types.Signature:
		return FuncV{}
	}
	return UnknownV{t, "zero"}
}

// freshValue builds an arbitrary (symbolic) value of type t.
func (x *Exec) freshValue(name string, t types.Type, depth int) Value {
	if s, ok := scalarSort(t); ok {
		v := Fresh(name, s)
		x.noteInput(name, v, t)
		return Scalar{v}
	}
	switch u := t.Underlying().(type) {
	case *types.Basic:
		if isString(t) {
			if n, ok := x.shapeOf(name); ok {
				cs := x.freshConcreteSlice(name, types.Typ[types.Uint8], n, depth).(SliceV)
				cs.Str = true
				return cs
			}
			sv := x.freshSymSlice(name, 8, types.Typ[types.Uint8])
			sv.Str = true
			sv.Cap = sv.Len
			return sv
		}
	case *types.Struct:
		f := make([]Value, u.NumFields())
		for i := range f {
			f[i] = x.freshValue(name+"."+u.Field(i).Name(), u.Field(i).Type(), depth)
		}
		return StructV{f}
	case *types.Array:
		n := int(u.Len())
		if n > 4096 {
			return UnknownV{t, "huge array"}
		}
		e := make([]Value, n)
		for i := range e {
			e[i] = x.freshValue(fmt.Sprintf("%s[%d]", name, i), u.Elem(), depth)
		}
		return ArrayV{e}
	case *types.Pointer:
		if depth <= 0 {
			if x.lazy {
				o := x.newObject(u.Elem(), name)
				o.Birth = -1
				x.constObjs[o] = LazyV{T: u.Elem(), Name: "*" + name}
				return PtrV{Obj: o, Nil: False()}
			}
			return UnknownV{t, "pointer depth"}
		}
		o := x.newObject(u.Elem(), name)
		x.st.heap.m[o] = x.freshValue("*"+name, u.Elem(), depth-1)
		nilT := False()
		if x.mayNil[name] {
			nilT = Fresh(name+"!nil", BoolSort)
			x.noteInput(name+"!nil", nilT, types.Typ[types.Bool])
		}
		return PtrV{Obj: o, Nil: nilT}
	case *types.Slice:
		if s, ok := scalarSort(u.Elem()); ok && s.K == SBV {
			if n, ok := x.shapeOf(name); ok {
				return x.freshConcreteSlice(name, u.Elem(), n, depth)
			}
			sv := x.freshSymSlice(name, s.W, u.Elem())
			if x.mayNil[name] {
				sv.Nil = Fresh(name+"!nil", BoolSort)
				x.noteInput(name+"!nil", sv.Nil, types.Typ[types.Bool])
				x.assume(Imp(sv.Nil, Eq(sv.Len, bv64(0))))
			}
			return sv
		}
		if n, ok := x.shapeOf(name); ok {
			return x.freshConcreteSlice(name, u.Elem(), n, depth)
		}
		if x.lazy {
			o := x.newObject(u.Elem(), name)
			o.Birth = -1
			x.constObjs[o] = LazySeqV{Elem: u.Elem(), Name: name, memo: map[int64]Value{}}
			ln := Fresh(name+"!len", BV(64))
			x.assume(BvUle(ln, BVU(1<<maxLenBits, 64)))
			return SliceV{Obj: o, Off: bv64(0), Len: ln, Cap: ln, Nil: False()}
		}
		return UnknownV{t, "slice of non-scalar without shape"}
	case *types.Interface:
		nilT := Fresh(name+"!nil", BoolSort)
		x.noteInput(name+"!nil", nilT, types.Typ[types.Bool])
		return IfaceV{Nil: nilT, Tag: "opaque"}
	}
	return UnknownV{t, "fresh"}
}

func (x *Exec) freshConcreteSlice(name string, elem types.Type, n int, depth int) Value {
	o := x.newObject(elem, name)
	e := make([]Value, n)
	for i := range e {
		e[i] = x.freshValue(fmt.Sprintf("%s[%d]", name, i), elem, depth)
	}
	x.st.heap.m[o] = ArrayV{e}
	return SliceV{Obj: o, Off: bv64(0), Len: bv64(int64(n)), Cap: bv64(int64(n)), Nil: False()}
}

// maxLen is the assumed upper bound on the length of any symbolic slice or string.
const maxLenBits = 40

func (x *Exec) freshSymSlice(name string, w int, elem types.Type) SliceV {
	o := x.newObject(elem, name)
	arr := Fresh(name+"!arr", Arr(w))
	ln := Fresh(name+"!len", BV(64))
	x.noteInputArr(name, arr, ln, w)
	if x.lazy {
		// part of a lazily materialised structure: shared by all paths
		o.Birth = -1
		x.constObjs[o] = SymArrV{Arr: arr, Len: ln, W: w}
	} else {
		x.st.heap.m[o] = SymArrV{Arr: arr, Len: ln, W: w}
	}
	x.assume(BvUle(ln, BVU(1<<maxLenBits, 64)))
	return SliceV{Obj: o, Off: bv64(0), Len: ln, Cap: ln, Nil: False()}
}

func (x *Exec) newObject(t types.Type, name string) *Object {
	x.objCtr++
	return &Object{id: x.objCtr, Typ: t, Name: name, Birth: x.epoch}
}

func (x *Exec) constString(s string) SliceV {
	if v, ok := x.strCache[s]; ok {
		return v
	}
	o := x.newObject(types.Typ[types.Uint8], "str")
	o.Birth = -1
	e := make([]Value, len(s))
	for i := 0; i < len(s); i++ {
		e[i] = Scalar{BVU(uint64(s[i]), 8)}
	}
	x.constObjs[o] = ArrayV{e}
	v := SliceV{Obj: o, Off: bv64(0), Len: bv64(int64(len(s))), Cap: bv64(int64(len(s))), Nil: False(), Str: true}
	x.strCache[s] = v
	return v
}

// heapGet returns the current value of object o.
func (x *Exec) heapGet(o *Object) Value {
	if v, ok := x.st.heap.m[o]; ok {
		return v
	}
	if v, ok := x.constObjs[o]; ok {
		if lz, isLazy := v.(LazyV); isLazy {
			v = x.materialise(lz.Name, lz.T)
			x.constObjs[o] = v
		}
		return v
	}
	if o.Global != nil {
		v := x.globalInit(o)
		return v
	}
	unsup("object %s not in heap", o)
	return nil
}

// ---------------- merge ----------------

func (x *Exec) mergeValue(c *Term, a, b Value) Value {
	if a == nil {
		return b
	}
	if b == nil {
		return a
	}
	switch av := a.(type) {
	case Scalar:
		if bv, ok := b.(Scalar); ok {
			if av.T == bv.T {
				return a
			}
			if av.T.S != bv.T.S {
				unsup("merge scalar sorts differ")
			}
			return Scalar{Ite(c, av.T, bv.T)}
		}
	case StructV:
		if bv, ok := b.(StructV); ok && len(av.F) == len(bv.F) {
			f := make([]Value, len(av.F))
			same := true
			for i := range f {
				f[i] = x.mergeValue(c, av.F[i], bv.F[i])
				if !sameValue(f[i], av.F[i]) {
					same = false
				}
			}
			if same {
				return a
			}
			return StructV{f}
		}
	case ArrayV:
		if bv, ok := b.(ArrayV); ok && len(av.E) == len(bv.E) {
			e := make([]Value, len(av.E))
			same := true
			for i := range e {
				e[i] = x.mergeValue(c, av.E[i], bv.E[i])
				if !sameValue(e[i], av.E[i]) {
					same = false
				}
			}
			if same {
				return a
			}
			return ArrayV{e}
		}
	case SymArrV:
		if bv, ok := b.(SymArrV); ok && av.W == bv.W {
			return SymArrV{Arr: Ite(c, av.Arr, bv.Arr), Len: Ite(c, av.Len, bv.Len), W: av.W}
		}
	case PtrV:
		if bv, ok := b.(PtrV); ok {
			if av.Obj == nil && bv.Obj == nil {
				return PtrV{Nil: True()}
			}
			if av.Obj == nil {
				return PtrV{Obj: bv.Obj, Path: bv.Path, Nil: Ite(c, True(), bv.Nil)}
			}
			if bv.Obj == nil {
				return PtrV{Obj: av.Obj, Path: av.Path, Nil: Ite(c, av.Nil, True())}
			}
			if av.Obj == bv.Obj && samePath(av.Path, bv.Path) {
				return PtrV{Obj: av.Obj, Path: av.Path, Nil: Ite(c, av.Nil, bv.Nil)}
			}
		}
	case SliceV:
		if bv, ok := b.(SliceV); ok {
			// an empty slice has no element to read: it merges into the other slice's backing store
			if av.Obj != bv.Obj && av.Obj != nil && bv.Obj != nil && av.Str == bv.Str {
				if isZero(av.Len) && isZero(av.Cap) {
					return SliceV{Obj: bv.Obj, Off: bv.Off, Len: Ite(c, av.Len, bv.Len), Cap: Ite(c, av.Cap, bv.Cap), Nil: Ite(c, av.Nil, bv.Nil), Str: bv.Str}
				}
				if isZero(bv.Len) && isZero(bv.Cap) {
					return SliceV{Obj: av.Obj, Off: av.Off, Len: Ite(c, av.Len, bv.Len), Cap: Ite(c, av.Cap, bv.Cap), Nil: Ite(c, av.Nil, bv.Nil), Str: av.Str}
				}
			}
			if av.Obj == bv.Obj || av.Obj == nil || bv.Obj == nil {
				o := av.Obj
				if o == nil {
					o = bv.Obj
				}
				return SliceV{Obj: o, Off: Ite(c, av.Off, bv.Off), Len: Ite(c, av.Len, bv.Len),
					Cap: Ite(c, av.Cap, bv.Cap), Nil: Ite(c, av.Nil, bv.Nil), Str: av.Str}
			}
		}
	case IfaceV:
		if bv, ok := b.(IfaceV); ok {
			if av.Nil.IsTrue() && bv.Nil.IsTrue() {
				return a
			}
			if av.Nil.IsTrue() {
				return IfaceV{Nil: Ite(c, True(), bv.Nil), Dyn: bv.Dyn, V: bv.V, Tag: bv.Tag}
			}
			if bv.Nil.IsTrue() {
				return IfaceV{Nil: Ite(c, av.Nil, True()), Dyn: av.Dyn, V: av.V, Tag: av.Tag}
			}
			if av.Tag == bv.Tag && (av.Dyn == bv.Dyn || (av.Dyn != nil && bv.Dyn != nil && types.Identical(av.Dyn, bv.Dyn))) {
				if av.V == nil && bv.V == nil {
					return IfaceV{Nil: Ite(c, av.Nil, bv.Nil), Dyn: av.Dyn, Tag: av.Tag}
				}
				return IfaceV{Nil: Ite(c, av.Nil, bv.Nil), Dyn: av.Dyn, V: x.mergeValue(c, av.V, bv.V), Tag: av.Tag}
			}
			// different dynamic error values: only nil-ness is tracked
			if av.Tag == "error" || bv.Tag == "error" || av.Tag == "opaque" || bv.Tag == "opaque" {
				return IfaceV{Nil: Ite(c, av.Nil, bv.Nil), Tag: "opaque"}
			}
		}
	case TupleV:
		if bv, ok := b.(TupleV); ok && len(av.E) == len(bv.E) {
			e := make([]Value, len(av.E))
			for i := range e {
				e[i] = x.mergeValue(c, av.E[i], bv.E[i])
			}
			return TupleV{e}
		}
	case FuncV:
		if bv, ok := b.(FuncV); ok && av.Fn == bv.Fn && len(av.Bind) == len(bv.Bind) {
			bind := make([]Value, len(av.Bind))
			for i := range bind {
				bind[i] = x.mergeValue(c, av.Bind[i], bv.Bind[i])
			}
			return FuncV{av.Fn, bind}
		}
	case MapV:
		if _, ok := b.(MapV); ok {
			return a
		}
	case UnknownV:
		return a
	}
	if _, ok := b.(UnknownV); ok {
		return b
	}
	if sameValue(a, b) {
		return a
	}
	return &ChoiceV{C: c, A: a, B: b}
}

func samePath(a, b []PathElem) bool {
	if len(a) != len(b) {
		return false
	}
	for i := range a {
		if a[i].Field != b[i].Field || a[i].Idx != b[i].Idx {
			return false
		}
	}
	return true
}

// sameValue is a cheap structural identity test.
func sameValue(a, b Value) bool {
	switch av := a.(type) {
	case *ChoiceV:
		bv, ok := b.(*ChoiceV)
		return ok && av == bv
	case Scalar:
		bv, ok := b.(Scalar)
		return ok && av.T == bv.T
	case PtrV:
		bv, ok := b.(PtrV)
		return ok && av.Obj == bv.Obj && samePath(av.Path, bv.Path) && av.Nil == bv.Nil
	case SliceV:
		bv, ok := b.(SliceV)
		return ok && av.Obj == bv.Obj && av.Off == bv.Off && av.Len == bv.Len && av.Cap == bv.Cap && av.Nil == bv.Nil
	case SymArrV:
		bv, ok := b.(SymArrV)
		return ok && av.Arr == bv.Arr && av.Len == bv.Len
	case StructV:
		bv, ok := b.(StructV)
		if !ok || len(av.F) != len(bv.F) {
			return false
		}
		for i := range av.F {
			if !sameValue(av.F[i], bv.F[i]) {
				return false
			}
		}
		return true
	case ArrayV:
		bv, ok := b.(ArrayV)
		if !ok || len(av.E) != len(bv.E) {
			return false
		}
		if len(av.E) > 0 && &av.E[0] == &bv.E[0] {
			return true
		}
		for i := range av.E {
			if !sameValue(av.E[i], bv.E[i]) {
				return false
			}
		}
		return true
	case IfaceV:
		bv, ok := b.(IfaceV)
		return ok && av.Nil == bv.Nil && av.Tag == bv.Tag && av.Dyn == bv.Dyn && (av.V == nil && bv.V == nil || av.V != nil && bv.V != nil && sameValue(av.V, bv.V))
	case TupleV:
		bv, ok := b.(TupleV)
		if !ok || len(av.E) != len(bv.E) {
			return false
		}
		for i := range av.E {
			if !sameValue(av.E[i], bv.E[i]) {
				return false
			}
		}
		return true
	case MapV:
		_, ok := b.(MapV)
		return ok
	case ArrayRef:
		bv, ok := b.(ArrayRef)
		return ok && av.Obj == bv.Obj
	case nil:
		return b == nil
	}
	return false
}

// ---------------- memory access ----------------

func (x *Exec) loadPath(v Value, path []PathElem) Value {
	for i := 0; i < 4; i++ {
		r, ok := v.(ArrayRef)
		if !ok {
			break
		}
		v = x.heapGet(r.Obj)
	}
	if len(path) == 0 {
		return x.snap(v)
	}
	p := path[0]
	switch vv := v.(type) {
	case StructV:
		if p.Idx != nil {
			unsup("index step on struct")
		}
		if p.Field < 0 || p.Field >= len(vv.F) {
			return UnknownV{nil, "field of an opaque library object"}
		}
		return x.loadPath(vv.F[p.Field], path[1:])
	case ArrayV:
		if p.Idx == nil {
			unsup("field step on array")
		}
		if p.Idx.IsConst() {
			i := p.Idx.Val.Int64()
			if !p.Idx.Val.IsInt64() || i < 0 || int(i) >= len(vv.E) {
				// out of range: caller has emitted the safety obligation; value is arbitrary
				return x.arbitraryLike(vv)
			}
			return x.loadPath(vv.E[i], path[1:])
		}
		if len(vv.E) == 0 {
			unsup("symbolic index into empty array")
		}
		if len(vv.E) > 512 {
			unsup("symbolic index into concrete array of %d elements", len(vv.E))
		}
		// table lookup
		if t := x.tableLookup(vv, p.Idx); t != nil && len(path) == 1 {
			return Scalar{t}
		}
		var r Value = x.loadPath(vv.E[len(vv.E)-1], path[1:])
		for i := len(vv.E) - 2; i >= 0; i-- {
			r = x.mergeValue(Eq(p.Idx, bv64(int64(i))), x.loadPath(vv.E[i], path[1:]), r)
		}
		return r
	case SymArrV:
		if p.Idx == nil || len(path) != 1 {
			unsup("bad path into symbolic array")
		}
		return Scalar{Select(vv.Arr, p.Idx)}
	case *ChoiceV:
		return x.mergeValue(vv.C, x.loadPath(vv.A, path), x.loadPath(vv.B, path))
	case LazySeqV:
		if p.Idx == nil || !p.Idx.IsConst() || !p.Idx.Val.IsInt64() {
			unsup("element of an untracked sequence at a symbolic index")
		}
		i := p.Idx.Val.Int64()
		e, ok := vv.memo[i]
		if !ok {
			e = x.materialise(fmt.Sprintf("%s[%d]", vv.Name, i), vv.Elem)
			vv.memo[i] = e
		}
		return x.loadPath(e, path[1:])
	case UnknownV:
		return vv
	}
	unsup("loadPath through %T", v)
	return nil
}

func (x *Exec) arbitraryLike(a ArrayV) Value {
	if len(a.E) > 0 {
		if s, ok := a.E[0].(Scalar); ok {
			return Scalar{Fresh("oob", s.T.S)}
		}
		// an element of the same shape with arbitrary contents (struct elements of a list merged from
		// two paths of different length: the index is out of range on this side of the merge)
		if _, ok := a.E[0].(StructV); ok {
			return x.havocValue(a.E[0], nil, "oob")
		}
	}
	return UnknownV{nil, "out-of-range element"}
}

var globalTables = map[string]string{}

// tableLookup turns a symbolic index into an all-constant scalar array into a
// defined SMT function (shared across queries).
func (x *Exec) tableLookup(a ArrayV, idx *Term) *Term {
	if len(a.E) < 16 {
		return nil
	}
	var w int
	for _, e := range a.E {
		s, ok := e.(Scalar)
		if !ok || !s.T.IsConst() || s.T.S.K != SBV {
			return nil
		}
		w = s.T.S.W
	}
	var sb strings.Builder
	for _, e := range a.E {
		sb.WriteString(e.(Scalar).T.Val.Text(16))
		sb.WriteByte(',')
	}
	key := sb.String()
	name, ok := globalTables[key]
	if !ok {
		name = fmt.Sprintf("tbl!%d", len(globalTables))
		globalTables[key] = name
		p := Var("i", BV(64))
		var body *Term = a.E[len(a.E)-1].(Scalar).T
		for i := len(a.E) - 2; i >= 0; i-- {
			body = Ite(Eq(p, bv64(int64(i))), a.E[i].(Scalar).T, body)
		}
		DeclareFunc(&FuncDecl{Name: name, Params: []Sort{BV(64)}, PNames: []string{"i"}, Ret: BV(w), Body: body})
	}
	return App(name, BV(w), idx)
}

func (x *Exec) storePath(v Value, path []PathElem, nv Value, guard *Term) Value {
	if r, ok := v.(ArrayRef); ok {
		x.noteWrite(r.Obj)
		x.st.heap.m[r.Obj] = x.storePath(x.heapGet(r.Obj), path, nv, guard)
		return v
	}
	if len(path) == 0 {
		if guard.IsTrue() {
			return nv
		}
		return x.mergeValue(guard, nv, v)
	}
	p := path[0]
	switch vv := v.(type) {
	case StructV:
		if p.Field < 0 || p.Field >= len(vv.F) {
			return vv // an opaque object (modelled library value): its fields are not tracked
		}
		f := make([]Value, len(vv.F))
		copy(f, vv.F)
		f[p.Field] = x.storePath(vv.F[p.Field], path[1:], nv, guard)
		return StructV{f}
	case ArrayV:
		e := make([]Value, len(vv.E))
		copy(e, vv.E)
		if p.Idx.IsConst() {
			i := p.Idx.Val.Int64()
			if !p.Idx.Val.IsInt64() || i < 0 || int(i) >= len(vv.E) {
				return vv
			}
			e[i] = x.storePath(vv.E[i], path[1:], nv, guard)
			return ArrayV{e}
		}
		if len(vv.E) > 512 {
			unsup("symbolic store into concrete array of %d", len(vv.E))
		}
		for i := range e {
			g := And(guard, Eq(p.Idx, bv64(int64(i))))
			e[i] = x.storePath(vv.E[i], path[1:], nv, g)
		}
		return ArrayV{e}
	case SymArrV:
		s, ok := nv.(Scalar)
		if !ok || len(path) != 1 {
			unsup("bad store into symbolic array")
		}
		na := Store(vv.Arr, p.Idx, s.T)
		if !guard.IsTrue() {
			na = Ite(guard, na, vv.Arr)
		}
		return SymArrV{Arr: na, Len: vv.Len, W: vv.W}
	case *ChoiceV:
		return &ChoiceV{C: vv.C, A: x.storePath(vv.A, path, nv, And(guard, vv.C)), B: x.storePath(vv.B, path, nv, And(guard, Not(vv.C)))}
	}
	unsup("storePath through %T", v)
	return nil
}

func (x *Exec) load(p Value) Value {
	switch pv := p.(type) {
	case PtrV:
		if pv.Obj == nil {
			unsup("load through nil pointer")
		}
		return x.loadPath(x.heapGet(pv.Obj), pv.Path)
	case *ChoiceV:
		return x.mergeValue(pv.C, x.load(pv.A), x.load(pv.B))
	case UnknownV:
		return pv
	}
	unsup("load from %T", p)
	return nil
}

func (x *Exec) store(p Value, v Value, guard *Term) {
	switch pv := p.(type) {
	case PtrV:
		if pv.Obj == nil {
			return
		}
		x.noteWrite(pv.Obj)
		x.st.heap.m[pv.Obj] = x.storePath(x.heapGet(pv.Obj), pv.Path, v, guard)
	case *ChoiceV:
		x.store(pv.A, v, And(guard, pv.C))
		x.store(pv.B, v, And(guard, Not(pv.C)))
	default:
		unsup("store to %T", p)
	}
}

func ptrNil(p Value) *Term {
	switch pv := p.(type) {
	case PtrV:
		return pv.Nil
	case SliceV:
		return pv.Nil
	case IfaceV:
		return pv.Nil
	case *ChoiceV:
		return Ite(pv.C, ptrNil(pv.A), ptrNil(pv.B))
	case FuncV:
		return BoolC(pv.Fn == nil)
	case MapV:
		return False()
	}
	unsup("nil test on %T", p)
	return nil
}

func term(v Value) *Term {
	switch s := v.(type) {
	case Scalar:
		return s.T
	case *ChoiceV:
		return Ite(s.C, term(s.A), term(s.B))
	case UnknownV:
		unsup("use of unknown value (%s)", s.Why)
	}
	unsup("expected scalar, got %T", v)
	return nil
}

var curExec *Exec

func asSlice(v Value) SliceV {
	switch s := v.(type) {
	case SliceV:
		if curExec != nil && !(s.Len.IsConst() && s.Off.IsConst() && s.Cap.IsConst() && s.Nil.IsConst()) {
			// lengths decided by the path condition (e.g. the length of a decoded string once err == nil is known)
			s.Len, s.Off, s.Cap, s.Nil = curExec.underPC(s.Len), curExec.underPC(s.Off), curExec.underPC(s.Cap), curExec.underPC(s.Nil)
		}
		return s
	case *ChoiceV:
		if curExec != nil {
			// the choice may be decided by the path condition (e.g. after "if err != nil { return }")
			if c := curExec.underPC(s.C); c.IsTrue() {
				return asSlice(s.A)
			} else if c.IsFalse() {
				return asSlice(s.B)
			}
			return curExec.flattenSlice(s)
		}
	case UnknownV:
		unsup("use of unknown slice (%s)", s.Why)
	}
	unsup("expected slice, got %T", v)
	return SliceV{}
}

// elemAt reads element i (BV64 term, relative to the slice) of s.
func (x *Exec) elemAt(s SliceV, i *Term) Value {
	if s.Obj == nil {
		unsup("element of nil slice")
	}
	return x.loadPath(x.heapGet(s.Obj), []PathElem{{Field: -1, Idx: BvAdd(s.Off, i)}})
}

func (x *Exec) byteAt(s SliceV, i *Term) *Term { return term(x.elemAt(s, i)) }

// concreteLen returns the slice length if it is a constant.
func concreteLen(s SliceV) (int, bool) {
	if s.Len.IsConst() && s.Len.Val.IsInt64() && s.Len.Val.Int64() < 1<<20 {
		return int(s.Len.Val.Int64()), true
	}
	return 0, false
}

// snap resolves nested-array aliases so that the result is a self-contained value.
func (x *Exec) snap(v Value) Value {
	switch vv := v.(type) {
	case ArrayRef:
		return x.snap(x.heapGet(vv.Obj))
	case StructV:
		var f []Value
		for i, e := range vv.F {
			ne := x.snap(e)
			if f == nil && !sameValueOrRef(ne, e) {
				f = make([]Value, len(vv.F))
				copy(f, vv.F[:i])
			}
			if f != nil {
				f[i] = ne
			}
		}
		if f != nil {
			return StructV{f}
		}
	}
	return v
}

func sameValueOrRef(a, b Value) bool {
	if _, ok := b.(ArrayRef); ok {
		return false
	}
	return true
}

// flattenSlice turns a choice between slices into one slice over a merged backing store (a read-only view).
func (x *Exec) flattenSlice(c *ChoiceV) SliceV {
	a, b := asSlice(c.A), asSlice(c.B)
	w := 8
	for _, s := range []SliceV{a, b} {
		if s.Obj != nil {
			if sa, ok := x.heapGet(s.Obj).(SymArrV); ok {
				w = sa.W
			} else if av, ok := x.heapGet(s.Obj).(ArrayV); ok && len(av.E) > 0 {
				if sc, ok := av.E[0].(Scalar); ok {
					w = sc.T.S.W
				}
			}
		}
	}
	arr := Ite(c.C, x.sliceAsArray(a, w), x.sliceAsArray(b, w))
	ln := Ite(c.C, a.Len, b.Len)
	o := x.newObject(types.Typ[types.Uint8], "choice-view")
	x.st.heap.m[o] = SymArrV{Arr: arr, Len: ln, W: w}
	return SliceV{Obj: o, Off: bv64(0), Len: ln, Cap: ln, Nil: Ite(c.C, a.Nil, b.Nil), Str: a.Str}
}

// underPC simplifies t with the literals of the current path condition and the recorded facts.
func (x *Exec) underPC(t *Term) *Term {
	if t.IsConst() || x.st == nil {
		return t
	}
	pc := x.st.pc
	if x.pcSubstFor != pc {
		m := map[int]*Term{}
		for id, v := range x.facts {
			m[id] = BoolC(v)
		}
		for _, c := range conj(pc) {
			if c.Op == ONot {
				m[c.Args[0].id] = False()
			} else {
				m[c.id] = True()
			}
		}
		x.pcSubstFor, x.pcSubstMap = pc, m
	}
	if len(x.pcSubstMap) == 0 {
		return t
	}
	return Subst(t, x.pcSubstMap)
}

// shapeOf looks up a shape clause; names are Go paths rooted at a parameter ("ue.Supi"):
// the stars that mark pointees in generated names are ignored.
func (x *Exec) shapeOf(name string) (int, bool) {
	n, ok := x.shapeLen[strings.TrimLeft(name, "*")]
	return n, ok
}

// materialise builds the value of a lazy object: one pointer level deep, pointers and sequences
// below it lazy again; what it creates lives in constObjs (shared by all paths), nothing is a
// harness input.
func (x *Exec) materialise(name string, t types.Type) Value {
	saved, n := x.lazy, len(x.inputs)
	x.lazy = true
	v := x.freshValue(name, t, 0)
	x.lazy = saved
	x.inputs = x.inputs[:n]
	return v
}
