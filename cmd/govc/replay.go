package main

// Replay of failed obligations on the real code: the generated contract
// harness (or lemma harness) is compiled natively in the snapshot and driven
// with the solver's model, with models of the preconditions alone, and with
// generated inputs (vspec/replay).

import (
	"encoding/json"
	"fmt"
	"go/types"
	"os"
	"path/filepath"
	"sort"
	"strings"

	"golang.org/x/tools/go/ssa"
)

type rCandidate struct {
	Scalars map[string]string    `json:"scalars"`
	Arrays  map[string]rArrayVal `json:"arrays"`
	Origin  string               `json:"origin"`
}
type rArrayVal struct {
	Len   int      `json:"len"`
	Elems []string `json:"elems"`
}
type rFile struct {
	Obligation string       `json:"obligation"`
	Candidates []rCandidate `json:"candidates"`
	Budget     int          `json:"budget_ms"`
	Random     int          `json:"random_tries"`
	Class      string       `json:"class"`
	Shapes     map[string]int `json:"shapes"`
}

func hexOf(lit string) string {
	v, ok := parseBVLit(lit)
	if !ok {
		return ""
	}
	return "0x" + v.Text(16)
}

// modelCandidate turns a sat result into a candidate (array elements by a second query).
func modelCandidate(o *Obligation, r *TargetResult, smtDir string) *rCandidate {
	if o.Result == nil || len(o.Result.Raw) == 0 {
		return nil
	}
	// prefer a model with short arrays: it can be written out completely and replays fast
	for _, bound := range []int64{64, 256} {
		var small []*Term
		var gv []*Term
		for _, in := range o.Inputs {
			if in.T != nil {
				gv = append(gv, in.T)
			} else if in.Len != nil {
				gv = append(gv, in.Len)
				small = append(small, BvUle(in.Len, bv64(bound)))
			}
		}
		if len(small) == 0 {
			break
		}
		hyps := append([]*Term{}, r.Exec.assumes[:o.NHyp]...)
		asserts := append(append(hyps, o.PC, Not(o.Goal)), small...)
		res := Solve(Script(asserts, gv, r.Opaque), smtDir, fmt.Sprintf("replay_small_%d", bound), 6)
		if res.Verdict == "sat" && len(res.Raw) > 0 {
			o.Result.Raw = res.Raw
			break
		}
	}
	c := &rCandidate{Scalars: map[string]string{}, Arrays: map[string]rArrayVal{}, Origin: "solver model of the failed obligation"}
	k := 0
	var pins []*Term
	var sels []*Term
	type arrSel struct {
		name string
		n    int
	}
	var arrs []arrSel
	for _, in := range o.Inputs {
		if k >= len(o.Result.Raw) {
			break
		}
		lit := o.Result.Raw[k]
		k++
		if in.T != nil {
			if h := hexOf(lit); h != "" {
				c.Scalars[in.Name] = h
			}
			continue
		}
		v, ok := parseBVLit(lit)
		if !ok {
			continue
		}
		n := int(v.Int64())
		if !v.IsInt64() || n > 4096 {
			n = 4096
		}
		c.Arrays[in.Name] = rArrayVal{Len: int(v.Int64())}
		pins = append(pins, Eq(in.Len, BVC(v, 64)))
		m := n
		if m > 256 {
			m = 256
		}
		for i := 0; i < m; i++ {
			sels = append(sels, Select(in.Arr, bv64(int64(i))))
		}
		arrs = append(arrs, arrSel{in.Name, m})
	}
	if len(sels) > 0 {
		hyps := append([]*Term{}, r.Exec.assumes[:o.NHyp]...)
		asserts := append(append(hyps, o.PC, Not(o.Goal)), pins...)
		for _, in := range o.Inputs {
			if in.T != nil {
				if h, ok := c.Scalars[in.Name]; ok && in.T.S.K == SBV {
					v, _ := parseBVLit("#x" + strings.TrimPrefix(h, "0x"))
					if v != nil {
						asserts = append(asserts, Eq(in.T, BVC(v, in.T.S.W)))
					}
				}
			}
		}
		script := Script(asserts, sels, r.Opaque)
		res := Solve(script, smtDir, "replay_model", 20)
		if len(res.Raw) > 0 {
			j := 0
			for _, a := range arrs {
				av := c.Arrays[a.name]
				for i := 0; i < a.n && j < len(res.Raw); i++ {
					av.Elems = append(av.Elems, hexOf(res.Raw[j]))
					j++
				}
				c.Arrays[a.name] = av
			}
		}
	}
	return c
}

// preconditionCandidates: models of the preconditions alone, for several small sizes.
func preconditionCandidates(o *Obligation, r *TargetResult, smtDir string) []rCandidate {
	var out []rCandidate
	nh := r.Exec.reqHyp
	if nh <= 0 || nh > len(r.Exec.assumes) {
		nh = 0
	}
	hyps := r.Exec.assumes[:nh]
	var arrIn []inputRec
	var gv []*Term
	for _, in := range o.Inputs {
		if in.T != nil {
			gv = append(gv, in.T)
		} else {
			gv = append(gv, in.Len)
			arrIn = append(arrIn, in)
		}
	}
	sizes := []int64{-1}
	if len(arrIn) > 0 {
		sizes = []int64{1, 2, 3, 4, 5, 8, 16, 33}
	}
	type slot struct {
		sz  int64
		res SolveResult
	}
	results := make([]slot, len(sizes))
	done := make(chan int, len(sizes))
	for i, sz := range sizes {
		asserts := append([]*Term{}, hyps...)
		if sz >= 0 {
			// pin the first array; the others are constrained by the preconditions or free but small
			asserts = append(asserts, Eq(arrIn[0].Len, bv64(sz)))
			for _, a := range arrIn[1:] {
				asserts = append(asserts, BvUle(a.Len, bv64(40)))
			}
		}
		script := Script(asserts, gv, r.Opaque)
		results[i].sz = sz
		go func(i int, sz int64, script string) {
			results[i].res = Solve(script, smtDir, fmt.Sprintf("replay_pre_%d", sz), 4)
			done <- i
		}(i, sz, script)
	}
	for range sizes {
		<-done
	}
	for _, sl := range results {
		res, sz := sl.res, sl.sz
		if res.Verdict != "sat" {
			continue
		}
		c := rCandidate{Scalars: map[string]string{}, Arrays: map[string]rArrayVal{}, Origin: fmt.Sprintf("solver model of the preconditions (size %d) with generated contents", sz)}
		k := 0
		for _, in := range o.Inputs {
			if k >= len(res.Raw) {
				break
			}
			lit := res.Raw[k]
			k++
			if in.T != nil {
				if h := hexOf(lit); h != "" {
					c.Scalars[in.Name] = h
				}
			} else if v, ok := parseBVLit(lit); ok && v.IsInt64() {
				c.Arrays[in.Name] = rArrayVal{Len: int(v.Int64())}
			}
		}
		out = append(out, c)
	}
	return out
}

// genReplayTest writes the in-package test that calls the harness natively.
func genReplayTest(p *Loaded, h *ssa.Function) (dir string, err error) {
	pkg := h.Pkg.Pkg
	var pkgDir string
	for _, pk := range p.Pkgs {
		if pk.Types == pkg && len(pk.GoFiles) > 0 {
			pkgDir = filepath.Dir(pk.GoFiles[0])
		}
	}
	if pkgDir == "" {
		// search all loaded packages
		for _, pk := range p.allPackages() {
			if pk.Types == pkg && len(pk.GoFiles) > 0 {
				pkgDir = filepath.Dir(pk.GoFiles[0])
			}
		}
	}
	if pkgDir == "" {
		return "", fmt.Errorf("package directory of %s not found", pkg.Path())
	}
	imports := map[string]string{}
	qual := func(q *types.Package) string {
		if q == pkg {
			return ""
		}
		imports[q.Path()] = q.Name()
		return q.Name()
	}
	var sb strings.Builder
	var args []string
	for i, prm := range h.Params {
		ts := types.TypeString(prm.Type(), qual)
		fmt.Fprintf(&sb, "\t\tvar a%d %s\n\t\tg.Fill(&a%d, %q)\n", i, ts, i, prm.Name())
		args = append(args, fmt.Sprintf("a%d", i))
	}
	var hdr strings.Builder
	fmt.Fprintf(&hdr, "//go:build verif\n\npackage %s\n\nimport (\n\t\"testing\"\n\t\"vspec/replay\"\n", pkg.Name())
	var ips []string
	for ip := range imports {
		ips = append(ips, ip)
	}
	sort.Strings(ips)
	for _, ip := range ips {
		fmt.Fprintf(&hdr, "\t%s %q\n", imports[ip], ip)
	}
	hdr.WriteString(")\n\n")
	fmt.Fprintf(&hdr, "func TestVerifReplay(t *testing.T) {\n\treplay.Main(func(g *replay.Gen) {\n%s\t\t%s(%s)\n\t})\n}\n", sb.String(), h.Name(), strings.Join(args, ", "))
	if err := os.WriteFile(filepath.Join(pkgDir, "zz_verif_replay_test.go"), []byte(hdr.String()), 0o644); err != nil {
		return "", err
	}
	return pkgDir, nil
}

// replayObligation tries to exhibit the failure on the real code.
func replayObligation(p *Loaded, o *Obligation, r *TargetResult, h *ssa.Function, smtDir, scratch string, seed int) (confirmed bool, detail map[string]interface{}, raw string) {
	rf := rFile{Obligation: o.Name, Budget: 5000, Random: 3000, Class: o.Class, Shapes: r.Exec.shapeLen}
	if c := modelCandidate(o, r, smtDir); c != nil {
		rf.Candidates = append(rf.Candidates, *c)
	}
	rf.Candidates = append(rf.Candidates, preconditionCandidates(o, r, smtDir)...)
	inFile := filepath.Join(scratch, "replay_input.json")
	data, _ := json.MarshalIndent(rf, "", " ")
	os.WriteFile(inFile, data, 0o644)
	dir, err := genReplayTest(p, h)
	if err != nil {
		return false, nil, err.Error()
	}
	defer os.Remove(filepath.Join(dir, "zz_verif_replay_test.go"))
	env := append(append([]string{}, goEnv...), "GOWORK="+filepath.Join(p.Root, "go.work"), "VERIF_REPLAY_INPUT="+inFile, fmt.Sprintf("VERIF_SEED=%d", seed))
	out, _ := run(dir, env, "go", "test", "-tags", "verif", "-vet=off", "-v", "-count=1", "-timeout", "120s", "-run", "^TestVerifReplay$", ".")
	for _, line := range strings.Split(out, "\n") {
		if strings.HasPrefix(line, "VERIF-REPLAY ") {
			rest := strings.TrimPrefix(line, "VERIF-REPLAY ")
			confirmed = strings.HasPrefix(rest, "confirmed=true")
			if i := strings.Index(rest, "{"); i >= 0 {
				json.Unmarshal([]byte(rest[i:]), &detail)
			}
			return confirmed, detail, trunc(out, 3000)
		}
	}
	return false, nil, trunc(out, 3000)
}
