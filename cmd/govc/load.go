package main

// Snapshot of the repository, contract parsing, ghost-code generation, loading.

import (
	"bufio"
	"bytes"
	"fmt"
	"go/ast"
	"go/parser"
	"go/printer"
	"go/token"
	"go/types"
	"os"
	"os/exec"
	"path/filepath"
	"regexp"
	"sort"
	"strconv"
	"strings"

	"golang.org/x/tools/go/packages"
	"golang.org/x/tools/go/ssa"
	"golang.org/x/tools/go/ssa/ssautil"
)

type Loaded struct {
	Root           string // snapshot root
	genNotes       []string // messages the lemma generator could not cover
	Fset           *token.FileSet
	Pkgs           []*packages.Package
	Prog           *ssa.Program
	specs          map[string]*FuncSpec // by ssa function name
	specList       []*FuncSpec
	harnessOf      map[string]*ssa.Function
	lemmas         map[string]*LemmaInfo
	infos          map[*ssa.Function]*FuncInfo
	mutableGlobals map[*ssa.Global]bool
	initRuns       map[*ssa.Package]*initRun
	initOK         map[*ssa.Package]bool
	rangeChecks    bool
	allFuncs       map[*ssa.Function]bool
	unbound        []string
	smtFuns        map[string]string
	behaviors      map[string][]*FuncSpec
}

type LemmaInfo struct {
	Linear bool // canonical linear sums while this target is executed
	Tier string // "thorough": run in the thorough tier only
	Name  string
	Props []string
	Fn    *ssa.Function
	Pkg   string
	MayNil []string
	Shape  map[string]int
	OpaqueFns []string
	Inlines []string // callees verified through their bodies ("*" = every callee)
	SplitParam string
	SplitLo, SplitHi int64
	Driver bool // "mode: driver": procedures run over the ghost association, run-time panics end the run, callee preconditions assumed
}

func (p *Loaded) info(fn *ssa.Function) *FuncInfo {
	if fi, ok := p.infos[fn]; ok {
		return fi
	}
	fi := analyze(fn)
	p.infos[fn] = fi
	return fi
}

func (p *Loaded) isGhostFn(fn *ssa.Function) bool {
	if fn.Pkg == nil {
		if fn.Parent() != nil {
			return p.isGhostFn(fn.Parent())
		}
		return false
	}
	if strings.HasPrefix(fn.Pkg.Pkg.Path(), "vspec") {
		return true
	}
	n := fn.Name()
	if fn.Parent() != nil {
		return p.isGhostFn(fn.Parent())
	}
	return strings.HasPrefix(n, "vc")
}

func (p *Loaded) isSpecFn(fn *ssa.Function) bool { return p.isGhostFn(fn) }

func (p *Loaded) ghostFn(pkg *ssa.Package, name string) *ssa.Function {
	if pkg == nil {
		return nil
	}
	return pkg.Func(name)
}

// ---------------- snapshot ----------------

func run(dir string, env []string, name string, args ...string) (string, error) {
	cmd := exec.Command(name, args...)
	cmd.Dir = dir
	cmd.Env = append(os.Environ(), env...)
	var out bytes.Buffer
	cmd.Stdout = &out
	cmd.Stderr = &out
	err := cmd.Run()
	return out.String(), err
}

var goEnv = []string{"GOFLAGS=", "GOPROXY=off", "GOSUMDB=off", "GOTOOLCHAIN=local", "GOWORK="}

func snapshot(repo, dst string) error {
	if err := os.MkdirAll(dst, 0o755); err != nil {
		return err
	}
	out, err := run("/", nil, "rsync", "-a", "--delete", "--exclude=.git", "--exclude=stgutgmain", "--exclude=*.png",
		repo+"/", dst+"/")
	if err != nil {
		return fmt.Errorf("rsync: %v: %s", err, out)
	}
	return nil
}

// ---------------- contract parsing ----------------

var clauseRe = regexp.MustCompile(`^(\w[\w.\-]*)\s*(\(([^:]*)\))?\s*:\s*(.*)$`)

func parseContracts(file string, pkgDir string) ([]*FuncSpec, error) {
	f, err := os.Open(file)
	if err != nil {
		return nil, err
	}
	defer f.Close()
	var specs []*FuncSpec
	var cur, base *FuncSpec
	baseReplaced := false
	var lastExpr *string
	sc := bufio.NewScanner(f)
	sc.Buffer(make([]byte, 1<<20), 1<<20)
	ln := 0
	for sc.Scan() {
		ln++
		line := strings.TrimSpace(sc.Text())
		if !strings.HasPrefix(line, "//@") {
			continue
		}
		body := strings.TrimSpace(line[3:])
		if strings.HasPrefix(body, "+") {
			if lastExpr == nil {
				return nil, fmt.Errorf("%s:%d: continuation without clause", file, ln)
			}
			*lastExpr += " " + strings.TrimSpace(body[1:])
			continue
		}
		lastExpr = nil
		fields := strings.Fields(body)
		if len(fields) == 0 {
			continue
		}
		kw := fields[0]
		rest := strings.TrimSpace(strings.TrimPrefix(body, kw))
		if kw == "func" {
			cur = &FuncSpec{Name: rest, Pkg: pkgDir, Loops: map[string]*LoopSpec{}, Shape: map[string]int{}, File: file, Line: ln}
			base = cur
			baseReplaced = false
			specs = append(specs, cur)
			continue
		}
		if cur == nil {
			return nil, fmt.Errorf("%s:%d: clause before func", file, ln)
		}
		switch kw {
		case "behavior":
			// a further contract case of the same function; inherits the bookkeeping clauses
			// inherits the bookkeeping clauses written before the first behavior
			nb := &FuncSpec{Name: base.Name, Pkg: base.Pkg, Loops: map[string]*LoopSpec{}, Shape: map[string]int{}, File: file, Line: ln,
				Behavior: fields[1], Props: append([]string{}, base.Props...), OpaqueFns: append([]string{}, base.OpaqueFns...),
				MayNil: append([]string{}, base.MayNil...)}
			for k, v := range base.Shape {
				nb.Shape[k] = v
			}
			if !baseReplaced && !base.HasContract() && len(base.Loops) == 0 {
				// the unnamed prefix held only bookkeeping: this behavior replaces it
				specs[len(specs)-1] = nb
				baseReplaced = true
			} else {
				specs = append(specs, nb)
			}
			cur = nb
		case "nosafety":
			cur.NoSafety = true
		case "proofonly":
			// a contract case that is proved but never picked at a call site (callers see the other cases)
			cur.ProofOnly = true
		case "exitnonzero":
			cur.ExitNonZero = true
		case "driver":
			cur.Driver = true
		case "assumepre":
			cur.AssumePre = true
		case "given":
			// a statement that establishes the initial state the case is about (e.g. the argument vector)
			cur.Given = append(cur.Given, rest)
		case "prop":
			cur.Props = append(cur.Props, fields[1:]...)
		case "requires", "ensures":
			m := clauseRe.FindStringSubmatch(rest)
			if m == nil {
				return nil, fmt.Errorf("%s:%d: bad clause %q", file, ln, rest)
			}
			c := &Clause{Label: m[1], Expr: m[4]}
			if kw == "requires" {
				cur.Requires = append(cur.Requires, c)
			} else {
				cur.Ensures = append(cur.Ensures, c)
			}
			lastExpr = &c.Expr
		case "assigns":
			if strings.HasPrefix(rest, "global ") {
				cur.AssignGlobals = append(cur.AssignGlobals, strings.Fields(rest)[1:]...)
				continue
			}
			for _, a := range splitTop(rest) {
				cur.Assigns = append(cur.Assigns, a)
			}
		case "ghostlog":
			m := clauseRe.FindStringSubmatch(rest)
			if m == nil {
				return nil, fmt.Errorf("%s:%d: bad ghostlog clause", file, ln)
			}
			cur.GhostLogs = append(cur.GhostLogs, [2]string{m[1], m[4]})
		case "let":
			cur.Lets = append(cur.Lets, rest)
			lastExpr = &cur.Lets[len(cur.Lets)-1]
		case "split":
			// split <scalar parameter> <lo>..<hi>: one verification run per value (complete case analysis)
			var lo, hi int64
			if len(fields) != 3 {
				return nil, fmt.Errorf("%s:%d: bad split clause", file, ln)
			}
			if _, err := fmt.Sscanf(fields[2], "%d..%d", &lo, &hi); err != nil || hi < lo || hi-lo > 4096 {
				return nil, fmt.Errorf("%s:%d: bad split range %q", file, ln, fields[2])
			}
			cur.SplitParam, cur.SplitLo, cur.SplitHi = fields[1], lo, hi
		case "inlines":
			// callees verified through their bodies (not their contracts) when proving this function
			cur.Inlines = append(cur.Inlines, fields[1:]...)
		case "inline":
			cur.Inline = true
		case "pure":
			cur.Pure = true
		case "opaque":
			cur.OpaqueFns = append(cur.OpaqueFns, fields[1:]...)
		case "trusted":
			cur.Trusted = true
		case "maynil":
			cur.MayNil = append(cur.MayNil, fields[1:]...)
		case "shape":
			n, err := strconv.Atoi(fields[2])
			if err != nil {
				return nil, fmt.Errorf("%s:%d: bad shape", file, ln)
			}
			cur.Shape[fields[1]] = n
		case "call":
			// call <callee> <label> (binders): expr — an assertion at every call of <callee> in this function;
			// binders named like parameters of the callee are the actual arguments, the others locals of the caller
			if len(fields) < 3 {
				return nil, fmt.Errorf("%s:%d: bad call clause", file, ln)
			}
			callee := fields[1]
			m := clauseRe.FindStringSubmatch(strings.TrimSpace(strings.TrimPrefix(rest, callee)))
			if m == nil || m[2] == "" {
				return nil, fmt.Errorf("%s:%d: call clause needs `<callee> label (binders): expr`", file, ln)
			}
			c := &Clause{Label: m[1], Binders: m[3], Expr: m[4]}
			if cur.Calls == nil {
				cur.Calls = map[string][]*Clause{}
			}
			cur.Calls[callee] = append(cur.Calls[callee], c)
			lastExpr = &c.Expr
		case "loop":
			if len(fields) < 3 {
				return nil, fmt.Errorf("%s:%d: bad loop clause", file, ln)
			}
			key := fields[1]
			ls := cur.Loops[key]
			if ls == nil {
				ls = &LoopSpec{Key: key}
				cur.Loops[key] = ls
			}
			rest2 := strings.TrimSpace(strings.TrimPrefix(strings.TrimSpace(strings.TrimPrefix(rest, key)), fields[2]))
			switch fields[2] {
			case "unroll":
				n, err := strconv.Atoi(strings.TrimSpace(rest2))
				if err != nil {
					return nil, fmt.Errorf("%s:%d: bad unroll", file, ln)
				}
				ls.Unroll = n
			case "invariant":
				m := clauseRe.FindStringSubmatch(rest2)
				if m == nil || m[2] == "" {
					return nil, fmt.Errorf("%s:%d: loop invariant needs `label (binders): expr`", file, ln)
				}
				c := &Clause{Label: m[1], Binders: m[3], Expr: m[4]}
				ls.Invs = append(ls.Invs, c)
				lastExpr = &c.Expr
			case "decreases":
				m := clauseRe.FindStringSubmatch("variant " + rest2)
				if m == nil || m[2] == "" {
					return nil, fmt.Errorf("%s:%d: loop decreases needs `(binders): expr`", file, ln)
				}
				c := &Clause{Label: "variant", Binders: m[3], Expr: m[4]}
				ls.Decreases = c
				lastExpr = &c.Expr
			default:
				return nil, fmt.Errorf("%s:%d: unknown loop clause %q", file, ln, fields[2])
			}
		default:
			return nil, fmt.Errorf("%s:%d: unknown clause %q", file, ln, kw)
		}
	}
	return specs, nil
}

// splitTop splits on commas at nesting depth 0.
func splitTop(s string) []string {
	var out []string
	depth := 0
	start := 0
	for i, c := range s {
		switch c {
		case '(', '[', '{':
			depth++
		case ')', ']', '}':
			depth--
		case ',':
			if depth == 0 {
				out = append(out, strings.TrimSpace(s[start:i]))
				start = i + 1
			}
		}
	}
	if t := strings.TrimSpace(s[start:]); t != "" {
		out = append(out, t)
	}
	return out
}

func sanitize(s string) string {
	var sb strings.Builder
	for _, c := range s {
		if c >= 'a' && c <= 'z' || c >= 'A' && c <= 'Z' || c >= '0' && c <= '9' || c == '_' {
			sb.WriteRune(c)
		} else if c == '.' {
			sb.WriteRune('_')
		}
	}
	return sb.String()
}

func harnessName(spec string) string { return "vc__" + sanitize(spec) }

// ---------------- ghost generation ----------------

type srcFunc struct {
	decl    *ast.FuncDecl
	file    *ast.File
	imports []*ast.ImportSpec
}

func findFuncs(fset *token.FileSet, dir string) (map[string]*srcFunc, string, error) {
	ents, err := os.ReadDir(dir)
	if err != nil {
		return nil, "", err
	}
	res := map[string]*srcFunc{}
	pkgName := ""
	for _, e := range ents {
		n := e.Name()
		if !strings.HasSuffix(n, ".go") || strings.HasSuffix(n, "_test.go") || strings.HasPrefix(n, "zz_verif") || strings.HasPrefix(n, "zz_contracts") {
			continue
		}
		af, err := parser.ParseFile(fset, filepath.Join(dir, n), nil, parser.SkipObjectResolution)
		if err != nil {
			return nil, "", err
		}
		pkgName = af.Name.Name
		for _, d := range af.Decls {
			fd, ok := d.(*ast.FuncDecl)
			if !ok {
				continue
			}
			key := fd.Name.Name
			if fd.Recv != nil && len(fd.Recv.List) == 1 {
				t := fd.Recv.List[0].Type
				star := ""
				if st, ok := t.(*ast.StarExpr); ok {
					star = "*"
					t = st.X
				}
				if id, ok := t.(*ast.Ident); ok {
					key = fmt.Sprintf("(%s%s).%s", star, id.Name, fd.Name.Name)
				}
			}
			res[key] = &srcFunc{decl: fd, file: af, imports: af.Imports}
		}
	}
	return res, pkgName, nil
}

func exprStr(fset *token.FileSet, e ast.Node) string {
	var b bytes.Buffer
	printer.Fprint(&b, fset, e)
	return b.String()
}

// hoistOld replaces old(e) by fresh identifiers and returns the definitions.
func hoistOld(expr string, ctr *int) (string, []string, error) {
	e, err := parser.ParseExpr(expr)
	if err != nil {
		return "", nil, fmt.Errorf("cannot parse %q: %v", expr, err)
	}
	var defs []string
	fset := token.NewFileSet()
	var rewrite func(n ast.Expr) ast.Expr
	rewrite = func(n ast.Expr) ast.Expr {
		return n
	}
	_ = rewrite
	ast.Inspect(e, func(n ast.Node) bool { return true })
	// manual recursive rewrite using astutil-free approach: print, then textual replace of old(...) spans
	src := expr
	for {
		i := strings.Index(src, "old(")
		if i < 0 {
			break
		}
		if i > 0 && (isIdentChar(src[i-1])) {
			// part of another identifier: skip by masking
			src = src[:i] + "\x00ld(" + src[i+4:]
			continue
		}
		depth := 0
		j := i + 3
		for ; j < len(src); j++ {
			if src[j] == '(' {
				depth++
			} else if src[j] == ')' {
				depth--
				if depth == 0 {
					break
				}
			}
		}
		if j >= len(src) {
			return "", nil, fmt.Errorf("unbalanced old( in %q", expr)
		}
		inner := src[i+4 : j]
		name := fmt.Sprintf("vcOld%d", *ctr)
		*ctr++
		defs = append(defs, fmt.Sprintf("%s := %s", name, inner))
		src = src[:i] + name + src[j+1:]
	}
	src = strings.ReplaceAll(src, "\x00ld(", "old(")
	_ = fset
	return src, defs, nil
}

func isIdentChar(c byte) bool {
	return c == '_' || c >= 'a' && c <= 'z' || c >= 'A' && c <= 'Z' || c >= '0' && c <= '9' || c == '.'
}

func importName(is *ast.ImportSpec) string {
	if is.Name != nil {
		return is.Name.Name
	}
	p, _ := strconv.Unquote(is.Path.Value)
	base := p[strings.LastIndex(p, "/")+1:]
	if i := strings.Index(base, ".v"); i > 0 {
		base = base[:i]
	}
	return base
}

// genGhost writes zz_verif_ghost.go for one package directory.
func genGhost(fset *token.FileSet, dir string, specs []*FuncSpec) ([]string, error) {
	funcs, pkgName, err := findFuncs(fset, dir)
	if err != nil {
		return nil, err
	}
	var body strings.Builder
	imports := map[string]string{} // name -> path
	var unbound []string
	for _, sp := range specs {
		sf := funcs[sp.Name]
		if sf == nil {
			unbound = append(unbound, fmt.Sprintf("%s: function %s not found", sp.File, sp.Name))
			continue
		}
		for _, is := range sf.imports {
			p, _ := strconv.Unquote(is.Path.Value)
			imports[importName(is)] = p
		}
		fd := sf.decl
		// parameters
		var params []string
		var argNames []string
		pi := 0
		recvCall := ""
		if fd.Recv != nil {
			r := fd.Recv.List[0]
			rn := "recv"
			if len(r.Names) > 0 && r.Names[0].Name != "_" {
				rn = r.Names[0].Name
			}
			params = append(params, rn+" "+exprStr(fset, r.Type))
			recvCall = rn + "."
		}
		variadic := false
		for _, f := range fd.Type.Params.List {
			ts := exprStr(fset, f.Type)
			if strings.HasPrefix(ts, "...") {
				ts = "[]" + ts[3:]
				variadic = true
			}
			if len(f.Names) == 0 {
				nm := fmt.Sprintf("p%d", pi)
				pi++
				params = append(params, nm+" "+ts)
				argNames = append(argNames, nm)
			}
			for _, n := range f.Names {
				nm := n.Name
				if nm == "_" {
					nm = fmt.Sprintf("p%d", pi)
				}
				pi++
				params = append(params, nm+" "+ts)
				argNames = append(argNames, nm)
			}
		}
		if variadic && len(argNames) > 0 {
			argNames[len(argNames)-1] += "..."
		}
		// results
		var resNames []string
		if fd.Type.Results != nil {
			ri := 0
			total := 0
			for _, f := range fd.Type.Results.List {
				if len(f.Names) == 0 {
					total++
				} else {
					total += len(f.Names)
				}
			}
			for _, f := range fd.Type.Results.List {
				if len(f.Names) == 0 {
					if total == 1 {
						resNames = append(resNames, "result")
					} else {
						resNames = append(resNames, fmt.Sprintf("result%d", ri))
					}
					ri++
				}
				for _, n := range f.Names {
					nm := n.Name
					if nm == "_" {
						nm = fmt.Sprintf("result%d", ri)
					}
					ri++
					resNames = append(resNames, nm)
				}
			}
		}
		hn := harnessName(sp.Name)
		if sp.Behavior != "" {
			hn += "__" + sanitize(sp.Behavior)
		}
		fmt.Fprintf(&body, "// contract harness of %s (generated from %s:%d)\nfunc %s(%s) {\n", sp.Name, filepath.Base(sp.File), sp.Line, hn, strings.Join(params, ", "))
		// a shape is a precondition on the length of the parameter
		var shapeNames []string
		for n := range sp.Shape {
			shapeNames = append(shapeNames, n)
		}
		sort.Strings(shapeNames)
		isParam := map[string]bool{}
		for _, a := range argNames {
			isParam[strings.TrimSuffix(a, "...")] = true
		}
		if recvCall != "" {
			isParam[strings.TrimSuffix(recvCall, ".")] = true
		}
		for _, n := range shapeNames {
			n0 := n
			n = strings.TrimLeft(n, "*")
			sp.Shape[n] = sp.Shape[n0]
			// (a shape on a package-level variable cannot be imposed on the native run)
			if regexp.MustCompile(`^[A-Za-z_][A-Za-z_0-9.]*$`).MatchString(n) && isParam[strings.SplitN(n, ".", 2)[0]] {
				if contains(sp.MayNil, n) {
					fmt.Fprintf(&body, "\tvc.Requires(%q, %s == nil || len(%s) == %d)\n", "shape:"+n, n, n, sp.Shape[n])
				} else {
					fmt.Fprintf(&body, "\tvc.Requires(%q, len(%s) == %d)\n", "shape:"+n, n, sp.Shape[n])
				}
			}
		}
		for _, g := range sp.Given {
			fmt.Fprintf(&body, "\t%s\n", g)
		}
		for _, c := range sp.Requires {
			fmt.Fprintf(&body, "\tvc.Requires(%q, %s)\n", c.Label, c.Expr)
		}
		for _, l := range sp.Lets {
			fmt.Fprintf(&body, "\t%s\n", l)
			nm := strings.TrimSpace(strings.SplitN(l, ":=", 2)[0])
			for _, n := range strings.Split(nm, ",") {
				fmt.Fprintf(&body, "\t_ = %s\n", strings.TrimSpace(n))
			}
		}
		ctr := 0
		var ens []string
		for _, c := range sp.Ensures {
			e, defs, err := hoistOld(c.Expr, &ctr)
			if err != nil {
				unbound = append(unbound, fmt.Sprintf("%s: %s ensures %s: %v", sp.File, sp.Name, c.Label, err))
				continue
			}
			for _, d := range defs {
				fmt.Fprintf(&body, "\t%s\n", d)
			}
			ens = append(ens, fmt.Sprintf("\tvc.Ensures(%q, %s)\n", c.Label, e))
		}
		if len(sp.Assigns) > 0 {
			fmt.Fprintf(&body, "\tvc.Assigns(%s)\n", strings.Join(sp.Assigns, ", "))
		}
		if len(sp.AssignGlobals) > 0 {
			var q []string
			for _, g := range sp.AssignGlobals {
				q = append(q, strconv.Quote(g))
			}
			fmt.Fprintf(&body, "\tvc.AssignsGlobal(%s)\n", strings.Join(q, ", "))
		}
		for _, gl := range sp.GhostLogs {
			fmt.Fprintf(&body, "\tvc.GhostLog(%q, %s)\n", gl[0], gl[1])
		}
		body.WriteString("\tvc.CallSite()\n")
		call := fmt.Sprintf("%s%s(%s)", recvCall, fd.Name.Name, strings.Join(argNames, ", "))
		if len(resNames) > 0 {
			fmt.Fprintf(&body, "\t%s := %s\n", strings.Join(resNames, ", "), call)
			for _, r := range resNames {
				fmt.Fprintf(&body, "\t_ = %s\n", r)
			}
		} else {
			fmt.Fprintf(&body, "\t%s\n", call)
		}
		for _, e := range ens {
			body.WriteString(e)
		}
		body.WriteString("}\n\n")
		// loop clauses
		var keys []string
		for k := range sp.Loops {
			keys = append(keys, k)
		}
		sort.Strings(keys)
		for _, k := range keys {
			ls := sp.Loops[k]
			for _, c := range ls.Invs {
				c.Ghost = fmt.Sprintf("%s__inv_%s_%s", hn, sanitize(k), sanitize(c.Label))
				fmt.Fprintf(&body, "func %s(%s) bool {\n\treturn %s\n}\n\n", c.Ghost, c.Binders, c.Expr)
			}
			if c := ls.Decreases; c != nil {
				c.Ghost = fmt.Sprintf("%s__dec_%s", hn, sanitize(k))
				fmt.Fprintf(&body, "func %s(%s) int {\n\treturn %s\n}\n\n", c.Ghost, c.Binders, c.Expr)
			}
		}
		var callees []string
		for k := range sp.Calls {
			callees = append(callees, k)
		}
		sort.Strings(callees)
		for _, k := range callees {
			for _, c := range sp.Calls[k] {
				c.Ghost = fmt.Sprintf("%s__call_%s_%s", hn, sanitize(k), sanitize(c.Label))
				fmt.Fprintf(&body, "func %s(%s) bool {\n\treturn %s\n}\n\n", c.Ghost, c.Binders, c.Expr)
			}
		}
	}
	text := body.String()
	noStr := regexp.MustCompile(`"(\\.|[^"\\])*"`).ReplaceAllString(text, `""`)
	var hdr strings.Builder
	fmt.Fprintf(&hdr, "//go:build verif\n\n// Code generated by govc from zz_contracts_verif.go. DO NOT EDIT.\n\npackage %s\n\nimport (\n\tvc \"vspec/vc\"\n", pkgName)
	var names []string
	for n := range imports {
		names = append(names, n)
	}
	sort.Strings(names)
	// spec packages are always importable as vspec/<name>
	for _, sp := range specPackages {
		if strings.Contains(noStr, sp+".") {
			if _, clash := imports[sp]; !clash {
				fmt.Fprintf(&hdr, "\t%s \"vspec/%s\"\n", sp, sp)
			}
		}
	}
	// standard packages a contract may mention although the source file does not import them
	for _, std := range []string{"net", "bytes", "strings", "os"} {
		if _, have := imports[std]; !have && regexp.MustCompile(`(^|[^.\w])`+std+`\.[A-Z]`).MatchString(noStr) {
			imports[std] = std
			names = append(names, std)
		}
	}
	// packages of the tree a contract may name in a binder type although the source file does not import them
	for n, path := range map[string]string{"ngapType": "free5gclib/ngap/ngapType"} {
		if _, have := imports[n]; !have && regexp.MustCompile(`(^|[^.\w])`+n+`\.[A-Z]`).MatchString(noStr) {
			imports[n] = path
			names = append(names, n)
		}
	}
	sort.Strings(names)
	for _, n := range names {
		if n == "vc" || n == "." || n == "_" {
			continue
		}
		if regexp.MustCompile(`\b` + regexp.QuoteMeta(n) + `\.`).MatchString(noStr) {
			fmt.Fprintf(&hdr, "\t%s %q\n", n, imports[n])
		}
	}
	hdr.WriteString(")\n\nvar _ = vc.Imp\n\n")
	out := hdr.String() + text
	if err := os.WriteFile(filepath.Join(dir, "zz_verif_ghost.go"), []byte(out), 0o644); err != nil {
		return nil, err
	}
	return unbound, nil
}

var specPackages []string

// ---------------- loading ----------------

type LoadConfig struct {
	Repo     string
	Verif    string
	Scratch  string
	Patterns []string
}

func loadProgram(cfg LoadConfig) (*Loaded, error) {
	root := filepath.Join(cfg.Scratch, "repo")
	if err := snapshot(cfg.Repo, root); err != nil {
		return nil, err
	}
	// spec module copy (so that nothing under /verif is written)
	specDst := filepath.Join(cfg.Scratch, "spec")
	if out, err := run("/", nil, "rsync", "-a", "--delete", filepath.Join(cfg.Verif, "spec")+"/", specDst+"/"); err != nil {
		return nil, fmt.Errorf("rsync spec: %v %s", err, out)
	}
	ents, _ := os.ReadDir(specDst)
	specPackages = nil
	for _, e := range ents {
		if e.IsDir() && e.Name() != "vc" {
			specPackages = append(specPackages, e.Name())
		}
	}
	// go.work: add the spec module
	gw, err := os.ReadFile(filepath.Join(root, "go.work"))
	if err != nil {
		return nil, err
	}
	gws := strings.Replace(string(gw), "use (", "use (\n\t"+specDst, 1)
	if err := os.WriteFile(filepath.Join(root, "go.work"), []byte(gws), 0o644); err != nil {
		return nil, err
	}
	p := &Loaded{Root: root, Fset: token.NewFileSet(), specs: map[string]*FuncSpec{}, harnessOf: map[string]*ssa.Function{},
		lemmas: map[string]*LemmaInfo{}, infos: map[*ssa.Function]*FuncInfo{}, mutableGlobals: map[*ssa.Global]bool{},
		initOK: map[*ssa.Package]bool{}, rangeChecks: true}
	// contracts
	byDir := map[string][]*FuncSpec{}
	err = filepath.Walk(root, func(path string, info os.FileInfo, err error) error {
		if err != nil {
			return err
		}
		if !info.IsDir() && info.Name() == "zz_contracts_verif.go" {
			dir := filepath.Dir(path)
			sp, err := parseContracts(path, dir)
			if err != nil {
				return err
			}
			byDir[dir] = append(byDir[dir], sp...)
		}
		return nil
	})
	if err != nil {
		return nil, err
	}
	gfset := token.NewFileSet()
	for dir, sps := range byDir {
		ub, err := genGhost(gfset, dir, sps)
		if err != nil {
			return nil, err
		}
		p.unbound = append(p.unbound, ub...)
		p.specList = append(p.specList, sps...)
	}
	// lemma files: /verif/lemmas/<relative package dir>/*.go are added to the package
	lemRoot := filepath.Join(cfg.Verif, "lemmas")
	_ = filepath.Walk(lemRoot, func(path string, info os.FileInfo, err error) error {
		if err != nil || info.IsDir() || !strings.HasSuffix(path, ".go") {
			return nil
		}
		rel, _ := filepath.Rel(lemRoot, path)
		dst := filepath.Join(root, filepath.Dir(rel), "zz_verif_lemma_"+filepath.Base(rel))
		data, _ := os.ReadFile(path)
		os.MkdirAll(filepath.Dir(dst), 0o755)
		os.WriteFile(dst, data, 0o644)
		return nil
	})
	// generated lemmas: the round trips of the NAS message codec, from the type declarations of this copy
	if contains(cfg.Patterns, "free5gclib/nas/nasMessage") {
		skipped, err := genNasLemmas(root, filepath.Join(root, "src/free5gclib/nas/nasMessage/zz_verif_lemma_generated_c08.go"))
		if err != nil {
			return nil, fmt.Errorf("nasgen: %v", err)
		}
		p.genNotes = skipped
	}
	pcfg := &packages.Config{
		Mode: packages.NeedName | packages.NeedFiles | packages.NeedCompiledGoFiles | packages.NeedImports | packages.NeedDeps |
			packages.NeedTypes | packages.NeedSyntax | packages.NeedTypesInfo | packages.NeedTypesSizes | packages.NeedModule,
		Dir:        root,
		Env:        append(os.Environ(), append(goEnv, "GOWORK="+filepath.Join(root, "go.work"))...),
		BuildFlags: []string{"-tags=verif"},
		Fset:       p.Fset,
	}
	pkgs, err := packages.Load(pcfg, cfg.Patterns...)
	if err != nil {
		return nil, fmt.Errorf("packages.Load: %v", err)
	}
	var errs []string
	packages.Visit(pkgs, nil, func(pk *packages.Package) {
		for _, e := range pk.Errors {
			errs = append(errs, e.Error())
		}
	})
	if len(errs) > 0 {
		if len(errs) > 20 {
			errs = errs[:20]
		}
		return nil, fmt.Errorf("type errors in snapshot:\n%s", strings.Join(errs, "\n"))
	}
	p.Pkgs = pkgs
	prog, _ := ssautil.AllPackages(pkgs, ssa.GlobalDebug|ssa.InstantiateGenerics)
	prog.Build()
	p.Prog = prog
	p.allFuncs = ssautil.AllFunctions(prog)
	p.bindSpecs()
	p.findMutableGlobals()
	return p, nil
}

func (p *Loaded) pkgByDir(dir string) *packages.Package {
	var found *packages.Package
	packages.Visit(p.Pkgs, nil, func(pk *packages.Package) {
		if len(pk.GoFiles) > 0 && filepath.Dir(pk.GoFiles[0]) == dir {
			found = pk
		}
	})
	return found
}

func (p *Loaded) bindSpecs() {
	for _, sp := range p.specList {
		pk := p.pkgByDir(sp.Pkg)
		if pk == nil {
			continue // package not loaded in this run
		}
		sp2 := p.Prog.Package(pk.Types)
		if sp2 == nil {
			continue
		}
		var fn *ssa.Function
		if strings.HasPrefix(sp.Name, "(") {
			// (*T).M or (T).M
			i := strings.Index(sp.Name, ")")
			tn := strings.TrimPrefix(sp.Name[1:i], "*")
			ptr := strings.HasPrefix(sp.Name[1:i], "*")
			mn := sp.Name[i+2:]
			obj := pk.Types.Scope().Lookup(tn)
			if obj != nil {
				var t types.Type = obj.Type()
				if ptr {
					t = types.NewPointer(t)
				}
				fn = p.Prog.LookupMethod(t, pk.Types, mn)
			}
		} else {
			fn = sp2.Func(sp.Name)
		}
		if fn == nil {
			p.unbound = append(p.unbound, fmt.Sprintf("%s:%d: cannot bind %s", sp.File, sp.Line, sp.Name))
			continue
		}
		sp.SSAName = fnName(fn)
		if old, dup := p.specs[sp.SSAName]; !dup || (old.ProofOnly && !sp.ProofOnly) {
			p.specs[sp.SSAName] = sp // the first contract case (that is not proof-only) is the one callers see by default
		}
		if p.behaviors == nil {
			p.behaviors = map[string][]*FuncSpec{}
		}
		p.behaviors[sp.SSAName] = append(p.behaviors[sp.SSAName], sp)
		hn := harnessName(sp.Name)
		if sp.Behavior != "" {
			hn += "__" + sanitize(sp.Behavior)
		}
		if h := sp2.Func(hn); h != nil {
			p.harnessOf[sp.Key()] = h
		}
	}
	// lemmas: functions named vcLemma_* ; properties from the doc comment "prop: C06 C07"
	for _, pk := range p.Pkgs {
		sp := p.Prog.Package(pk.Types)
		if sp == nil {
			continue
		}
		for _, f := range pk.Syntax {
			for _, d := range f.Decls {
				fd, ok := d.(*ast.FuncDecl)
				if ok && fd.Doc != nil && fd.Recv == nil {
					var dt []string
					for _, c := range fd.Doc.List {
						dt = append(dt, strings.TrimPrefix(c.Text, "//"))
					}
					if k := directive(strings.Join(dt, "\n")); k != "" {
						if p.smtFuns == nil {
							p.smtFuns = map[string]string{}
						}
						p.smtFuns[pk.PkgPath+"."+fd.Name.Name] = k
					}
				}
				if !ok || !strings.HasPrefix(fd.Name.Name, "vcLemma_") {
					continue
				}
				li := &LemmaInfo{Name: fd.Name.Name, Fn: sp.Func(fd.Name.Name), Pkg: pk.PkgPath, Shape: map[string]int{}}
				if fd.Doc != nil {
					for _, c := range fd.Doc.List {
						t := strings.TrimSpace(strings.TrimPrefix(c.Text, "//"))
						if strings.HasPrefix(t, "prop:") {
							li.Props = append(li.Props, strings.Fields(strings.TrimPrefix(t, "prop:"))...)
						}
						if strings.HasPrefix(t, "opaque:") {
							li.OpaqueFns = append(li.OpaqueFns, strings.Fields(strings.TrimPrefix(t, "opaque:"))...)
						}
						if strings.HasPrefix(t, "inline:") {
							li.Inlines = append(li.Inlines, strings.Fields(strings.TrimPrefix(t, "inline:"))...)
						}
						if strings.HasPrefix(t, "split:") {
							fs := strings.Fields(strings.TrimPrefix(t, "split:"))
							if len(fs) == 2 {
								li.SplitParam = fs[0]
								fmt.Sscanf(fs[1], "%d..%d", &li.SplitLo, &li.SplitHi)
							}
						}
						if strings.HasPrefix(t, "simplify:") && strings.TrimSpace(strings.TrimPrefix(t, "simplify:")) == "linear" {
							li.Linear = true
						}
						if strings.HasPrefix(t, "tier:") {
							li.Tier = strings.TrimSpace(strings.TrimPrefix(t, "tier:"))
						}
						if strings.HasPrefix(t, "mode:") && strings.TrimSpace(strings.TrimPrefix(t, "mode:")) == "driver" {
							li.Driver = true
						}
						if strings.HasPrefix(t, "maynil:") {
							li.MayNil = append(li.MayNil, strings.Fields(strings.TrimPrefix(t, "maynil:"))...)
						}
						if strings.HasPrefix(t, "shape:") {
							fs := strings.Fields(strings.TrimPrefix(t, "shape:"))
							for i := 0; i+1 < len(fs); i += 2 {
								n, _ := strconv.Atoi(fs[i+1])
								li.Shape[fs[i]] = n
							}
						}
					}
				}
				p.lemmas[pk.PkgPath+"."+fd.Name.Name] = li
			}
		}
	}
}

// findMutableGlobals marks globals written (or whose address escapes) outside package initialisers.
func (p *Loaded) findMutableGlobals() {
	base := func(v ssa.Value) *ssa.Global {
		for {
			switch t := v.(type) {
			case *ssa.Global:
				return t
			case *ssa.FieldAddr:
				v = t.X
			case *ssa.IndexAddr:
				v = t.X
			default:
				return nil
			}
		}
	}
	for fn := range p.allFuncs {
		if fn.Blocks == nil {
			continue
		}
		// the package initialiser and the init functions written in the source (init#1, init#2, ...)
		isInit := (fn.Name() == "init" || strings.HasPrefix(fn.Name(), "init#")) && fn.Signature.Recv() == nil && fn.Parent() == nil
		for _, b := range fn.Blocks {
			for _, ins := range b.Instrs {
				switch i := ins.(type) {
				case *ssa.Store:
					if g := base(i.Addr); g != nil && !isInit {
						p.mutableGlobals[g] = true
					}
					if g, ok := i.Val.(*ssa.Global); ok {
						p.mutableGlobals[g] = true
					}
				case *ssa.FieldAddr, *ssa.IndexAddr, *ssa.UnOp, *ssa.DebugRef:
				case *ssa.Slice:
					// slicing a global array: contents may be written through the slice
					if g := base(i.X); g != nil && !isInit {
						if _, isArr := g.Type().(*types.Pointer).Elem().Underlying().(*types.Array); isArr {
							// conservative only when the slice is stored to or passed on; keep simple: treat as read-only view
							_ = g
						}
					}
				default:
					for _, op := range ins.Operands(nil) {
						if op == nil || *op == nil {
							continue
						}
						if g, ok := (*op).(*ssa.Global); ok && !isInit {
							p.mutableGlobals[g] = true
						}
					}
				}
			}
		}
	}
}

// constGlobal evaluates the package initialiser leniently to obtain the value of
// a global that nothing writes after initialisation.
func (p *Loaded) constGlobal(x *Exec, g *ssa.Global) (Value, bool) {
	pkg := g.Pkg
	// per-executor view of the initialiser's results (objects are re-created in x)
	if m, ok := x.initVals[pkg]; ok {
		v, ok2 := m[g]
		if !ok2 && !p.initOK[pkg] {
			return UnknownV{nil, "package initialiser not fully evaluated"}, true
		}
		return v, ok2
	}
	m := map[*ssa.Global]Value{}
	if x.initVals == nil {
		x.initVals = map[*ssa.Package]map[*ssa.Global]Value{}
	}
	x.initVals[pkg] = m
	run, done := p.initRuns[pkg]
	if !done {
		run = p.runInit(pkg)
		if p.initRuns == nil {
			p.initRuns = map[*ssa.Package]*initRun{}
		}
		p.initRuns[pkg] = run
	}
	if run != nil {
		for gg, o := range run.ix.globals {
			if gg.Pkg != pkg {
				continue
			}
			if v, ok := run.heap.m[o]; ok {
				m[gg] = x.importValue(run.ix, run.heap, v)
			}
		}
	}
	v, ok2 := m[g]
	if !ok2 && !p.initOK[pkg] {
		return UnknownV{nil, "package initialiser not fully evaluated"}, true
	}
	return v, ok2
}

type initRun struct {
	ix   *Exec
	heap *Heap
}

// runInit evaluates the package initialiser once (leniently); nil if there is none.
func (p *Loaded) runInit(pkg *ssa.Package) *initRun {
	initFn := pkg.Func("init")
	if initFn == nil || initFn.Blocks == nil {
		p.initOK[pkg] = true
		return nil
	}
	savedCur := curExec
	defer func() { curExec = savedCur }()
	ix := NewExec(p)
	ix.lenient = true
	ix.initPkg = pkg
	ix.dry = 1
	st := &State{pc: True(), heap: &Heap{m: map[*Object]Value{}}, regs: map[ssa.Value]Value{}, iters: map[*ssa.BasicBlock]int{}, inLoop: map[*ssa.BasicBlock]*loopCut{}}
	ix.st = st
	ix.unrollLimit = 5000
	ok := true
	func() {
		defer func() {
			if r := recover(); r != nil {
				if u, isU := r.(Unsupported); isU {
					ok = false
					if os.Getenv("GOVC_DEBUG") != "" {
						fmt.Fprintf(os.Stderr, "init of %s aborted: %s\n", pkg, u.Msg)
					}
					return
				}
				panic(r)
			}
		}()
		fr := &Frame{fn: initFn, info: p.info(initFn), ghost: true}
		ix.run(fr, st, initFn.Blocks[0], nil)
		if len(fr.returns) > 0 {
			st = &State{heap: fr.returns[len(fr.returns)-1].heap}
		}
	}()
	p.initOK[pkg] = ok && !ix.lenientFailed
	return &initRun{ix: ix, heap: st.heap}
}

// importValue copies a value produced by the initialiser run into x (objects are re-created as constants).
func (x *Exec) importValue(from *Exec, heap *Heap, v Value) Value {
	switch vv := v.(type) {
	case StructV:
		f := make([]Value, len(vv.F))
		for i := range f {
			f[i] = x.importValue(from, heap, vv.F[i])
		}
		return StructV{f}
	case ArrayV:
		e := make([]Value, len(vv.E))
		for i := range e {
			e[i] = x.importValue(from, heap, vv.E[i])
		}
		return ArrayV{e}
	case SliceV:
		if vv.Obj == nil {
			return vv
		}
		o := x.importObject(from, heap, vv.Obj)
		vv.Obj = o
		return vv
	case PtrV:
		if vv.Obj == nil {
			return vv
		}
		if vv.Obj.Global != nil {
			return PtrV{Obj: x.globalObject(vv.Obj.Global), Path: vv.Path, Nil: vv.Nil}
		}
		vv.Obj = x.importObject(from, heap, vv.Obj)
		return vv
	case *MapData:
		return vv
	case MapV:
		nv := MapV{Def: vv.Def}
		if vv.D != nil {
			for i, k := range vv.D.Keys {
				nv.Keys = append(nv.Keys, k)
				nv.Vals = append(nv.Vals, x.importValue(from, heap, vv.D.Vals[i]))
			}
		}
		return nv
	case IfaceV:
		if vv.V != nil {
			vv.V = x.importValue(from, heap, vv.V)
		}
		return vv
	}
	return v
}

func (x *Exec) importObject(from *Exec, heap *Heap, o *Object) *Object {
	if n, ok := x.imported[o]; ok {
		return n
	}
	n := x.newObject(o.Typ, o.Name)
	n.Birth = -1
	if x.imported == nil {
		x.imported = map[*Object]*Object{}
	}
	x.imported[o] = n
	var val Value
	if v, ok := heap.m[o]; ok {
		val = v
	} else if v, ok := from.constObjs[o]; ok {
		val = v
	} else {
		val = UnknownV{nil, "uninitialised object from initialiser"}
	}
	x.constObjs[n] = x.importValue(from, heap, val)
	return n
}

func (p *Loaded) allPackages() []*packages.Package {
	var out []*packages.Package
	packages.Visit(p.Pkgs, nil, func(pk *packages.Package) { out = append(out, pk) })
	return out
}
