package main

// Structural obligations (class K): decided on go/types without a solver.

import (
	"encoding/json"
	"fmt"
	"go/types"
	"os"
	"path/filepath"
	"reflect"
	"sort"
)

// structuralObligations returns the K obligations of a property.
func structuralObligations(p *Loaded, verif string, kinds []string) []*Obligation {
	var out []*Obligation
	for _, k := range kinds {
		switch k {
		case "conf_tags":
			out = append(out, confTags(p, verif)...)
		}
	}
	return out
}

func kObl(fn, label string, ok bool, detail string) *Obligation {
	o := &Obligation{Name: fmt.Sprintf("%s#K:%s", fn, label), Class: "K", Func: fn, Label: label, PC: True(), Goal: BoolC(ok), Trivial: ok, Pos: detail}
	if !ok {
		o.Status = "failed"
		o.Result = &SolveResult{Verdict: "structural", Solver: "go/types", Output: detail}
	}
	return o
}

// confTags: the configuration struct has exactly one field per documented key, with that yaml tag
// and a Go type of the documented kind; and no field without a documented key.
func confTags(p *Loaded, verif string) []*Obligation {
	fn := "stgutg.Conf"
	data, err := os.ReadFile(filepath.Join(verif, "spec", "config_keys.json"))
	if err != nil {
		return []*Obligation{kObl(fn, "conf_tags.spec", false, err.Error())}
	}
	var spec struct {
		Keys map[string]string `json:"keys"`
	}
	if err := json.Unmarshal(data, &spec); err != nil {
		return []*Obligation{kObl(fn, "conf_tags.spec", false, err.Error())}
	}
	var conf *types.Struct
	for _, pk := range p.allPackages() {
		if pk.PkgPath == "stgutg" {
			if o := pk.Types.Scope().Lookup("Conf"); o != nil {
				if st, ok := o.Type().Underlying().(*types.Struct); ok {
					for i := 0; i < st.NumFields(); i++ {
						if st.Field(i).Name() == "Configuration" {
							conf, _ = st.Field(i).Type().Underlying().(*types.Struct)
						}
					}
				}
			}
		}
	}
	if conf == nil {
		return []*Obligation{kObl(fn, "conf_tags.struct", false, "stgutg.Conf.Configuration not found")}
	}
	byTag := map[string][]*types.Var{}
	var extra []string
	for i := 0; i < conf.NumFields(); i++ {
		tag := reflect.StructTag(conf.Tag(i)).Get("yaml")
		if _, ok := spec.Keys[tag]; !ok {
			extra = append(extra, fmt.Sprintf("%s `%s`", conf.Field(i).Name(), conf.Tag(i)))
		}
		byTag[tag] = append(byTag[tag], conf.Field(i))
	}
	var keys []string
	for k := range spec.Keys {
		keys = append(keys, k)
	}
	sort.Strings(keys)
	var out []*Obligation
	for _, k := range keys {
		fs := byTag[k]
		ok := len(fs) == 1
		detail := fmt.Sprintf("%d fields carry yaml:%q", len(fs), k)
		if ok {
			b, isB := fs[0].Type().Underlying().(*types.Basic)
			switch spec.Keys[k] {
			case "string":
				ok = isB && b.Kind() == types.String
			case "int":
				ok = isB && b.Info()&types.IsInteger != 0 && b.Info()&types.IsUnsigned == 0
			case "uint":
				ok = isB && b.Info()&types.IsInteger != 0
			}
			detail = fmt.Sprintf("field %s has type %s, documented kind %s", fs[0].Name(), fs[0].Type(), spec.Keys[k])
		}
		out = append(out, kObl(fn, "conf_tags."+k, ok, detail))
	}
	out = append(out, kObl(fn, "conf_tags.no_undocumented_field", len(extra) == 0, fmt.Sprint(extra)))
	return out
}
