package main

// Structural obligations (class K): decided on go/types without a solver.

import (
	"encoding/json"
	"fmt"
	"go/token"
	"go/types"
	"os"
	"path/filepath"
	"reflect"
	"regexp"
	"sort"
	"strconv"
	"strings"

	"golang.org/x/tools/go/callgraph/cha"
	"golang.org/x/tools/go/ssa"
)

// structuralObligations returns the K obligations of a property.
func structuralObligations(p *Loaded, verif string, kinds []string, entries []string) []*Obligation {
	var out []*Obligation
	for _, k := range kinds {
		switch k {
		case "conf_tags":
			out = append(out, confTags(p, verif)...)
		case "shared_state":
			out = append(out, sharedState(p, entries)...)
		case "wide_int_lb0":
			out = append(out, wideIntLB0(p)...)
		}
	}
	return out
}

func kObl(fn, label string, ok bool, detail string) *Obligation {
	o := &Obligation{Name: fmt.Sprintf("%s#K:%s", fn, label), Class: "K", Func: fn, Label: label, PC: True(), Goal: BoolC(ok), Trivial: ok, Pos: detail}
	if !ok {
		o.Status = "failed"
		o.Result = &SolveResult{Verdict: "structural", Solver: "go/types", Output: detail}
	}
	return o
}

// confTags: the configuration struct has exactly one field per documented key, with that yaml tag
// and a Go type of the documented kind; and no field without a documented key.
func confTags(p *Loaded, verif string) []*Obligation {
	fn := "stgutg.Conf"
	data, err := os.ReadFile(filepath.Join(verif, "spec", "config_keys.json"))
	if err != nil {
		return []*Obligation{kObl(fn, "conf_tags.spec", false, err.Error())}
	}
	var spec struct {
		Keys map[string]string `json:"keys"`
	}
	if err := json.Unmarshal(data, &spec); err != nil {
		return []*Obligation{kObl(fn, "conf_tags.spec", false, err.Error())}
	}
	var conf *types.Struct
	for _, pk := range p.allPackages() {
		if pk.PkgPath == "stgutg" {
			if o := pk.Types.Scope().Lookup("Conf"); o != nil {
				if st, ok := o.Type().Underlying().(*types.Struct); ok {
					for i := 0; i < st.NumFields(); i++ {
						if st.Field(i).Name() == "Configuration" {
							conf, _ = st.Field(i).Type().Underlying().(*types.Struct)
						}
					}
				}
			}
		}
	}
	if conf == nil {
		return []*Obligation{kObl(fn, "conf_tags.struct", false, "stgutg.Conf.Configuration not found")}
	}
	byTag := map[string][]*types.Var{}
	var extra []string
	for i := 0; i < conf.NumFields(); i++ {
		tag := reflect.StructTag(conf.Tag(i)).Get("yaml")
		if _, ok := spec.Keys[tag]; !ok {
			extra = append(extra, fmt.Sprintf("%s `%s`", conf.Field(i).Name(), conf.Tag(i)))
		}
		byTag[tag] = append(byTag[tag], conf.Field(i))
	}
	var keys []string
	for k := range spec.Keys {
		keys = append(keys, k)
	}
	sort.Strings(keys)
	var out []*Obligation
	for _, k := range keys {
		fs := byTag[k]
		ok := len(fs) == 1
		detail := fmt.Sprintf("%d fields carry yaml:%q", len(fs), k)
		if ok {
			b, isB := fs[0].Type().Underlying().(*types.Basic)
			switch spec.Keys[k] {
			case "string":
				ok = isB && b.Kind() == types.String
			case "int":
				ok = isB && b.Info()&types.IsInteger != 0 && b.Info()&types.IsUnsigned == 0 && wideInt(b)
			case "uint":
				ok = isB && b.Info()&types.IsInteger != 0 && wideInt(b)
			}
			detail = fmt.Sprintf("field %s has type %s, documented kind %s", fs[0].Name(), fs[0].Type(), spec.Keys[k])
		}
		out = append(out, kObl(fn, "conf_tags."+k, ok, detail))
	}
	out = append(out, kObl(fn, "conf_tags.no_undocumented_field", len(extra) == 0, fmt.Sprint(extra)))
	return out
}

// sharedState (C20): no function of the repository reachable from the listed entry points writes a
// package-level variable, or reads one that is written after initialisation.  Reachability is the
// class-hierarchy call graph (every method that can implement an invoked interface method).
func sharedState(p *Loaded, entries []string) []*Obligation {
	fn := "shared-state"
	cg := cha.CallGraph(p.Prog)
	inRepo := func(f *ssa.Function) bool {
		if f == nil || f.Pkg == nil {
			if f != nil && f.Parent() != nil {
				f = f.Parent()
				return f.Pkg != nil && (strings.HasPrefix(f.Pkg.Pkg.Path(), "free5gclib/") || f.Pkg.Pkg.Path() == "tglib" || strings.HasPrefix(f.Pkg.Pkg.Path(), "tglib/") || f.Pkg.Pkg.Path() == "stgutg")
			}
			return false
		}
		pp := f.Pkg.Pkg.Path()
		return strings.HasPrefix(pp, "free5gclib/") || pp == "tglib" || strings.HasPrefix(pp, "tglib/") || pp == "stgutg"
	}
	inRepoPkg := func(pk *ssa.Package) bool {
		if pk == nil {
			return false
		}
		pp := pk.Pkg.Path()
		return strings.HasPrefix(pp, "free5gclib/") || pp == "tglib" || strings.HasPrefix(pp, "tglib/") || pp == "stgutg"
	}
	reach := map[*ssa.Function]string{}
	var work []*ssa.Function
	found := map[string]bool{}
	for f := range p.allFuncs {
		for _, e := range entries {
			if fnName(f) == e {
				reach[f] = e
				work = append(work, f)
				found[e] = true
			}
		}
	}
	var out []*Obligation
	for _, e := range entries {
		out = append(out, kObl(fn, "entry."+e, found[e], "entry point not found in the loaded program"))
	}
	for len(work) > 0 {
		f := work[len(work)-1]
		work = work[:len(work)-1]
		n := cg.Nodes[f]
		if n == nil {
			continue
		}
		for _, e := range n.Out {
			c := e.Callee.Func
			if _, ok := reach[c]; ok || !inRepo(c) || c.Blocks == nil {
				continue
			}
			reach[c] = reach[f]
			work = append(work, c)
		}
	}
	type hit struct{ fns map[string]bool }
	writes := map[string]*hit{}
	reads := map[string]*hit{}
	escapes := map[string]*hit{}
	base := func(v ssa.Value) *ssa.Global {
		for {
			switch t := v.(type) {
			case *ssa.Global:
				return t
			case *ssa.FieldAddr:
				v = t.X
			case *ssa.IndexAddr:
				v = t.X
			case *ssa.Slice:
				v = t.X
			default:
				return nil
			}
		}
	}
	note := func(m map[string]*hit, g *ssa.Global, f *ssa.Function) {
		k := g.String()
		if m[k] == nil {
			m[k] = &hit{map[string]bool{}}
		}
		m[k].fns[fnName(f)] = true
	}
	for f := range reach {
		if f.Name() == "init" || strings.HasPrefix(f.Name(), "init#") {
			continue
		}
		for _, b := range f.Blocks {
			for _, ins := range b.Instrs {
				switch i := ins.(type) {
				case *ssa.Store:
					if g := base(i.Addr); g != nil {
						note(writes, g, f)
					}
				case *ssa.UnOp:
					if g := base(i.X); g != nil && p.mutableGlobals[g] {
						note(reads, g, f)
					}
				case *ssa.FieldAddr, *ssa.IndexAddr, *ssa.DebugRef:
				default:
					// the address of a package-level variable handed to a call (a method of a shared
					// object such as sync.Map, a cache, a pool) or stored away: it may be written there
					for _, op := range ins.Operands(nil) {
						if op == nil || *op == nil {
							continue
						}
						if g := base(*op); g != nil {
							if _, isSlice := ins.(*ssa.Slice); isSlice && !p.mutableGlobals[g] {
								continue // read-only view of a constant table
							}
							note(escapes, g, f)
						}
					}
				}
			}
		}
	}
	// Writes THROUGH a reference read from a package-level variable (a slice, map or pointer kept in
	// a table, a cache of buffers): the variable itself is never assigned after initialisation, but
	// what it refers to is shared.  Taint: the loaded value and everything derived from it by
	// indexing, slicing, field selection, map lookup, append, phi, conversion; across calls of
	// repository functions through their parameters (context-insensitive fixpoint).  A store through
	// a tainted address, a map update, an append to / copy into a tainted slice, or handing a tainted
	// reference to one of the standard-library writers listed below is reported.
	through := map[string]*hit{}
	isRefType := func(t types.Type) bool {
		switch u := t.Underlying().(type) {
		case *types.Slice, *types.Map:
			return true
		case *types.Pointer:
			s := u.Elem().String()
			return !strings.Contains(s, "logrus.") // loggers: assumed safe for concurrent use
		}
		return false
	}
	taintOf := map[ssa.Value]*ssa.Global{}
	var tainted func(v ssa.Value, depth int) *ssa.Global
	tainted = func(v ssa.Value, depth int) *ssa.Global {
		if g, ok := taintOf[v]; ok {
			return g
		}
		if depth > 40 {
			return nil
		}
		var g *ssa.Global
		switch t := v.(type) {
		case *ssa.UnOp:
			if t.Op == token.MUL {
				if gg := base(t.X); gg != nil && inRepoPkg(gg.Pkg) && isRefType(t.Type()) {
					g = gg
				} else if gg == nil {
					// a load through a tainted address yields a shared reference too, if it is one
					if isRefType(t.Type()) {
						g = tainted(t.X, depth+1)
					}
				}
			}
		case *ssa.IndexAddr:
			g = tainted(t.X, depth+1)
		case *ssa.FieldAddr:
			g = tainted(t.X, depth+1)
		case *ssa.Slice:
			g = tainted(t.X, depth+1)
		case *ssa.Lookup:
			if isRefType(t.Type()) || t.CommaOk {
				g = tainted(t.X, depth+1)
			}
		case *ssa.Extract:
			g = tainted(t.Tuple, depth+1)
		case *ssa.ChangeType:
			g = tainted(t.X, depth+1)
		case *ssa.Convert:
			if isRefType(t.Type()) {
				g = tainted(t.X, depth+1)
			}
		case *ssa.Phi:
			taintOf[v] = nil
			for _, e := range t.Edges {
				if gg := tainted(e, depth+1); gg != nil {
					g = gg
				}
			}
		case *ssa.Call:
			if b, ok := t.Call.Value.(*ssa.Builtin); ok && b.Name() == "append" && len(t.Call.Args) > 0 {
				g = tainted(t.Call.Args[0], depth+1)
			}
		}
		taintOf[v] = g
		return g
	}
	stdWriters := map[string]int{ // callee -> index of the argument written through
		"(encoding/binary.bigEndian).PutUint16": 1, "(encoding/binary.bigEndian).PutUint32": 1, "(encoding/binary.bigEndian).PutUint64": 1,
		"(encoding/binary.littleEndian).PutUint16": 1, "(encoding/binary.littleEndian).PutUint32": 1, "(encoding/binary.littleEndian).PutUint64": 1,
		"crypto/rand.Read": 0, "io.ReadFull": 1, "encoding/hex.Decode": 0, "encoding/hex.Encode": 0,
	}
	for round := 0; round < 20; round++ {
		changed := false
		for f := range reach {
			if f.Name() == "init" || strings.HasPrefix(f.Name(), "init#") {
				continue
			}
			for _, b := range f.Blocks {
				for _, ins := range b.Instrs {
					switch i := ins.(type) {
					case *ssa.Store:
						if base(i.Addr) == nil {
							if g := tainted(i.Addr, 0); g != nil {
								note(through, g, f)
							}
						}
					case *ssa.MapUpdate:
						if g := tainted(i.Map, 0); g != nil {
							note(through, g, f)
						}
					case ssa.CallInstruction:
						cc := i.Common()
						if bi, ok := cc.Value.(*ssa.Builtin); ok {
							switch bi.Name() {
							case "append", "copy":
								if len(cc.Args) > 0 {
									if g := tainted(cc.Args[0], 0); g != nil {
										note(through, g, f)
									}
								}
							case "delete":
								if g := tainted(cc.Args[0], 0); g != nil {
									note(through, g, f)
								}
							}
							continue
						}
						if cc.IsInvoke() {
							// dst of cipher.Block / cipher.Stream / hash.Hash methods
							switch cc.Method.Name() {
							case "Encrypt", "Decrypt", "XORKeyStream", "Read":
								if len(cc.Args) > 0 {
									if g := tainted(cc.Args[0], 0); g != nil {
										note(through, g, f)
									}
								}
							}
							continue
						}
						callee := cc.StaticCallee()
						if callee == nil {
							continue
						}
						if idx, ok := stdWriters[fnName(callee)]; ok {
							args := cc.Args
							if callee.Signature.Recv() != nil {
								args = args[1:]
							}
							if idx < len(args) {
								if g := tainted(args[idx], 0); g != nil {
									note(through, g, f)
								}
							}
							continue
						}
						if _, ok := reach[callee]; ok && callee.Blocks != nil {
							for k, a := range cc.Args {
								if k >= len(callee.Params) {
									break
								}
								if g := tainted(a, 0); g != nil && isRefType(callee.Params[k].Type()) {
									if taintOf[callee.Params[k]] == nil {
										taintOf[callee.Params[k]] = g
										changed = true
									}
								}
							}
						}
					}
				}
			}
		}
		if !changed {
			break
		}
		// parameter taints are new facts: forget the derived (negative) results and go round again
		for v, g := range taintOf {
			if _, isParam := v.(*ssa.Parameter); !isParam && g == nil {
				delete(taintOf, v)
			}
		}
	}
	keys := func(m map[string]*hit) []string {
		var ks []string
		for k := range m {
			ks = append(ks, k)
		}
		sort.Strings(ks)
		return ks
	}
	for _, k := range keys(through) {
		if writes[k] != nil {
			continue
		}
		var fs []string
		for f := range through[k].fns {
			fs = append(fs, f)
		}
		sort.Strings(fs)
		out = append(out, kObl(fn, "no-write-through."+k, false, "what it refers to is written by "+strings.Join(fs, ", ")))
	}
	for _, k := range keys(writes) {
		var fs []string
		for f := range writes[k].fns {
			fs = append(fs, f)
		}
		sort.Strings(fs)
		out = append(out, kObl(fn, "no-write."+k, false, "written by "+strings.Join(fs, ", ")))
	}
	for _, k := range keys(reads) {
		if writes[k] != nil {
			continue
		}
		var fs []string
		for f := range reads[k].fns {
			fs = append(fs, f)
		}
		sort.Strings(fs)
		out = append(out, kObl(fn, "no-read-of-mutable."+k, false, "read by "+strings.Join(fs, ", ")))
	}
	for _, k := range keys(escapes) {
		if writes[k] != nil {
			continue
		}
		var fs []string
		for f := range escapes[k].fns {
			fs = append(fs, f)
		}
		sort.Strings(fs)
		out = append(out, kObl(fn, "no-shared-object."+k, false, "address handed on by "+strings.Join(fs, ", ")))
	}
	out = append(out, kObl(fn, fmt.Sprintf("reachable-functions-scanned"), len(reach) > 0, fmt.Sprintf("%d functions", len(reach))))
	sharedStateCount = len(reach)
	return out
}

var sharedStateCount int

// wideIntLB0 (C03, C04): every INTEGER field of ngapType whose constraint spans more than 64K values
// has lower bound 0 — the domain for which appendInteger's clause `wide` is stated.  Read off the
// aper struct tags of the tree under verification.
func wideIntLB0(p *Loaded) []*Obligation {
	fn := "ngapType"
	tagRe := regexp.MustCompile(`valueLB:(-?\d+),valueUB:(-?\d+)`)
	var bad []string
	n, wide := 0, 0
	for _, spk := range p.Prog.AllPackages() {
		if spk.Pkg.Path() != "free5gclib/ngap/ngapType" {
			continue
		}
		sc := spk.Pkg.Scope()
		for _, name := range sc.Names() {
			tn, ok := sc.Lookup(name).(*types.TypeName)
			if !ok {
				continue
			}
			st, ok := tn.Type().Underlying().(*types.Struct)
			if !ok {
				continue
			}
			for i := 0; i < st.NumFields(); i++ {
				m := tagRe.FindStringSubmatch(reflect.StructTag(st.Tag(i)).Get("aper"))
				if m == nil {
					continue
				}
				b, isB := st.Field(i).Type().Underlying().(*types.Basic)
				if !isB || b.Info()&types.IsInteger == 0 {
					continue
				}
				n++
				lb, _ := strconv.ParseInt(m[1], 10, 64)
				ub, _ := strconv.ParseInt(m[2], 10, 64)
				if ub-lb >= 65536 {
					wide++
					if lb != 0 {
						bad = append(bad, fmt.Sprintf("%s.%s (%d..%d)", name, st.Field(i).Name(), lb, ub))
					}
				}
			}
		}
	}
	return []*Obligation{
		kObl(fn, "wide-integer-ranges-start-at-0", len(bad) == 0 && wide > 0, fmt.Sprintf("%d constrained INTEGER fields, %d with a range above 64K; lower bound not 0: %v", n, wide, bad)),
	}
}

// wideInt: an integer type of at least 32 bits — every documented numeric key (ports, counts, SST
// 0..255, bit length) fits; a narrower field makes yaml.v2 refuse legal values, which GetConfiguration
// does not report.
func wideInt(b *types.Basic) bool {
	switch b.Kind() {
	case types.Int, types.Int32, types.Int64, types.Uint, types.Uint32, types.Uint64, types.Uintptr:
		return true
	}
	return false
}
