package main

import (
	"time"
	"fmt"
	"path/filepath"
	"go/constant"
	"go/token"
	"go/types"
	"math/big"
	"os"
	"runtime"
	"sort"
	"strings"

	"golang.org/x/tools/go/ssa"
)

// ---------------- executor state ----------------

type State struct {
	pc      *Term
	heap    *Heap
	regs    map[ssa.Value]Value
	from    *ssa.BasicBlock
	phiDone *ssa.BasicBlock
	skipCut *ssa.BasicBlock
	iters   map[*ssa.BasicBlock]int
	inLoop  map[*ssa.BasicBlock]*loopCut
	ghost   map[string][]Value // ghost logs written by the contracts of trusted calls
}

type loopCut struct {
	variant *Term // value of the variant at loop head (nil if none)
}

func (s *State) fork(pc *Term) *State {
	n := &State{pc: pc, heap: s.heap.clone(), regs: make(map[ssa.Value]Value, len(s.regs)), from: s.from}
	for k, v := range s.regs {
		n.regs[k] = v
	}
	n.iters = map[*ssa.BasicBlock]int{}
	for k, v := range s.iters {
		n.iters[k] = v
	}
	n.inLoop = map[*ssa.BasicBlock]*loopCut{}
	for k, v := range s.inLoop {
		n.inLoop[k] = v
	}
	if s.ghost != nil {
		n.ghost = map[string][]Value{}
		for k, v := range s.ghost {
			n.ghost[k] = append([]Value{}, v...)
		}
	}
	return n
}

type Obligation struct {
	Name    string // pkg.func#class:label
	Class   string
	Func    string
	Label   string
	NHyp    int // number of assumptions visible
	PC      *Term
	Goal    *Term
	Trivial bool
	Vacuous bool // reachability obligation of a harness whose end no path reaches
	RawScript string // class M: a hand-written SMT-LIB script (negated claim)
	Pos     string
	Result  *SolveResult
	Inputs  []inputRec
	// filled by discharge
	Status string // proved | failed | unknown
}

type inputRec struct {
	Name string
	T    *Term
	Arr  *Term
	Len  *Term
	W    int
	Typ  types.Type
}

type retRec struct {
	pc    *Term
	vals  []Value
	heap  *Heap
	ghost map[string][]Value
}

type Frame struct {
	entryHeap *Heap
	fn      *ssa.Function
	info    *FuncInfo
	spec    *FuncSpec
	returns []retRec
	ghost   bool
	depth   int
	args    []Value
}

type Exec struct {
	P         *Loaded
	st        *State
	cleanExit *Term // path conditions of os.Exit(0) in driver mode
	callSeen  map[string]bool // call clauses evaluated at least once (callee.label)
	deadline  time.Time // execution budget of the target
	steps     int
	loopSeen, loopBack map[string]bool // loops cut by invariants / whose back edge was reached
	callGuards   map[string]bool // call sites that already carry a vacuity guard
	callGuardSeq int
	ropes map[*Object]*rope // how byte strings were put together by successive writes (models_buf.go)
	assumes   []*Term
	obls      []*Obligation
	inputs    []inputRec
	objCtr    int
	epoch     int
	strCache  map[string]SliceV
	constObjs map[*Object]Value
	globals   map[*ssa.Global]*Object
	tables    map[string]string
	tableNames map[string]string
	mayNil    map[string]bool
	shapeLen  map[string]int
	ghost     int // >0: executing ghost code (no safety obligations)
	curFunc   []string
	writeLog  []map[*Object]bool
	// contract machinery
	mode        string // "prove" or "" (set per harness)
	target      *ssa.Function
	calleeMode  []*calleeCtx
	notes       map[string]bool // unmodelled calls etc.
	inlined     map[string]bool
	usedSpecs   map[string]bool
	assumedCtr  map[string]bool
	harness     string
	depth       int
	sCounter    map[string]int
	unrollLimit int
	io          *ioGhost
	dry         int
	dryLoop     *LoopInfo
	lenient     bool
	utMemo      map[[2]int]*Object // elements of untracked sequences by (sequence object, index term)
	lazy        bool // freshValue: pointers beyond the depth and sequences of non-scalars become lazy objects
	lenientFailed bool
	imported    map[*Object]*Object
	initPkg     *ssa.Package
	substSeen   map[*Object]bool
	globalInitVal map[*Object]Value
	constCache  map[*ssa.Const]Value
	reqHyp      int
	pureMemo    map[string]*pureEntry
	selectReturn int // >0: keep only the n-th return of the function under contract (per-path postconditions)
	numReturns   int
	selectFn     *ssa.Function
	behavior, behaviorFn string
	noSafety     bool
	specOverride map[*ssa.Function]*FuncSpec
	initVals     map[*ssa.Package]map[*ssa.Global]Value
	facts        map[int]bool
	probeOpaque  map[string]bool
	forceInline  map[string]bool
	driver       bool // driver-level target: fail-stop obligations, tolerant of unknown values
	assumePre    bool // preconditions of callee contracts are assumed (reported), not proved
	sends        int
	exitNonZero  bool // every os.Exit reached must carry a non-zero status
	curCall      ssa.Instruction
	pcSubstFor   *Term
	pcSubstMap   map[int]*Term
	eqConst      map[int]*Term
}

type ioGhost struct {
	exits []*Term
}

type calleeCtx struct {
	ghostLen   map[string]*Term  // use mode: length of a ghost log of the callee's own abstraction
	ghostBytes map[string]SliceV // use mode: its entries
	fresh    map[int]bool
	havocked map[*Object]bool
	fn      *ssa.Function
	caller  string
	result  Value
	done    bool
	assigns []Value
	prove   bool
	probe   bool // only collect the preconditions (behavior selection)
	reqs    []*Term
	epoch   int
	pre     *Heap
}

func NewExec(p *Loaded) *Exec {
	return &Exec{P: p, strCache: map[string]SliceV{}, constObjs: map[*Object]Value{}, globals: map[*ssa.Global]*Object{},
		tables: map[string]string{}, tableNames: map[string]string{}, mayNil: map[string]bool{}, shapeLen: map[string]int{},
		notes: map[string]bool{}, inlined: map[string]bool{}, usedSpecs: map[string]bool{}, assumedCtr: map[string]bool{},
		sCounter: map[string]int{}, unrollLimit: 80, substSeen: map[*Object]bool{}, constCache: map[*ssa.Const]Value{}}
}

func (x *Exec) pc() *Term {
	if x.st == nil {
		return True()
	}
	return x.st.pc
}

func (x *Exec) assume(t *Term) {
	if os.Getenv("GOVC_DEBUG_ASSUME") != "" && t.IsFalse() {
		fmt.Fprintf(os.Stderr, "ASSUME false in %v\n%s\n", x.curFunc, debugStack())
	}
	if x.dry > 0 {
		return
	}
	if x.pc().IsTrue() {
		x.noteFacts(t)
	}
	t = Imp(x.pc(), t)
	if t.IsTrue() {
		return
	}
	x.assumes = append(x.assumes, t)
}

// noteFacts records unconditional literals (and equalities with constants) among the
// assumptions, so that branches they decide are not explored.
func (x *Exec) noteFacts(t *Term) {
	if x.facts == nil {
		x.facts = map[int]bool{}
		x.eqConst = map[int]*Term{}
	}
	for _, c := range conj(t) {
		if c.Op == ONot {
			x.facts[c.Args[0].id] = false
			continue
		}
		x.facts[c.id] = true
		if c.Op == OEq {
			a, b := c.Args[0], c.Args[1]
			if a.IsConst() {
				a, b = b, a
			}
			if b.IsConst() && !a.IsConst() {
				x.eqConst[a.id] = b
			}
		}
	}
}

// decideByFacts simplifies a branch condition with the recorded facts.
func (x *Exec) decideByFacts(c *Term) *Term {
	if x.facts == nil || c.IsConst() {
		return c
	}
	if v, ok := x.facts[c.id]; ok {
		return BoolC(v)
	}
	switch c.Op {
	case ONot:
		r := x.decideByFacts(c.Args[0])
		if r.IsConst() {
			return Not(r)
		}
	case OEq:
		a, b := c.Args[0], c.Args[1]
		if a.IsConst() {
			a, b = b, a
		}
		if k, ok := x.eqConst[a.id]; ok && b.IsConst() {
			return BoolC(k.Val.Cmp(b.Val) == 0)
		}
	}
	return c
}

func (x *Exec) noteInput(name string, v *Term, t types.Type) {
	x.inputs = append(x.inputs, inputRec{Name: name, T: v, Typ: t})
}
func (x *Exec) noteInputArr(name string, arr, ln *Term, w int) {
	x.inputs = append(x.inputs, inputRec{Name: name, Arr: arr, Len: ln, W: w})
}

func (x *Exec) noteWrite(o *Object) {
	for _, l := range x.writeLog {
		l[o] = true
	}
}

func (x *Exec) funcName() string {
	if len(x.curFunc) == 0 {
		return "?"
	}
	return x.curFunc[len(x.curFunc)-1]
}

// oblige records a proof obligation: under the current path condition, goal holds.
func (x *Exec) oblige(class, label string, goal *Term, pos token.Pos) {
	fn := x.funcName()
	if x.dry > 0 {
		return
	}
	if class == "S" || class == "R" {
		if x.ghost > 0 {
			return
		}
		if x.noSafety {
			// termination-only behavior: a panic ends the execution, so the check may be assumed to pass
			x.assume(goal)
			return
		}
	}
	if x.behavior != "" && fn == x.behaviorFn {
		fn += "@" + x.behavior
	}
	full := Imp(x.pc(), goal)
	name := fmt.Sprintf("%s#%s:%s", fn, class, label)
	o := &Obligation{Name: name, Class: class, Func: fn, Label: label, NHyp: len(x.assumes), PC: x.pc(), Goal: goal,
		Trivial: full.IsTrue(), Inputs: x.inputs}
	if pos.IsValid() && x.P != nil {
		o.Pos = x.P.Fset.Position(pos).String()
	}
	x.obls = append(x.obls, o)
	if os.Getenv("GOVC_DEBUG_OBL") != "" {
		fmt.Fprintf(os.Stderr, "OBL %s trivial=%v pc=%s goal=%s\n", name, o.Trivial, x.pc().Short(), goal.Short())
	}
	if os.Getenv("GOVC_DEBUG_ASSUME") != "" && goal.IsFalse() {
		fmt.Fprintf(os.Stderr, "OBLIGE-FALSE %s pc=%s\n", name, x.pc().Short())
	}
	// later obligations may rely on this one (not on a vacuity guard: its goal is "false")
	if class != "V" {
		x.assume(goal)
	}
	if class == "S" && goal.IsFalse() && x.st != nil {
		// a definite panic: the path ends here
		x.st.pc = False()
	}
}

var fnNames = map[*ssa.Function]string{}

func fnName(fn *ssa.Function) string {
	if s, ok := fnNames[fn]; ok {
		return s
	}
	s := fn.String()
	fnNames[fn] = s
	return s
}

// ---------------- control flow ----------------

func (x *Exec) run(fr *Frame, st *State, b *ssa.BasicBlock, stop *ssa.BasicBlock) *State {
	for {
		if st == nil || st.pc.IsFalse() {
			return nil
		}
		if b == stop {
			return st
		}
		curExec = x
		x.steps++
		if x.steps&63 == 0 && !x.deadline.IsZero() && time.Now().After(x.deadline) {
			unsup("execution budget of the target exceeded (%d s)", targetBudgetSecs)
		}
		if x.dryLoop != nil && b.Parent() == x.dryLoop.head.Parent() && !x.dryLoop.blocks[b] {
			return nil
		}
		x.st = st
		if st.skipCut == b {
			st.skipCut = nil
		} else if li := fr.info.loops[b]; li != nil {
			isBack := st.from != nil && b.Dominates(st.from) && st.from != nil && li.blocks[st.from]
			ls := fr.loopSpec(li)
			if ls != nil && len(ls.Invs) > 0 {
				// a state merged at this block (joinStates) has its phis evaluated per predecessor already
				if isBack && st.inLoop[b] != nil {
					if st.phiDone != b {
						x.evalPhis(b, st)
					}
					x.checkInvariant(fr, li, ls, st, "I1")
					return nil
				}
				if st.phiDone != b {
					x.evalPhis(b, st)
				}
				x.cutLoop(fr, li, ls, st)
				st = x.st
				st.phiDone = b
			} else {
				limit := x.unrollLimit
				if ls != nil && ls.Unroll > 0 {
					limit = ls.Unroll
				}
				if !isBack {
					st.iters[b] = 0
				} else {
					st.iters[b]++
					if st.iters[b] > limit {
						x.curFunc = append(x.curFunc, fnName(fr.fn))
						x.oblige("U", "unwind:"+li.key, False(), b.Instrs[0].Pos())
						x.curFunc = x.curFunc[:len(x.curFunc)-1]
						return nil
					}
				}
			}
		}
		if st.phiDone != b {
			x.evalPhis(b, st)
		}
		st.phiDone = nil
		var last ssa.Instruction
		for _, ins := range b.Instrs {
			if _, ok := ins.(*ssa.Phi); ok {
				continue
			}
			last = ins
			switch ins.(type) {
			case *ssa.If, *ssa.Jump, *ssa.Return, *ssa.Panic:
				continue
			}
			x.step(fr, ins)
			if x.st == nil || x.st.pc.IsFalse() {
				return nil
			}
		}
		st = x.st
		switch t := last.(type) {
		case *ssa.Jump:
			st.from = b
			b = b.Succs[0]
		case *ssa.If:
			c := x.decideByFacts(term(x.get(t.Cond)))
			st.from = b
			if c.IsTrue() {
				b = b.Succs[0]
				continue
			}
			if c.IsFalse() {
				b = b.Succs[1]
				continue
			}
			if os.Getenv("GOVC_DEBUG_BRANCH") != "" && strings.Contains(fnName(fr.fn), os.Getenv("GOVC_DEBUG_BRANCH")) {
				fmt.Fprintf(os.Stderr, "BRANCH %s at %s: %s\n", fnName(fr.fn), x.P.Fset.Position(t.Cond.Pos()), c.Short())
			}
			join := fr.info.ipdom[b]
			pT, pF := And(st.pc, c), And(st.pc, Not(c))
			var rT, rF *State
			if !pT.IsFalse() {
				rT = x.run(fr, st.fork(pT), b.Succs[0], join)
			}
			if !pF.IsFalse() {
				sF := st
				sF.pc = pF
				rF = x.run(fr, sF, b.Succs[1], join)
			}
			if join == nil {
				return nil
			}
			st = x.joinStates(join, c, rT, rF)
			if st == nil {
				return nil
			}
			b = join
		case *ssa.Return:
			vals := make([]Value, len(t.Results))
			for i, r := range t.Results {
				vals[i] = x.get(r)
			}
			fr.returns = append(fr.returns, retRec{pc: st.pc, vals: vals, heap: st.heap, ghost: st.ghost})
			return nil
		case *ssa.Panic:
			// explicit panic: reachable only if the path condition is satisfiable
			x.curFunc = append(x.curFunc, fnName(fr.fn))
			if !fr.ghost {
				x.oblige("S", "panic", False(), t.Pos())
			}
			x.curFunc = x.curFunc[:len(x.curFunc)-1]
			return nil
		default:
			unsup("block without terminator in %s", fr.fn)
		}
	}
}

func (x *Exec) evalPhis(b *ssa.BasicBlock, st *State) {
	if st.from == nil {
		return
	}
	idx := -1
	for i, p := range b.Preds {
		if p == st.from {
			idx = i
		}
	}
	if idx < 0 {
		return
	}
	x.st = st
	var phis []*ssa.Phi
	var vals []Value
	for _, ins := range b.Instrs {
		ph, ok := ins.(*ssa.Phi)
		if !ok {
			break
		}
		phis = append(phis, ph)
		vals = append(vals, x.get(ph.Edges[idx]))
	}
	for i, ph := range phis {
		st.regs[ph] = vals[i]
	}
}

func (x *Exec) joinStates(join *ssa.BasicBlock, c *Term, a, b *State) *State {
	if a != nil && a.pc.IsFalse() {
		a = nil
	}
	if b != nil && b.pc.IsFalse() {
		b = nil
	}
	if a == nil && b == nil {
		return nil
	}
	if a != nil && a.phiDone != join {
		x.evalPhis(join, a)
		a.phiDone = join
	}
	if b != nil && b.phiDone != join {
		x.evalPhis(join, b)
		b.phiDone = join
	}
	if a == nil {
		return b
	}
	if b == nil {
		return a
	}
	m := &State{pc: orFactor(a.pc, b.pc), from: a.from, phiDone: join, iters: a.iters, inLoop: a.inLoop}
	for k, v := range b.iters {
		if v > m.iters[k] {
			m.iters[k] = v
		}
	}
	for k, v := range b.inLoop {
		if m.inLoop[k] == nil {
			m.inLoop[k] = v
		}
	}
	m.heap = x.mergeHeaps(c, a.heap, b.heap)
	m.ghost = x.mergeGhost(c, a.ghost, b.ghost)
	m.regs = make(map[ssa.Value]Value, len(a.regs))
	for k, v := range a.regs {
		if w, ok := b.regs[k]; ok {
			m.regs[k] = x.mergeValue(c, v, w)
		} else {
			m.regs[k] = v
		}
	}
	for k, w := range b.regs {
		if _, ok := a.regs[k]; !ok {
			m.regs[k] = w
		}
	}
	x.st = m
	return m
}

func (x *Exec) mergeHeaps(c *Term, a, b *Heap) *Heap {
	m := &Heap{m: make(map[*Object]Value, len(a.m))}
	for k, v := range a.m {
		if w, ok := b.m[k]; ok {
			m.m[k] = x.mergeValue(c, v, w)
		} else {
			m.m[k] = v
		}
	}
	for k, w := range b.m {
		if _, ok := a.m[k]; !ok {
			m.m[k] = w
		}
	}
	return m
}

func conj(t *Term) []*Term {
	if t.Op == OAnd {
		return t.Args
	}
	if t.IsTrue() {
		return nil
	}
	return []*Term{t}
}

// orFactor computes a ∨ b, factoring common conjuncts.
func orFactor(a, b *Term) *Term {
	ca, cb := conj(a), conj(b)
	inB := map[int]bool{}
	for _, t := range cb {
		inB[t.id] = true
	}
	var common, ra, rb []*Term
	inC := map[int]bool{}
	for _, t := range ca {
		if inB[t.id] {
			common = append(common, t)
			inC[t.id] = true
		} else {
			ra = append(ra, t)
		}
	}
	for _, t := range cb {
		if !inC[t.id] {
			rb = append(rb, t)
		}
	}
	return And(append(common, Or(And(ra...), And(rb...)))...)
}

// ---------------- values of operands ----------------

func (x *Exec) get(v ssa.Value) Value {
	switch c := v.(type) {
	case *ssa.Const:
		return x.constValue(c)
	case *ssa.Global:
		return PtrV{Obj: x.globalObject(c), Nil: False()}
	case *ssa.Function:
		return FuncV{Fn: c}
	case *ssa.Builtin:
		return UnknownV{nil, "builtin value"}
	}
	if r, ok := x.st.regs[v]; ok {
		if u, isU := r.(UnknownV); isU && x.driver {
			nv := x.tolerantValue(u, v.Type(), v.Name())
			x.st.regs[v] = nv
			return nv
		}
		if sv, isS := r.(SliceV); isS && !(sv.Len.IsConst() && sv.Nil.IsConst()) {
			curExec = x
			return asSlice(sv) // header simplified under the path condition
		}
		return r
	}
	unsup("undefined SSA value %s (%T) in %s", v.Name(), v, x.funcName())
	return nil
}

func (x *Exec) constValue(c *ssa.Const) Value {
	if v, ok := x.constCache[c]; ok {
		return v
	}
	v := x.constValue1(c)
	if _, isS := v.(Scalar); isS {
		x.constCache[c] = v
	}
	return v
}

func (x *Exec) constValue1(c *ssa.Const) Value {
	t := c.Type()
	if c.Value == nil {
		return x.zeroValue(t)
	}
	if w, _, isb, ok := isScalarType(t); ok {
		if isb {
			return Scalar{BoolC(constant.BoolVal(c.Value))}
		}
		bi, ok2 := constant.Val(constant.ToInt(c.Value)).(*big.Int)
		if !ok2 {
			i64, _ := constant.Int64Val(constant.ToInt(c.Value))
			bi = big.NewInt(i64)
		}
		return Scalar{BVC(bi, w)}
	}
	if isString(t) {
		return x.constString(constant.StringVal(c.Value))
	}
	return UnknownV{t, "constant"}
}

func (x *Exec) globalObject(g *ssa.Global) *Object {
	if o, ok := x.globals[g]; ok {
		return o
	}
	x.objCtr++
	et := g.Type().(*types.Pointer).Elem()
	o := &Object{id: x.objCtr, Typ: et, Name: g.String(), Global: g, Birth: -1}
	x.globals[g] = o
	return o
}

// globalInit supplies the value of a global on first access.
func (x *Exec) globalInit(o *Object) Value {
	g := o.Global
	var v Value
	if x.lenient && g.Pkg == x.initPkg {
		v = x.zeroValue(o.Typ)
	} else if x.P.mutableGlobals[g] && !x.lenient {
		saved := x.st
		x.st = &State{pc: True(), heap: saved.heap}
		v = x.freshValue(g.String(), o.Typ, 2)
		x.st = saved
	} else if iv, ok := x.P.constGlobal(x, g); ok {
		v = iv
	} else {
		v = x.zeroValue(o.Typ)
	}
	x.st.heap.m[o] = v
	if x.globalInitVal == nil {
		x.globalInitVal = map[*Object]Value{}
	}
	x.globalInitVal[o] = v
	return v
}

// ---------------- instructions ----------------

func (x *Exec) step(fr *Frame, ins ssa.Instruction) {
	x.curFunc = append(x.curFunc, fnName(fr.fn))
	defer func() { x.curFunc = x.curFunc[:len(x.curFunc)-1] }()
	st := x.st
	if x.lenient {
		nf := len(x.curFunc)
		depth := x.depth
		defer func() {
			if r := recover(); r != nil {
				if _, ok := r.(Unsupported); !ok {
					panic(r)
				}
				x.curFunc = x.curFunc[:nf]
				x.depth = depth
				x.st = st
				x.calleeMode = nil
				if v, ok := ins.(ssa.Value); ok {
					st.regs[v] = UnknownV{v.Type(), "initialiser: " + r.(Unsupported).Msg}
				}
				if os.Getenv("GOVC_DEBUG") != "" {
					fmt.Fprintf(os.Stderr, "lenient: %s: %v: %s\n", fr.fn, ins, r.(Unsupported).Msg)
				}
				switch c := ins.(type) {
				case *ssa.Store:
					x.lenientFailed = true
				case *ssa.Call:
					if f := c.Common().StaticCallee(); f != nil && f.Pkg == fr.fn.Pkg && f.Blocks != nil {
						x.lenientFailed = true
					}
				}
			}
		}()
	}
	switch i := ins.(type) {
	case *ssa.DebugRef:
	case *ssa.Alloc:
		et := i.Type().(*types.Pointer).Elem()
		o := x.newObject(et, i.Comment)
		st.heap.m[o] = x.zeroValue(et)
		st.regs[i] = PtrV{Obj: o, Nil: False()}
	case *ssa.BinOp:
		st.regs[i] = x.binop(i.Op, x.get(i.X), x.get(i.Y), i.X.Type(), i.Y.Type(), i.Pos(), fr)
	case *ssa.UnOp:
		st.regs[i] = x.unop(i, fr)
	case *ssa.Convert:
		st.regs[i] = x.convert(x.get(i.X), i.X.Type(), i.Type())
	case *ssa.ChangeType:
		st.regs[i] = x.get(i.X)
	case *ssa.ChangeInterface:
		st.regs[i] = x.get(i.X)
	case *ssa.MakeInterface:
		v := x.get(i.X)
		tag := ""
		if types.Identical(i.Type(), errorType) {
			tag = "error"
		}
		st.regs[i] = IfaceV{Nil: False(), Dyn: i.X.Type(), V: v, Tag: tag}
	case *ssa.Extract:
		t := x.get(i.Tuple)
		switch tv := t.(type) {
		case TupleV:
			st.regs[i] = tv.E[i.Index]
		case UnknownV:
			st.regs[i] = tv
		default:
			unsup("extract from %T", t)
		}
	case *ssa.Field:
		v := x.get(i.X)
		st.regs[i] = x.loadPath(v, []PathElem{{Field: i.Field}})
	case *ssa.FieldAddr:
		p := x.get(i.X)
		x.checkNonNil(p, i.Pos(), fr)
		st.regs[i] = x.extendPtr(p, PathElem{Field: i.Field})
	case *ssa.Index:
		v := x.get(i.X)
		idx := x.index64(i.Index)
		switch vv := v.(type) {
		case ArrayV:
			x.obligeBounds(idx, bv64(int64(len(vv.E))), i.Pos(), fr)
			st.regs[i] = x.loadPath(vv, []PathElem{{Field: -1, Idx: idx}})
		case SliceV: // string
			x.obligeBounds(idx, vv.Len, i.Pos(), fr)
			st.regs[i] = x.elemAt(vv, idx)
		default:
			unsup("index of %T", v)
		}
	case *ssa.IndexAddr:
		base := x.get(i.X)
		idx := x.index64(i.Index)
		if _, isC := base.(*ChoiceV); isC {
			x.obligeBounds(idx, sliceLen(base), i.Pos(), fr)
		}
		switch bv := base.(type) {
		case SliceV:
			x.obligeBounds(idx, bv.Len, i.Pos(), fr)
			if bv.Obj == nil {
				st.regs[i] = PtrV{Nil: True()}
			} else if x.driver && x.isUntracked(bv) {
				// An element of a sequence whose elements are not tracked: an unknown but fixed value per
				// (sequence object, index term) — such objects are never written in place (append and loop
				// havoc make new ones) —, so that reading ueList[i] twice gives the same UE.
				st.regs[i] = PtrV{Obj: x.untrackedElem(bv, BvAdd(bv.Off, idx), i.Type().(*types.Pointer).Elem()), Nil: False()}
			} else {
				st.regs[i] = PtrV{Obj: bv.Obj, Path: []PathElem{{Field: -1, Idx: BvAdd(bv.Off, idx)}}, Nil: False()}
			}
		case PtrV: // pointer to array
			x.checkNonNil(bv, i.Pos(), fr)
			n := i.X.Type().Underlying().(*types.Pointer).Elem().Underlying().(*types.Array).Len()
			x.obligeBounds(idx, bv64(n), i.Pos(), fr)
			st.regs[i] = x.extendPtr(bv, PathElem{Field: -1, Idx: idx})
		case *ChoiceV:
			st.regs[i] = x.indexAddrChoice(bv, idx, i, fr)
		case UnknownV:
			if !x.driver {
				unsup("IndexAddr on %T", base)
			}
			// driver mode: an element of a value the executor does not track is an arbitrary value of its type
			et := i.Type().(*types.Pointer).Elem()
			o := x.newObject(et, "unk-elem")
			n := len(x.inputs)
			st.heap.m[o] = x.freshValue("unk-elem", et, 3)
			x.inputs = x.inputs[:n]
			st.regs[i] = PtrV{Obj: o, Nil: False()}
		default:
			unsup("IndexAddr on %T (%s; X = %s : %s)", base, i, i.X, i.X.Type())
		}
	case *ssa.Store:
		x.store(x.get(i.Addr), x.get(i.Val), True())
	case *ssa.Slice:
		st.regs[i] = x.sliceOp(i, fr)
	case *ssa.MakeSlice:
		st.regs[i] = x.makeSlice(i.Type().Underlying().(*types.Slice).Elem(), extendTo64(term(x.get(i.Len)), i.Len.Type()), extendTo64(term(x.get(i.Cap)), i.Cap.Type()), i.Pos(), fr)
	case *ssa.Lookup:
		st.regs[i] = x.lookup(i, fr)
	case *ssa.MakeMap:
		st.regs[i] = MapV{D: &MapData{}}
	case *ssa.MapUpdate:
		m, ok := x.get(i.Map).(MapV)
		if !ok || m.D == nil || !x.lenient {
			unsup("map update outside package initialisation")
		}
		m.D.Keys = append(m.D.Keys, term(x.get(i.Key)))
		m.D.Vals = append(m.D.Vals, x.get(i.Value))
	case *ssa.MakeClosure:
		fn := i.Fn.(*ssa.Function)
		bind := make([]Value, len(i.Bindings))
		for k, b := range i.Bindings {
			bind[k] = x.get(b)
		}
		st.regs[i] = FuncV{Fn: fn, Bind: bind}
	case *ssa.TypeAssert:
		st.regs[i] = x.typeAssert(i, fr)
	case *ssa.Call:
		r := x.call(fr, i, i.Common())
		if x.st != nil {
			x.st.regs[i] = r
		}
	case *ssa.RunDefers:
	case *ssa.Range:
		v := x.get(i.X)
		st.regs[i] = TupleV{E: []Value{v, Scalar{bv64(0)}}} // iterator: (collection, position)
	case *ssa.Next:
		st.regs[i] = x.next(i, fr)
	case *ssa.Defer, *ssa.Go, *ssa.Select, *ssa.Send, *ssa.MakeChan:
		unsup("instruction %T outside the subset", ins)
	case *ssa.SliceToArrayPointer:
		unsup("slice to array pointer")
	default:
		unsup("instruction %T", ins)
	}
}

var errorType = types.Universe.Lookup("error").Type()

func (x *Exec) extendPtr(p Value, e PathElem) Value {
	switch pv := p.(type) {
	case PtrV:
		np := make([]PathElem, len(pv.Path)+1)
		copy(np, pv.Path)
		np[len(pv.Path)] = e
		return PtrV{Obj: pv.Obj, Path: np, Nil: pv.Nil}
	case *ChoiceV:
		return &ChoiceV{C: pv.C, A: x.extendPtr(pv.A, e), B: x.extendPtr(pv.B, e)}
	case UnknownV:
		return pv
	}
	unsup("field address of %T", p)
	return nil
}

func (x *Exec) index64(v ssa.Value) *Term {
	t := term(x.get(v))
	return Resize(t, 64, isSigned(v.Type()))
}

func (x *Exec) safetyLabel(kind string, pos token.Pos, fr *Frame) string {
	return kind
}

func (x *Exec) obligeBounds(idx, ln *Term, pos token.Pos, fr *Frame) {
	if fr != nil && fr.ghost || x.ghost > 0 {
		return
	}
	if os.Getenv("GOVC_DEBUG_ASSUME") != "" && BvUlt(idx, ln).IsFalse() {
		fmt.Fprintf(os.Stderr, "BOUNDS false: idx=%s len=%s at %s\n", idx, ln, x.P.Fset.Position(pos))
	}
	x.oblige("S", "index", BvUlt(idx, ln), pos)
}

func (x *Exec) checkNonNil(p Value, pos token.Pos, fr *Frame) {
	if fr != nil && fr.ghost || x.ghost > 0 {
		return
	}
	if _, ok := p.(UnknownV); ok {
		return
	}
	n := ptrNil(p)
	if n.IsFalse() {
		return
	}
	x.oblige("S", "nil", Not(n), pos)
}

func (x *Exec) unop(i *ssa.UnOp, fr *Frame) Value {
	v := x.get(i.X)
	switch i.Op {
	case token.MUL: // load
		x.checkNonNil(v, i.Pos(), fr)
		return x.loadTyped(v, i.Type())
	case token.NOT:
		return Scalar{Not(term(v))}
	case token.SUB:
		return Scalar{BvNeg(term(v))}
	case token.XOR:
		return Scalar{BvNot(term(v))}
	}
	unsup("unop %s", i.Op)
	return nil
}

func (x *Exec) binop(op token.Token, a, b Value, ta, tb types.Type, pos token.Pos, fr *Frame) Value {
	// strings
	if isString(ta) && isString(tb) {
		sa, sb := asSlice(a), asSlice(b)
		switch op {
		case token.ADD:
			return x.concatBytes(sa, sb, true)
		case token.EQL:
			return Scalar{x.bytesEqual(sa, sb)}
		case token.NEQ:
			return Scalar{Not(x.bytesEqual(sa, sb))}
		}
		unsup("string op %s", op)
	}
	// nil comparisons of pointers, slices, interfaces
	if op == token.EQL || op == token.NEQ {
		if _, _, _, ok := isScalarType(ta); !ok {
			r := x.refEqual(a, b, ta)
			if op == token.NEQ {
				r = Not(r)
			}
			return Scalar{r}
		}
	}
	at, bt := term(a), term(b)
	if at.S.K == SBool {
		switch op {
		case token.EQL:
			return Scalar{Eq(at, bt)}
		case token.NEQ:
			return Scalar{Not(Eq(at, bt))}
		case token.LAND, token.AND:
			return Scalar{And(at, bt)}
		case token.LOR, token.OR:
			return Scalar{Or(at, bt)}
		}
		unsup("bool op %s", op)
	}
	signed := isSigned(ta)
	w := at.S.W
	switch op {
	case token.SHL, token.SHR:
		// shift count has its own type; negative counts panic
		cnt := bt
		if isSigned(tb) {
			if !(fr != nil && fr.ghost) {
				x.oblige("S", "shift", BvSle(BVU(0, cnt.S.W), cnt), pos)
			}
		}
		var c *Term
		if cnt.S.W > w {
			// counts >= w give 0 (or sign fill)
			big := BvUle(BVU(uint64(w), cnt.S.W), cnt)
			c = Ite(big, BVU(uint64(w), w), Extract(cnt, w-1, 0))
		} else {
			c = Zext(cnt, w)
		}
		if op == token.SHL {
			return Scalar{BvShl(at, c)}
		}
		if signed {
			return Scalar{BvAshr(at, c)}
		}
		return Scalar{BvLshr(at, c)}
	}
	if at.S != bt.S {
		unsup("binop %s operand widths differ: %v %v", op, at.S, bt.S)
	}
	switch op {
	case token.ADD:
		r := BvAdd(at, bt)
		x.rangeCheck("add", op, at, bt, signed, ta, pos, fr)
		return Scalar{r}
	case token.SUB:
		r := BvSub(at, bt)
		x.rangeCheck("sub", op, at, bt, signed, ta, pos, fr)
		return Scalar{r}
	case token.MUL:
		r := BvMul(at, bt)
		x.rangeCheck("mul", op, at, bt, signed, ta, pos, fr)
		return Scalar{r}
	case token.QUO:
		if !(fr != nil && fr.ghost) {
			x.oblige("S", "divzero", Not(Eq(bt, BVU(0, w))), pos)
		}
		if signed {
			return Scalar{BvSDiv(at, bt)}
		}
		return Scalar{BvUDiv(at, bt)}
	case token.REM:
		if !(fr != nil && fr.ghost) {
			x.oblige("S", "divzero", Not(Eq(bt, BVU(0, w))), pos)
		}
		if signed {
			return Scalar{BvSRem(at, bt)}
		}
		return Scalar{BvURem(at, bt)}
	case token.AND:
		return Scalar{BvAnd(at, bt)}
	case token.OR:
		return Scalar{BvOr(at, bt)}
	case token.XOR:
		return Scalar{BvXor(at, bt)}
	case token.AND_NOT:
		return Scalar{BvAnd(at, BvNot(bt))}
	case token.EQL:
		return Scalar{Eq(at, bt)}
	case token.NEQ:
		return Scalar{Not(Eq(at, bt))}
	case token.LSS:
		if signed {
			return Scalar{BvSlt(at, bt)}
		}
		return Scalar{BvUlt(at, bt)}
	case token.LEQ:
		if signed {
			return Scalar{BvSle(at, bt)}
		}
		return Scalar{BvUle(at, bt)}
	case token.GTR:
		if signed {
			return Scalar{BvSlt(bt, at)}
		}
		return Scalar{BvUlt(bt, at)}
	case token.GEQ:
		if signed {
			return Scalar{BvSle(bt, at)}
		}
		return Scalar{BvUle(bt, at)}
	}
	unsup("binop %s", op)
	return nil
}

// rangeCheck emits an R obligation (no wrap-around) for arithmetic on Go's
// `int` type, which the code uses for sizes and indices.  Fixed-width types
// keep their wrap-around semantics without obligation.
func (x *Exec) rangeCheck(kind string, op token.Token, a, b *Term, signed bool, t types.Type, pos token.Pos, fr *Frame) {
	if fr == nil || fr.ghost || x.ghost > 0 || !x.P.rangeChecks {
		return
	}
	bt, ok := t.Underlying().(*types.Basic)
	if !ok || bt.Kind() != types.Int {
		return
	}
	w := a.S.W
	if op == token.ADD || op == token.SUB {
		// no signed overflow, stated on the sign bits (cheaper for the solvers than a double-width sum)
		sa, sb := Extract(a, w-1, w-1), Extract(b, w-1, w-1)
		var r *Term
		var pre *Term
		if op == token.ADD {
			r = BvAdd(a, b)
			pre = Eq(sa, sb) // overflow only when both operands have the same sign ...
		} else {
			r = BvSub(a, b)
			pre = Not(Eq(sa, sb)) // ... resp. different signs for a subtraction
		}
		x.oblige("R", "int-"+kind, Imp(pre, Eq(Extract(r, w-1, w-1), sa)), pos)
		return
	}
	ea, eb := Sext(a, w+w), Sext(b, w+w)
	var wide *Term
	switch op {
	case token.ADD:
		wide = BvAdd(ea, eb)
	case token.SUB:
		wide = BvSub(ea, eb)
	case token.MUL:
		wide = BvMul(ea, eb)
	}
	var narrow *Term
	switch op {
	case token.ADD:
		narrow = BvAdd(a, b)
	case token.SUB:
		narrow = BvSub(a, b)
	case token.MUL:
		narrow = BvMul(a, b)
	}
	x.oblige("R", "int-"+kind, Eq(wide, Sext(narrow, w+w)), pos)
}

func (x *Exec) refEqual(a, b Value, t types.Type) *Term {
	switch a.(type) {
	case ArrayV, StructV, ArrayRef:
		return x.valEqual(x.snap(a), x.snap(b))
	}
	// comparison with nil
	an, bn := ptrNil(a), ptrNil(b)
	if bn.IsTrue() {
		return an
	}
	if an.IsTrue() {
		return bn
	}
	pa, oka := a.(PtrV)
	pb, okb := b.(PtrV)
	if oka && okb {
		if pa.Obj == pb.Obj && samePath(pa.Path, pb.Path) {
			return Or(And(an, bn), And(Not(an), Not(bn)))
		}
		return And(an, bn)
	}
	// arrays / structs of scalars
	switch av := a.(type) {
	case ArrayV:
		bv := b.(ArrayV)
		var cs []*Term
		for i := range av.E {
			cs = append(cs, x.valEqual(av.E[i], bv.E[i]))
		}
		return And(cs...)
	case StructV:
		return x.valEqual(a, b)
	}
	unsup("comparison of %T values", a)
	return nil
}

func (x *Exec) valEqual(a, b Value) *Term {
	switch av := a.(type) {
	case Scalar:
		return Eq(av.T, term(b))
	case ArrayV:
		bv, ok := b.(ArrayV)
		if !ok || len(av.E) != len(bv.E) {
			return False()
		}
		var cs []*Term
		for i := range av.E {
			cs = append(cs, x.valEqual(av.E[i], bv.E[i]))
		}
		return And(cs...)
	case StructV:
		bv, ok := b.(StructV)
		if !ok || len(av.F) != len(bv.F) {
			return False()
		}
		var cs []*Term
		for i := range av.F {
			cs = append(cs, x.valEqual(av.F[i], bv.F[i]))
		}
		return And(cs...)
	case SliceV:
		bv, ok := b.(SliceV)
		if ok && av.Str {
			return x.bytesEqual(av, bv)
		}
	case PtrV:
		return x.refEqual(a, b, nil)
	}
	unsup("valEqual on %T", a)
	return nil
}

func (x *Exec) convert(v Value, from, to types.Type) Value {
	if fs, ok := scalarSort(from); ok {
		if ts, ok2 := scalarSort(to); ok2 {
			if fs.K == SBool || ts.K == SBool {
				return v
			}
			return Scalar{Resize(term(v), ts.W, isSigned(from))}
		}
		if isString(to) {
			// string(c) for an integer c: the UTF-8 encoding of the code point; modelled for c < 0x800
			c := Resize(term(v), 32, isSigned(from))
			small := BvUlt(c, BVU(0x80, 32))
			if !(x.ghost > 0) {
				x.oblige("S", "rune-range", BvUlt(c, BVU(0x800, 32)), token.NoPos)
			}
			b0 := Ite(small, Extract(c, 7, 0), BvOr(BVU(0xC0, 8), Extract(BvLshr(c, BVU(6, 32)), 7, 0)))
			b1 := BvOr(BVU(0x80, 8), BvAnd(Extract(c, 7, 0), BVU(0x3f, 8)))
			o := x.newObject(types.Typ[types.Uint8], "runestr")
			ln := Ite(small, bv64(1), bv64(2))
			if ln.IsConst() && ln.U64() == 1 {
				x.st.heap.m[o] = ArrayV{[]Value{Scalar{b0}}}
			} else {
				x.st.heap.m[o] = SymArrV{Arr: Store(Store(ConstArr(BVU(0, 8)), bv64(0), b0), bv64(1), b1), Len: ln, W: 8}
			}
			return SliceV{Obj: o, Off: bv64(0), Len: ln, Cap: ln, Nil: False(), Str: true}
		}
	}
	_, fromSlice := from.Underlying().(*types.Slice)
	_, toSlice := to.Underlying().(*types.Slice)
	if (isString(from) && toSlice) || (fromSlice && isString(to)) || (isString(from) && isString(to)) {
		s := asSlice(v)
		if isString(from) && isString(to) {
			return s
		}
		c := x.copySlice(s)
		c.Str = isString(to)
		return c
	}
	if fromSlice && toSlice {
		return v
	}
	if _, ok := from.Underlying().(*types.Pointer); ok {
		return v
	}
	unsup("conversion %s -> %s", from, to)
	return nil
}

// copySlice allocates a fresh backing store holding a copy of s.
func (x *Exec) copySlice(s SliceV) SliceV {
	if n, ok := concreteLen(s); ok {
		o := x.newObject(types.Typ[types.Uint8], "copy")
		e := make([]Value, n)
		for i := 0; i < n; i++ {
			e[i] = x.elemAt(s, bv64(int64(i)))
		}
		x.st.heap.m[o] = ArrayV{e}
		return SliceV{Obj: o, Off: bv64(0), Len: s.Len, Cap: s.Len, Nil: False()}
	}
	src, ok := x.heapGet(s.Obj).(SymArrV)
	if !ok {
		unsup("copy of symbolic-length slice over a concrete store")
	}
	o := x.newObject(types.Typ[types.Uint8], "copy")
	if isZero(s.Off) {
		x.st.heap.m[o] = SymArrV{Arr: src.Arr, Len: s.Len, W: src.W}
	} else {
		k := FreshBound("k", BV(64))
		arr := DefArr(src.W, k, Select(src.Arr, BvAdd(s.Off, k)))
		x.st.heap.m[o] = SymArrV{Arr: arr, Len: s.Len, W: src.W}
	}
	return SliceV{Obj: o, Off: bv64(0), Len: s.Len, Cap: s.Len, Nil: False()}
}

func (x *Exec) bytesEqual(a, b SliceV) *Term {
	if n, ok := concreteLen(b); ok {
		if _, ok2 := concreteLen(a); !ok2 {
			a, b = b, a
		}
		_ = n
	}
	if n, ok := concreteLen(a); ok {
		cs := []*Term{Eq(b.Len, a.Len)}
		if m, ok2 := concreteLen(b); ok2 && m != n {
			return False()
		}
		for i := 0; i < n; i++ {
			cs = append(cs, Eq(x.byteAt(a, bv64(int64(i))), x.byteAt(b, bv64(int64(i)))))
		}
		return And(cs...)
	}
	k := FreshBound("k", BV(64))
	return And(Eq(a.Len, b.Len), Forall([]*Term{k}, Imp(BvUlt(k, a.Len), Eq(x.byteAt(a, k), x.byteAt(b, k)))))
}

// concatBytes builds a fresh slice a ++ b.
func (x *Exec) concatBytes(a, b SliceV, str bool) SliceV {
	na, oka := concreteLen(a)
	nb, okb := concreteLen(b)
	if okb && nb == 0 && !oka && a.Obj != nil && isZero(a.Off) {
		// nothing is appended to a string of symbolic length: the same octets (a fresh header)
		r := a
		r.Cap, r.Nil, r.Str = a.Len, False(), str
		return r
	}
	if oka && okb {
		o := x.newObject(types.Typ[types.Uint8], "cat")
		e := make([]Value, 0, na+nb)
		for i := 0; i < na; i++ {
			e = append(e, x.elemAt(a, bv64(int64(i))))
		}
		for i := 0; i < nb; i++ {
			e = append(e, x.elemAt(b, bv64(int64(i))))
		}
		x.st.heap.m[o] = ArrayV{e}
		n := bv64(int64(na + nb))
		return SliceV{Obj: o, Off: bv64(0), Len: n, Cap: n, Nil: False(), Str: str}
	}
	w := 8
	if a.Obj != nil {
		if sa, ok := x.heapGet(a.Obj).(SymArrV); ok {
			w = sa.W
		}
	}
	if b.Obj != nil {
		if sb, ok := x.heapGet(b.Obj).(SymArrV); ok {
			w = sb.W
		}
	}
	o := x.newObject(types.Typ[types.Uint8], "cat")
	n := BvAdd(a.Len, b.Len)
	k := FreshBound("k", BV(64))
	var bodyB *Term
	if b.Obj != nil {
		bodyB = x.byteAt(b, BvSub(k, a.Len))
	} else {
		bodyB = BVU(0, w)
	}
	var body *Term
	if oka {
		body = bodyB
		for i := na - 1; i >= 0; i-- {
			body = Ite(Eq(k, bv64(int64(i))), x.byteAt(a, bv64(int64(i))), body)
		}
	} else if a.Obj != nil {
		body = Ite(BvUlt(k, a.Len), x.byteAt(a, k), bodyB)
	} else {
		body = bodyB
	}
	arr := DefArr(w, k, body)
	x.st.heap.m[o] = SymArrV{Arr: arr, Len: n, W: w}
	return SliceV{Obj: o, Off: bv64(0), Len: n, Cap: n, Nil: False(), Str: str}
}

func isZeroOff(s SliceV) bool { return true }

func (x *Exec) sliceOp(i *ssa.Slice, fr *Frame) Value {
	return x.sliceVal(x.get(i.X), i, fr)
}

func (x *Exec) sliceVal(base Value, i *ssa.Slice, fr *Frame) Value {
	if cv, ok := base.(*ChoiceV); ok {
		return &ChoiceV{C: cv.C, A: x.sliceVal(cv.A, i, fr), B: x.sliceVal(cv.B, i, fr)}
	}
	var lo, hi, mx *Term
	if i.Low != nil {
		lo = x.index64(i.Low)
	} else {
		lo = bv64(0)
	}
	var s SliceV
	switch bv := base.(type) {
	case SliceV:
		s = bv
	case PtrV: // pointer to array
		x.checkNonNil(bv, i.Pos(), fr)
		n := i.X.Type().Underlying().(*types.Pointer).Elem().Underlying().(*types.Array).Len()
		if len(bv.Path) != 0 {
			// array nested inside an object: supported when the array is addressed by a constant path
			return x.sliceOfNestedArray(bv, n, i, lo, fr)
		}
		s = SliceV{Obj: bv.Obj, Off: bv64(0), Len: bv64(n), Cap: bv64(n), Nil: False()}
	case UnknownV:
		return bv
	default:
		unsup("slice of %T", base)
	}
	isStr := s.Str
	if i.High != nil {
		hi = x.index64(i.High)
	} else {
		hi = s.Len
	}
	capT := s.Cap
	if isStr {
		capT = s.Len
	}
	if i.Max != nil {
		mx = x.index64(i.Max)
	} else {
		mx = capT
	}
	if os.Getenv("GOVC_DEBUG_SLICE") != "" && !(fr.ghost || x.ghost > 0) {
		fmt.Fprintf(os.Stderr, "SLICE %s lo=%s hi=%s len=%s cap=%s in %s\n", x.P.Fset.Position(i.Pos()), lo.Short(), func() string { if hi != nil { return hi.Short() }; return "-" }(), s.Len.Short(), s.Cap.Short(), x.funcName())
	}
	if !(fr.ghost || x.ghost > 0) {
		if i.High != nil {
			if isStr {
				x.oblige("S", "slice", BvUle(hi, s.Len), i.Pos())
			} else {
				x.oblige("S", "slice", BvUle(hi, mx), i.Pos())
			}
		}
		if i.Max != nil {
			x.oblige("S", "slice", BvUle(mx, capT), i.Pos())
		}
		x.oblige("S", "slice", BvUle(lo, hi), i.Pos())
	}
	r := SliceV{Obj: s.Obj, Off: BvAdd(s.Off, lo), Len: BvSub(hi, lo), Cap: BvSub(mx, lo), Nil: s.Nil, Str: isStr}
	if isStr {
		r.Cap = r.Len
	}
	return r
}

// sliceOfNestedArray handles p.field[:] where field is an array inside a struct object.
func (x *Exec) sliceOfNestedArray(p PtrV, n int64, i *ssa.Slice, lo *Term, fr *Frame) Value {
	// Represent as a view: a slice whose backing object is the containing object with a path prefix.
	// To keep the memory model simple we require this to be used only for reads/writes through
	// IndexAddr; we model it with a special object alias.
	alias := x.aliasObject(p, n)
	var hi *Term
	if i.High != nil {
		hi = x.index64(i.High)
	} else {
		hi = bv64(n)
	}
	if !(fr.ghost || x.ghost > 0) {
		x.oblige("S", "slice", And(BvUle(lo, hi), BvUle(hi, bv64(n))), i.Pos())
	}
	return SliceV{Obj: alias, Off: lo, Len: BvSub(hi, lo), Cap: BvSub(bv64(n), lo), Nil: False()}
}

// extendTo64 widens an integer operand according to the signedness of its type.
func extendTo64(t *Term, ty types.Type) *Term {
	signed := true
	if b, ok := ty.Underlying().(*types.Basic); ok && b.Info()&types.IsUnsigned != 0 {
		signed = false
	}
	return Resize(t, 64, signed)
}

func (x *Exec) makeSlice(elem types.Type, ln, cp *Term, pos token.Pos, fr *Frame) Value {
	ln = Resize(ln, 64, true)
	cp = Resize(cp, 64, true)
	if !(fr != nil && fr.ghost) && x.ghost == 0 {
		x.oblige("S", "makeslice", And(BvSle(bv64(0), ln), BvSle(ln, cp), BvUle(cp, BVU(1<<maxLenBits, 64))), pos)
	}
	o := x.newObject(elem, "make")
	if ln.IsConst() && cp.IsConst() && cp.Val.IsInt64() && cp.Val.Int64() <= 8192 {
		n := int(cp.Val.Int64())
		e := make([]Value, n)
		for k := range e {
			e[k] = x.zeroValue(elem)
		}
		x.st.heap.m[o] = ArrayV{e}
		return SliceV{Obj: o, Off: bv64(0), Len: ln, Cap: cp, Nil: False()}
	}
	s, ok := scalarSort(elem)
	if !ok || s.K != SBV {
		unsup("make of symbolic-length slice of %s", elem)
	}
	x.st.heap.m[o] = SymArrV{Arr: ConstArr(BVU(0, s.W)), Len: cp, W: s.W}
	return SliceV{Obj: o, Off: bv64(0), Len: ln, Cap: cp, Nil: False()}
}

func (x *Exec) lookup(i *ssa.Lookup, fr *Frame) Value {
	c := x.get(i.X)
	switch cv := c.(type) {
	case SliceV: // string index
		idx := x.index64(i.Index)
		x.obligeBounds(idx, cv.Len, i.Pos(), fr)
		return x.elemAt(cv, idx)
	case MapV:
		if cv.D != nil {
			cv.Keys, cv.Vals = cv.D.Keys, cv.D.Vals
		}
		k := term(x.get(i.Index))
		var r Value = cv.Def
		if r == nil {
			r = x.zeroValue(i.X.Type().Underlying().(*types.Map).Elem())
		}
		found := False()
		for j := len(cv.Keys) - 1; j >= 0; j-- {
			e := Eq(k, cv.Keys[j])
			r = x.mergeValue(e, cv.Vals[j], r)
			found = Or(found, e)
		}
		if i.CommaOk {
			return TupleV{E: []Value{r, Scalar{found}}}
		}
		return r
	}
	unsup("lookup in %T", c)
	return nil
}

func (x *Exec) next(i *ssa.Next, fr *Frame) Value {
	unsup("range over string/map (Next)")
	return nil
}

func (x *Exec) typeAssert(i *ssa.TypeAssert, fr *Frame) Value {
	v := x.get(i.X)
	iv, ok := v.(IfaceV)
	if !ok {
		unsup("type assert on %T", v)
	}
	if iv.Dyn == nil {
		unsup("type assert on interface of unknown dynamic type")
	}
	if _, isIface := i.AssertedType.Underlying().(*types.Interface); isIface {
		if i.CommaOk {
			return TupleV{E: []Value{iv, Scalar{Not(iv.Nil)}}}
		}
		return iv
	}
	match := types.Identical(iv.Dyn, i.AssertedType)
	if i.CommaOk {
		if match {
			return TupleV{E: []Value{iv.V, Scalar{Not(iv.Nil)}}}
		}
		return TupleV{E: []Value{x.zeroValue(i.AssertedType), Scalar{False()}}}
	}
	if !match {
		x.oblige("S", "typeassert", False(), i.Pos())
		x.st = nil
		return nil
	}
	x.oblige("S", "typeassert", Not(iv.Nil), i.Pos())
	return iv.V
}

// ---------------- function info (post-dominators, loops) ----------------

type LoopInfo struct {
	head   *ssa.BasicBlock
	blocks map[*ssa.BasicBlock]bool
	key    string // loop variable name or ordinal
	keys   []string
	names  []string
	ord    int
	printed bool
	at      ssa.Instruction // call clauses: the call instruction (values defined before it in its block are in scope)
}

type FuncInfo struct {
	ipdom map[*ssa.BasicBlock]*ssa.BasicBlock
	loops map[*ssa.BasicBlock]*LoopInfo
	order []*LoopInfo
}

func analyze(fn *ssa.Function) *FuncInfo {
	fi := &FuncInfo{ipdom: map[*ssa.BasicBlock]*ssa.BasicBlock{}, loops: map[*ssa.BasicBlock]*LoopInfo{}}
	n := len(fn.Blocks)
	// post-dominators: iterative dataflow on sets (bitsets via []bool); exit = index n
	pd := make([][]bool, n+1)
	for i := range pd {
		pd[i] = make([]bool, n+1)
		for j := range pd[i] {
			pd[i][j] = true
		}
	}
	for j := range pd[n] {
		pd[n][j] = false
	}
	pd[n][n] = true
	succs := func(b *ssa.BasicBlock) []int {
		if len(b.Succs) == 0 {
			return []int{n}
		}
		r := make([]int, len(b.Succs))
		for i, s := range b.Succs {
			r[i] = s.Index
		}
		return r
	}
	changed := true
	for changed {
		changed = false
		for bi := n - 1; bi >= 0; bi-- {
			b := fn.Blocks[bi]
			nw := make([]bool, n+1)
			for j := range nw {
				nw[j] = true
			}
			for _, s := range succs(b) {
				for j := range nw {
					nw[j] = nw[j] && pd[s][j]
				}
			}
			nw[bi] = true
			for j := range nw {
				if nw[j] != pd[bi][j] {
					changed = true
				}
			}
			pd[bi] = nw
		}
	}
	for bi := 0; bi < n; bi++ {
		// immediate post-dominator: the strict post-dominator that is post-dominated by all other strict post-dominators
		var cands []int
		for j := 0; j <= n; j++ {
			if j != bi && pd[bi][j] {
				cands = append(cands, j)
			}
		}
		best := -1
		for _, c := range cands {
			ok := true
			for _, d := range cands {
				if d != c && !pd[c][d] {
					ok = false
				}
			}
			if ok {
				best = c
			}
		}
		if best >= 0 && best < n {
			fi.ipdom[fn.Blocks[bi]] = fn.Blocks[best]
		}
	}
	// natural loops
	for _, b := range fn.Blocks {
		for _, s := range b.Succs {
			if s.Dominates(b) {
				li := fi.loops[s]
				if li == nil {
					li = &LoopInfo{head: s, blocks: map[*ssa.BasicBlock]bool{s: true}}
					fi.loops[s] = li
				}
				// collect body: nodes reaching b without passing s
				stack := []*ssa.BasicBlock{b}
				for len(stack) > 0 {
					c := stack[len(stack)-1]
					stack = stack[:len(stack)-1]
					if li.blocks[c] {
						continue
					}
					li.blocks[c] = true
					stack = append(stack, c.Preds...)
				}
			}
		}
	}
	var heads []*ssa.BasicBlock
	for h := range fi.loops {
		heads = append(heads, h)
	}
	sort.Slice(heads, func(i, j int) bool { return heads[i].Index < heads[j].Index })
	for i, h := range heads {
		li := fi.loops[h]
		li.ord = i
		li.key = fmt.Sprintf("%d", i)
		// loop variable names: the phis of the head
		for _, ins := range h.Instrs {
			if ph, ok := ins.(*ssa.Phi); ok && ph.Comment != "" {
				li.names = append(li.names, ph.Comment)
			}
		}
		fi.order = append(fi.order, li)
	}
	// every phi name of the head is a key; equal names across loops get #1, #2 ... in block order
	cnt := map[string]int{}
	for _, li := range fi.order {
		for _, n := range li.names {
			cnt[n]++
		}
	}
	seen := map[string]int{}
	for _, li := range fi.order {
		for _, n := range li.names {
			k := n
			if cnt[n] > 1 {
				seen[n]++
				k = fmt.Sprintf("%s#%d", n, seen[n])
			}
			li.keys = append(li.keys, k)
		}
		if len(li.keys) > 0 {
			li.key = li.keys[0]
			for _, k := range li.keys {
				if strings.HasPrefix(k, "i") || strings.HasPrefix(k, "j") {
					li.key = k
					break
				}
			}
		}
	}
	return fi
}

func (fr *Frame) loopSpec(li *LoopInfo) *LoopSpec {
	if os.Getenv("GOVC_DEBUG_LOOPS") != "" && !li.printed {
		li.printed = true
		fmt.Fprintf(os.Stderr, "LOOP %s ord=%d keys=%v\n", fr.fn, li.ord, li.keys)
	}
	if fr.spec == nil {
		return nil
	}
	for _, k := range li.keys {
		if ls, ok := fr.spec.Loops[k]; ok {
			return ls
		}
	}
	if ls, ok := fr.spec.Loops[fmt.Sprintf("%d", li.ord)]; ok {
		return ls
	}
	return nil
}

// ---------------- calling functions ----------------

// callFunction executes fn's body in line on the current state.
func (x *Exec) callFunction(fn *ssa.Function, args []Value, bind []Value, ghost bool) Value {
	if fn.Blocks == nil {
		unsup("call of function without body: %s", fn)
	}
	x.depth++
	defer func() { x.depth-- }()
	if x.depth > 400 {
		unsup("call depth exceeded in %s", fn)
	}
	fr := &Frame{fn: fn, info: x.P.info(fn), spec: x.P.specs[fnName(fn)], ghost: ghost, args: args}
	if ov, ok := x.specOverride[fn]; ok {
		fr.spec = ov
	}
	caller := x.st
	if fr.spec != nil && len(fr.spec.Loops) > 0 {
		if fn.Pkg != nil {
			for _, m := range fn.Pkg.Members {
				if g, ok := m.(*ssa.Global); ok && x.P.mutableGlobals[g] {
					x.heapGet(x.globalObject(g))
				}
			}
		}
		fr.entryHeap = caller.heap.clone()
	}
	st := &State{pc: caller.pc, heap: caller.heap, regs: map[ssa.Value]Value{}, iters: map[*ssa.BasicBlock]int{}, inLoop: map[*ssa.BasicBlock]*loopCut{}, ghost: caller.ghost}
	for i, p := range fn.Params {
		if i < len(args) {
			st.regs[p] = args[i]
		}
	}
	for i, fv := range fn.FreeVars {
		st.regs[fv] = bind[i]
	}
	if ghost {
		x.ghost++
		defer func() { x.ghost-- }()
	} else if x.ghost > 0 {
		saved := x.ghost
		x.ghost = 0
		defer func() { x.ghost = saved }()
	}
	x.run(fr, st, fn.Blocks[0], nil)
	// merge returns
	if fn == x.selectFn && x.selectFn != nil && !ghost {
		x.numReturns = len(fr.returns)
		if x.selectReturn > 0 {
			if x.selectReturn > len(fr.returns) {
				x.st = nil
				return nil
			}
			fr.returns = fr.returns[x.selectReturn-1 : x.selectReturn]
		}
		x.selectFn = nil
	}
	if len(fr.returns) == 0 {
		x.st = nil
		return nil
	}
	res := fr.returns[len(fr.returns)-1]
	pc := res.pc
	heap := res.heap
	vals := res.vals
	gh := res.ghost
	for i := len(fr.returns) - 2; i >= 0; i-- {
		r := fr.returns[i]
		heap = x.mergeHeaps(r.pc, r.heap, heap)
		gh = x.mergeGhost(r.pc, r.ghost, gh)
		nv := make([]Value, len(vals))
		for k := range vals {
			nv[k] = x.mergeValue(r.pc, r.vals[k], vals[k])
		}
		vals = nv
		pc = orFactor(r.pc, pc)
	}
	caller.pc = pc
	caller.heap = heap
	caller.ghost = gh
	x.st = caller
	switch len(vals) {
	case 0:
		return nil
	case 1:
		return vals[0]
	}
	return TupleV{E: vals}
}

func (x *Exec) call(fr *Frame, ins ssa.Instruction, cc *ssa.CallCommon) Value {
	x.curCall = ins
	args := make([]Value, 0, len(cc.Args)+1)
	if cc.IsInvoke() {
		recv := x.get(cc.Value)
		return x.invoke(fr, ins, cc, recv)
	}
	for _, a := range cc.Args {
		args = append(args, x.get(a))
	}
	switch f := cc.Value.(type) {
	case *ssa.Builtin:
		return x.builtin(fr, f.Name(), cc, args, ins.Pos())
	case *ssa.Function:
		return x.callStatic(fr, f, args, nil, ins.Pos())
	case *ssa.MakeClosure:
		fv := x.get(f).(FuncV)
		return x.callStatic(fr, fv.Fn, args, fv.Bind, ins.Pos())
	}
	v := x.get(cc.Value)
	if fv, ok := v.(FuncV); ok && fv.Fn != nil {
		return x.callStatic(fr, fv.Fn, args, fv.Bind, ins.Pos())
	}
	unsup("dynamic call through %T", v)
	return nil
}

func (x *Exec) callStatic(fr *Frame, fn *ssa.Function, args []Value, bind []Value, pos token.Pos) Value {
	name := fnName(fn)
	if x.lenient && fn.Name() == "init" && fn.Signature.Recv() == nil && fn.Parent() == nil && fn.Pkg != x.initPkg {
		return nil // initialisers of imported packages are evaluated on demand
	}
	// intrinsics and external models
	if r, ok := x.intrinsic(fr, fn, name, args, pos); ok {
		return r
	}
	// pending contract call site (inside a contract harness)
	if n := len(x.calleeMode); n > 0 {
		cm := x.calleeMode[n-1]
		if !cm.done && cm.fn == fn {
			if cm.probe {
				panic(probeDone{})
			}
			cm.done = true
			if cm.prove {
				return x.proveCall(fr, cm, fn, args, pos)
			}
			return x.havocCall(fr, cm, fn, args)
		}
	}
	ghost := x.P.isGhostFn(fn) || (fr != nil && fr.ghost && x.P.isSpecFn(fn))
	if !ghost && fr != nil && fr.spec != nil && len(fr.spec.Calls) > 0 && x.dry == 0 {
		x.callSiteClauses(fr, fn, args, pos)
	}
	if k := x.P.smtKind(fn); k == "string-uf" {
		x.assumedCtr["characterised string function: "+name] = true
		return x.stringUF(fn, args)
	} else if k != "" {
		if k == "opaque" {
			x.assumedCtr["uninterpreted: "+name] = true
		}
		return x.smtCall(fn, k, args)
	}
	forced := x.forceInline[shortFn(fn)] || x.forceInline["*"]
	if sp0 := x.P.specs[name]; sp0 != nil && sp0.Trusted && fn.Blocks == nil {
		forced = false // an assumed contract of an external function has no body to fall back on
	}
	if !ghost && !forced {
		if sp := x.pickBehavior(fn, name, args); sp != nil && sp.HasContract() && !sp.Inline && x.P.harnessOf[sp.Key()] != nil {
			used := callResultUsed(x.curCall)
			r := x.useContract(fr, fn, sp, args, pos)
			if x.driver && name == "free5gclib/ngap.Decoder" && used && x.st != nil {
				// a reply the procedure consumes that is not a decodable NGAP message is a fault
				if tv, ok := r.(TupleV); ok && len(tv.E) == 2 {
					x.raiseFault(Not(ptrNil(tv.E[1])))
				}
			} else if x.driver && x.st != nil {
				if n := fn.Signature.Results().Len(); n > 0 && fn.Signature.Results().At(n-1).Type().String() == "error" {
					var e Value = r
					if tv, ok := r.(TupleV); ok && len(tv.E) == n {
						e = tv.E[n-1]
					}
					switch e.(type) {
					case IfaceV, *ChoiceV:
						x.setFlag(buildFaultFlag, Or(x.getFlag(buildFaultFlag), Not(ptrNil(e))))
					}
				}
			}
			return r
		}
	}
	if fn.Blocks == nil {
		x.notes["unmodelled-call:"+name] = true
		unsup("call of external function without model: %s", name)
	}
	if !ghost {
		x.inlined[name] = true
	}
	return x.callFunction(fn, args, bind, ghost)
}

func (x *Exec) invoke(fr *Frame, ins ssa.Instruction, cc *ssa.CallCommon, recv Value) Value {
	args := make([]Value, 0, len(cc.Args))
	for _, a := range cc.Args {
		args = append(args, x.get(a))
	}
	iv, ok := recv.(IfaceV)
	if !ok {
		unsup("invoke on %T", recv)
	}
	if r, ok := x.invokeModel(fr, iv, cc.Method.Name(), args, ins.Pos()); ok {
		return r
	}
	if iv.Dyn != nil {
		// resolve the concrete method
		ms := x.P.Prog.MethodSets.MethodSet(iv.Dyn)
		if sel := ms.Lookup(cc.Method.Pkg(), cc.Method.Name()); sel != nil {
			if fn := x.P.Prog.MethodValue(sel); fn != nil {
				return x.callStatic(fr, fn, append([]Value{iv.V}, args...), nil, ins.Pos())
			}
		}
	}
	unsup("interface method call %s on unknown dynamic type", cc.Method.Name())
	return nil
}

func (x *Exec) builtin(fr *Frame, name string, cc *ssa.CallCommon, args []Value, pos token.Pos) Value {
	switch name {
	case "len":
		switch a := args[0].(type) {
		case SliceV:
			return Scalar{asSlice(a).Len}
		case MapV:
			return Scalar{bv64(int64(len(a.Keys)))}
		case ArrayV:
			return Scalar{bv64(int64(len(a.E)))}
		case *ChoiceV:
			return Scalar{Ite(a.C, term(x.builtin(fr, name, cc, []Value{a.A}, pos)), term(x.builtin(fr, name, cc, []Value{a.B}, pos)))}
		}
		unsup("len of %T", args[0])
	case "cap":
		if a, ok := args[0].(SliceV); ok {
			return Scalar{asSlice(a).Cap}
		}
		unsup("cap of %T", args[0])
	case "append":
		return x.appendOp(fr, cc, args, pos)
	case "copy":
		return x.copyOp(fr, args, pos)
	case "print", "println":
		return nil
	case "min", "max":
		a, b := term(args[0]), term(args[1])
		signed := isSigned(cc.Args[0].Type())
		var lt *Term
		if signed {
			lt = BvSlt(a, b)
		} else {
			lt = BvUlt(a, b)
		}
		if name == "min" {
			return Scalar{Ite(lt, a, b)}
		}
		return Scalar{Ite(lt, b, a)}
	}
	unsup("builtin %s", name)
	return nil
}

func (x *Exec) appendOp(fr *Frame, cc *ssa.CallCommon, args []Value, pos token.Pos) Value {
	// a list of non-scalars merged from two paths (an element appended on one of them only): append on each side
	if ch, ok := args[0].(*ChoiceV); ok {
		if el := cc.Args[0].Type().Underlying().(*types.Slice).Elem(); !isByteLike(el) {
			ra := x.appendOp(fr, cc, []Value{ch.A, args[1]}, pos)
			rb := x.appendOp(fr, cc, []Value{ch.B, args[1]}, pos)
			return x.mergeValue(ch.C, ra, rb)
		}
	}
	a := asSlice(args[0])
	b := asSlice(args[1])
	elem := cc.Args[0].Type().Underlying().(*types.Slice).Elem()
	if _, ok := scalarSort(elem); !ok || !isByteLike(elem) {
		// slices of structs etc.: concrete shapes only
		na, oka := concreteLen(a)
		nb, okb := concreteLen(b)
		if !oka || !okb || x.isUntracked(a) || x.isUntracked(b) {
			// lengths only: the result is a sequence whose elements are not tracked
			r := x.untrackedSeq("append", elem)
			x.assume(And(Eq(r.Len, BvAdd(a.Len, b.Len)), Not(r.Nil)))
			return r
		}
		o := x.newObject(elem, "append")
		e := make([]Value, 0, na+nb)
		for i := 0; i < na; i++ {
			e = append(e, x.elemAt(a, bv64(int64(i))))
		}
		for i := 0; i < nb; i++ {
			e = append(e, x.elemAt(b, bv64(int64(i))))
		}
		x.st.heap.m[o] = ArrayV{e}
		n := bv64(int64(na + nb))
		return SliceV{Obj: o, Off: bv64(0), Len: n, Cap: n, Nil: False()}
	}
	r := x.concatBytes(a, b, false)
	// append(nil, nothing) stays nil
	if a.Nil.IsTrue() && isZero(b.Len) {
		r.Nil = True()
	}
	return r
}

// untrackedElem: the (memoised) object holding element idx of an untracked sequence.
func (x *Exec) untrackedElem(s SliceV, idx *Term, et types.Type) *Object {
	if x.utMemo == nil {
		x.utMemo = map[[2]int]*Object{}
	}
	k := [2]int{s.Obj.id, idx.id}
	if o, ok := x.utMemo[k]; ok {
		return o
	}
	o := x.newObject(et, s.Obj.Name+"[]")
	o.Birth = -1
	v := x.materialise(s.Obj.Name+"[]", et)
	if _, isPtr := v.(PtrV); isPtr {
		x.assumedCtr["elements of lists of symbolic length are non-nil pointers (no element invariants)"] = true
	}
	x.constObjs[o] = v
	x.utMemo[k] = o
	return o
}

func (x *Exec) isUntracked(s SliceV) bool {
	if s.Obj == nil {
		return false
	}
	_, u := x.heapGet(s.Obj).(UnknownV)
	return u
}

func isByteLike(t types.Type) bool {
	s, ok := scalarSort(t)
	return ok && s.K == SBV
}

func (x *Exec) copyOp(fr *Frame, args []Value, pos token.Pos) Value {
	dst := asSlice(args[0])
	src := asSlice(args[1])
	nd, okd := concreteLen(dst)
	ns, oks := concreteLen(src)
	if okd && oks {
		n := nd
		if ns < n {
			n = ns
		}
		vals := make([]Value, n)
		for i := 0; i < n; i++ {
			vals[i] = x.elemAt(src, bv64(int64(i)))
		}
		for i := 0; i < n; i++ {
			x.store(PtrV{Obj: dst.Obj, Path: []PathElem{{Field: -1, Idx: BvAdd(dst.Off, bv64(int64(i)))}}, Nil: False()}, vals[i], True())
		}
		return Scalar{bv64(int64(n))}
	}
	n := Ite(BvUlt(dst.Len, src.Len), dst.Len, src.Len)
	if dst.Obj == nil || src.Obj == nil {
		return Scalar{n}
	}
	if okd && nd <= 64 {
		// concrete destination, symbolic source: element-wise conditional stores
		for i := 0; i < nd; i++ {
			g := BvUlt(bv64(int64(i)), src.Len)
			x.store(PtrV{Obj: dst.Obj, Path: []PathElem{{Field: -1, Idx: BvAdd(dst.Off, bv64(int64(i)))}}, Nil: False()},
				x.elemAt(src, bv64(int64(i))), g)
		}
		return Scalar{n}
	}
	if av, isArr := x.heapGet(dst.Obj).(ArrayV); isArr && dst.Off.IsConst() && len(av.E) <= 512 {
		// concrete backing store, symbolic number of elements: element-wise conditional stores
		off := int(dst.Off.Val.Int64())
		for i := 0; off+i < len(av.E); i++ {
			g := BvUlt(bv64(int64(i)), n)
			if g.IsFalse() {
				break
			}
			x.store(PtrV{Obj: dst.Obj, Path: []PathElem{{Field: -1, Idx: bv64(int64(off + i))}}, Nil: False()},
				x.elemAt(src, bv64(int64(i))), g)
		}
		return Scalar{n}
	}
	dv, ok := x.heapGet(dst.Obj).(SymArrV)
	if !ok {
		unsup("copy into concrete store with symbolic length")
	}
	x.noteWrite(dst.Obj)
	if oks && ns <= 64 {
		arr := dv.Arr
		for i := 0; i < ns; i++ {
			g := BvUlt(bv64(int64(i)), dst.Len)
			na := Store(arr, BvAdd(dst.Off, bv64(int64(i))), term(x.elemAt(src, bv64(int64(i)))))
			arr = Ite(g, na, arr)
		}
		x.st.heap.m[dst.Obj] = SymArrV{Arr: arr, Len: dv.Len, W: dv.W}
		return Scalar{n}
	}
	k := FreshBound("k", BV(64))
	inRange := And(BvUle(dst.Off, k), BvUlt(k, BvAdd(dst.Off, n)))
	arr := DefArr(dv.W, k, Ite(inRange, x.byteAt(src, BvSub(k, dst.Off)), Select(dv.Arr, k)))
	x.st.heap.m[dst.Obj] = SymArrV{Arr: arr, Len: dv.Len, W: dv.W}
	return Scalar{n}
}

// aliasObject: arrays nested in objects, viewed as slices.  We materialise the
// nested array as its own object on first use and redirect the containing
// field to it (the containing struct keeps an ArrayRef marker).
type ArrayRef struct{ Obj *Object }

func (x *Exec) aliasObject(p PtrV, n int64) *Object {
	cur := x.loadPath(x.heapGet(p.Obj), p.Path)
	if r, ok := cur.(ArrayRef); ok {
		return r.Obj
	}
	av, ok := cur.(ArrayV)
	if !ok {
		unsup("slicing nested non-array %T", cur)
	}
	o := x.newObject(nil, p.Obj.Name+".arr")
	o.Birth = p.Obj.Birth
	x.st.heap.m[o] = av
	x.st.heap.m[p.Obj] = x.storePath(x.heapGet(p.Obj), p.Path, ArrayRef{o}, True())
	return o
}

func describeValue(v Value) string {
	switch vv := v.(type) {
	case Scalar:
		return vv.T.Short()
	case nil:
		return "<nil>"
	}
	s := fmt.Sprintf("%T", v)
	return strings.TrimPrefix(s, "main.")
}

func (x *Exec) indexAddrChoice(v Value, idx *Term, i *ssa.IndexAddr, fr *Frame) Value {
	switch bv := v.(type) {
	case *ChoiceV:
		return &ChoiceV{C: bv.C, A: x.indexAddrChoice(bv.A, idx, i, fr), B: x.indexAddrChoice(bv.B, idx, i, fr)}
	case SliceV:
		if bv.Obj == nil {
			return PtrV{Nil: True()}
		}
		return PtrV{Obj: bv.Obj, Path: []PathElem{{Field: -1, Idx: BvAdd(bv.Off, idx)}}, Nil: False()}
	}
	unsup("IndexAddr on %T inside a choice", v)
	return nil
}

// sliceLen returns the length of a slice value, distributing over choices.
func sliceLen(v Value) *Term {
	switch s := v.(type) {
	case SliceV:
		return s.Len
	case *ChoiceV:
		return Ite(s.C, sliceLen(s.A), sliceLen(s.B))
	}
	unsup("length of %T", v)
	return nil
}

// loadTyped loads through p; loads through a definitely-nil pointer (whose
// safety obligation has been emitted, or which sit under a guard in ghost
// code) yield an arbitrary value of the type.
func (x *Exec) loadTyped(p Value, t types.Type) Value {
	switch pv := p.(type) {
	case PtrV:
		if pv.Obj == nil {
			n := len(x.inputs)
			v := x.freshValue("nil-deref", t, 1)
			x.inputs = x.inputs[:n]
			return v
		}
	case *ChoiceV:
		return x.mergeValue(pv.C, x.loadEmptyOK(pv.A, t), x.loadEmptyOK(pv.B, t))
	}
	return x.load(p)
}

// loadEmptyOK: one side of a merged pointer.  An element of an EMPTY concrete array at a symbolic
// index (the side of the merge on which the slice is empty, so that no index is in range there) is an
// arbitrary value of the type: the merge condition together with the index guard excludes it.
func (x *Exec) loadEmptyOK(p Value, t types.Type) (v Value) {
	if pv, ok := p.(PtrV); ok && pv.Obj != nil && len(pv.Path) == 1 && pv.Path[0].Idx != nil && !pv.Path[0].Idx.IsConst() {
		if cur, ok := x.st.heap.m[pv.Obj]; ok {
			if a, isA := cur.(ArrayV); isA && len(a.E) == 0 {
				n := len(x.inputs)
				v = x.freshValue("empty-elem", t, 1)
				x.inputs = x.inputs[:n]
				return v
			}
		} else if cur, ok := x.constObjs[pv.Obj]; ok {
			if a, isA := cur.(ArrayV); isA && len(a.E) == 0 {
				n := len(x.inputs)
				v = x.freshValue("empty-elem", t, 1)
				x.inputs = x.inputs[:n]
				return v
			}
		}
	}
	return x.loadTyped(p, t)
}

func (x *Exec) mergeGhost(c *Term, a, b map[string][]Value) map[string][]Value {
	if a == nil && b == nil {
		return nil
	}
	m := map[string][]Value{}
	for k, va := range a {
		vb := b[k]
		if len(va) != len(vb) {
			// histories of different length: keep the common prefix only when identical, else mark unknown
			m[k] = []Value{UnknownV{nil, "ghost log " + k + " has different lengths on joined paths"}}
			continue
		}
		out := make([]Value, len(va))
		for i := range va {
			out[i] = x.mergeValue(c, va[i], vb[i])
		}
		m[k] = out
	}
	for k, vb := range b {
		if _, ok := a[k]; !ok {
			if len(vb) == 0 {
				m[k] = vb
			} else {
				m[k] = []Value{UnknownV{nil, "ghost log " + k + " has different lengths on joined paths"}}
			}
		}
	}
	return m
}

// pickBehavior selects the contract case a call site is checked against:
//  1. cases whose shape clauses disagree with the (concrete) lengths of the actual arguments are out;
//  2. among the rest, the first case whose preconditions are decided true by the path condition
//     and the recorded facts (no solver call);
//  3. otherwise the case named "total", else the first remaining one.
// Whatever is picked, its preconditions become P obligations of the caller, so the choice can only
// lose proofs, never gain one.
func (x *Exec) pickBehavior(fn *ssa.Function, name string, args []Value) *FuncSpec {
	def := x.P.specs[name]
	bs := x.P.behaviors[name]
	if len(bs) <= 1 {
		return def
	}
	var cands, unsure []*FuncSpec
	for _, sp := range bs {
		if sp.NoSafety || sp.ProofOnly {
			continue
		}
		ok, confirmed := true, true
		for path, n := range sp.Shape {
			v, found := x.resolveArgPath(fn, args, path)
			if !found {
				continue
			}
			sv, isS := v.(SliceV)
			if !isS {
				continue
			}
			if m, c := concreteLen(asSlice(sv)); c && m != n {
				ok = false
				break
			} else if !c {
				confirmed = false
			}
		}
		if ok && confirmed {
			cands = append(cands, sp)
		} else if ok {
			unsure = append(unsure, sp)
		}
	}
	if len(cands) == 0 {
		// cases whose shape clauses could not be confirmed (symbolic lengths) come second
		cands = unsure
	}
	if len(cands) == 0 {
		return def
	}
	if len(cands) == 1 {
		return cands[0]
	}
	for _, sp := range cands {
		if x.probeRequires(fn, sp, args) {
			return sp
		}
	}
	for _, sp := range cands {
		if sp.Behavior == "total" {
			return sp
		}
	}
	return cands[0]
}

type probeDone struct{}

var probeCtr int

// probeRequires evaluates the preconditions of a contract case on a scratch copy of the state
// and tells whether all of them are decided true without a solver.
func (x *Exec) probeRequires(fn *ssa.Function, sp *FuncSpec, args []Value) (ok bool) {
	h := x.P.harnessOf[sp.Key()]
	if h == nil {
		return false
	}
	saved := x.st
	nA, nO, nI := len(x.assumes), len(x.obls), len(x.inputs)
	nCF, depth, ghost, nCM, nWL := len(x.curFunc), x.depth, x.ghost, len(x.calleeMode), len(x.writeLog)
	cm := &calleeCtx{fn: fn, caller: x.funcName(), probe: true}
	x.st = saved.fork(saved.pc)
	x.dry++
	defer func() {
		r := recover()
		x.dry--
		x.st = saved
		x.assumes, x.obls, x.inputs = x.assumes[:nA], x.obls[:nO], x.inputs[:nI]
		x.curFunc, x.depth, x.ghost, x.calleeMode, x.writeLog = x.curFunc[:nCF], depth, ghost, x.calleeMode[:nCM], x.writeLog[:nWL]
		if r != nil {
			if _, isP := r.(probeDone); !isP {
				if _, isU := r.(Unsupported); !isU {
					panic(r)
				}
				ok = false
				return
			}
		}
		if len(cm.reqs) == 0 {
			ok = false
			return
		}
		ok = true
		var open []*Term
		for _, c := range cm.reqs {
			if sc := x.underPC(c); !sc.IsTrue() {
				ok = false
				open = append(open, sc)
			}
		}
		if !ok && x.dry == 0 && x.st != nil {
			// not decided syntactically: one short solver query (a wrong "no" only loses the better case)
			hyps := relevantHyps(x.assumes, x.st.pc)
			asserts := append(append([]*Term{}, hyps...), x.st.pc, Not(And(open...)))
			probeCtr++
			res := Solve(Script(asserts, nil, x.probeOpaque), os.TempDir(), fmt.Sprintf("govc_probe_%d_%d", os.Getpid(), probeCtr), 3)
			os.Remove(filepath.Join(os.TempDir(), fmt.Sprintf("govc_probe_%d_%d.smt2", os.Getpid(), probeCtr)))
			ok = res.Verdict == "unsat"
		}
	}()
	x.calleeMode = append(x.calleeMode, cm)
	x.callFunction(h, args, nil, true)
	return false
}

// resolveArgPath evaluates "param.Field.Field" against the actual arguments.
func (x *Exec) resolveArgPath(fn *ssa.Function, args []Value, path string) (Value, bool) {
	parts := strings.Split(path, ".")
	for i, p := range fn.Params {
		if p.Name() != parts[0] || i >= len(args) {
			continue
		}
		v := args[i]
		t := p.Type()
		for _, f := range parts[1:] {
			if pt, ok := t.Underlying().(*types.Pointer); ok {
				pv, ok2 := v.(PtrV)
				if !ok2 || pv.Obj == nil {
					return nil, false
				}
				v = x.load(pv)
				t = pt.Elem()
			}
			st, ok := t.Underlying().(*types.Struct)
			if !ok {
				return nil, false
			}
			sv, ok := x.snap(v).(StructV)
			if !ok {
				return nil, false
			}
			idx := -1
			for k := 0; k < st.NumFields(); k++ {
				if st.Field(k).Name() == f {
					idx = k
				}
			}
			if idx < 0 {
				return nil, false
			}
			v, t = sv.F[idx], st.Field(idx).Type()
		}
		return v, true
	}
	return nil, false
}

func debugStack() string {
	buf := make([]byte, 1<<14)
	n := runtime.Stack(buf, false)
	var keep []string
	for _, l := range strings.Split(string(buf[:n]), "\n") {
		if strings.HasPrefix(l, "main.") {
			if i := strings.LastIndex(l, "("); i > 0 {
				l = l[:i]
			}
			keep = append(keep, strings.TrimPrefix(l, "main.(*Exec)."))
		}
	}
	if len(keep) > 8 {
		keep = keep[:8]
	}
	return strings.Join(keep, " < ")
}

// callSiteClauses proves the `call` clauses of the function under contract at a call of fn.
func (x *Exec) callSiteClauses(fr *Frame, fn *ssa.Function, args []Value, pos token.Pos) {
	cls := fr.spec.Calls[shortFn(fn)]
	if len(cls) == 0 {
		return
	}
	var blk *ssa.BasicBlock
	if x.curCall != nil {
		blk = x.curCall.Block()
	}
	if blk == nil || blk.Parent() != fr.fn {
		return
	}
	li := &LoopInfo{head: blk, key: "call", at: x.curCall}
	saved := x.st
	for _, c := range cls {
		gf := x.P.ghostFn(fr.fn.Pkg, c.Ghost)
		if gf == nil {
			unsup("ghost function %s for call clause not found (contract unbound)", c.Ghost)
		}
		ga := make([]Value, len(gf.Params))
		for i, p := range gf.Params {
			found := false
			for j, q := range fn.Params {
				if q.Name() == p.Name() && j < len(args) {
					if !types.Identical(q.Type(), p.Type()) {
						unsup("call clause %s: binder %q is declared %s, the parameter of %s is %s (contract unbound)", c.Label, p.Name(), p.Type(), shortFn(fn), q.Type())
					}
					ga[i], found = args[j], true
				}
			}
			if !found {
				// outer_<name>: the caller's variable <name>, when the callee has a parameter of that name too
				v, ok := x.binderValue(fr, li, saved, strings.TrimPrefix(p.Name(), "outer_"))
				if !ok {
					unsup("call clause %s: cannot bind %q at the call of %s (contract unbound)", c.Label, p.Name(), shortFn(fn))
				}
				ga[i] = v
			}
		}
		x.st = saved
		r := x.callFunction(gf, ga, nil, true)
		x.st = saved
		x.curFunc = append(x.curFunc, fnName(fr.fn))
		if x.callSeen == nil {
			x.callSeen = map[string]bool{}
		}
		x.callSeen[shortFn(fn)+"."+c.Label] = true
		x.oblige("P", "call:"+shortFn(fn)+"."+c.Label, term(r), pos)
		x.curFunc = x.curFunc[:len(x.curFunc)-1]
	}
	x.st = saved
}
