package main

// Assumed contracts of further external functions (encoding/hex, strconv,
// strings, net).  Every use is recorded in the evidence (assumedCtr).

import (
	"go/token"
	"go/types"
	"regexp"
	"strconv"
	"strings"

	"golang.org/x/tools/go/ssa"
)

// hexVal is the value of an ASCII hex digit (0 for other octets); isHex tells whether it is one.
func hexVal(c *Term) *Term {
	d := BvSub(c, BVU('0', 8))
	lo := BvAdd(BvSub(c, BVU('a', 8)), BVU(10, 8))
	up := BvAdd(BvSub(c, BVU('A', 8)), BVU(10, 8))
	return Ite(And(BvUle(BVU('0', 8), c), BvUle(c, BVU('9', 8))), d,
		Ite(And(BvUle(BVU('a', 8), c), BvUle(c, BVU('f', 8))), lo,
			Ite(And(BvUle(BVU('A', 8), c), BvUle(c, BVU('F', 8))), up, BVU(0, 8))))
}

func isHex(c *Term) *Term {
	return Or(And(BvUle(BVU('0', 8), c), BvUle(c, BVU('9', 8))),
		And(BvUle(BVU('a', 8), c), BvUle(c, BVU('f', 8))),
		And(BvUle(BVU('A', 8), c), BvUle(c, BVU('F', 8))))
}

func isDigit(c *Term) *Term { return And(BvUle(BVU('0', 8), c), BvUle(c, BVU('9', 8))) }

func (x *Exec) errValue(isNil *Term) Value {
	if isNil.IsTrue() {
		return IfaceV{Nil: True(), Tag: "error"}
	}
	return IfaceV{Nil: isNil, Tag: "opaque"}
}

func init() {
	// encoding/hex.DecodeString(s): (octets, nil) when len(s) is even and every character is a hex
	// digit — octet j = hexval(s[2j])<<4 | hexval(s[2j+1]); otherwise a non-nil error and unspecified octets.
	extModels["encoding/hex.DecodeString"] = func(x *Exec, fr *Frame, args []Value, pos token.Pos) Value {
		s := asSlice(args[0])
		// the digit value and the validity test are the specification functions ids.HexDigit / ids.IsHexDigit,
		// so that code and contracts speak about the same terms
		hexVal := func(c *Term) *Term { return term(x.callSpec("ids.HexDigit", Scalar{c})) }
		isHex := func(c *Term) *Term { return term(x.callSpec("ids.IsHexDigit", Scalar{c})) }
		if n, ok := concreteLen(s); ok && n <= 128 {
			valid := BoolC(n%2 == 0)
			e := make([]Value, n/2)
			for i := 0; i < n; i++ {
				valid = And(valid, isHex(x.byteAt(s, bv64(int64(i)))))
			}
			for j := 0; j < n/2; j++ {
				hi, lo := x.byteAt(s, bv64(int64(2*j))), x.byteAt(s, bv64(int64(2*j+1)))
				e[j] = Scalar{BvOr(BvShl(hexVal(hi), BVU(4, 8)), hexVal(lo))}
			}
			o := x.newObject(types.Typ[types.Uint8], "hex")
			x.st.heap.m[o] = ArrayV{e}
			ln := bv64(int64(n / 2))
			if !valid.IsTrue() {
				// on error the decoded prefix is returned: contents unspecified, at most n/2 octets
				if valid.IsFalse() {
					return TupleV{E: []Value{x.unspecBytes("hexerr", ln), IfaceV{Nil: False(), Tag: "error"}}}
				}
				good := SliceV{Obj: o, Off: bv64(0), Len: ln, Cap: ln, Nil: False()}
				bad := x.unspecBytes("hexerr", ln)
				return TupleV{E: []Value{x.mergeValue(valid, good, bad), x.errValue(valid)}}
			}
			return TupleV{E: []Value{SliceV{Obj: o, Off: bv64(0), Len: ln, Cap: ln, Nil: False()}, IfaceV{Nil: True(), Tag: "error"}}}
		}
		k := FreshBound("k", BV(64))
		two := BvShl(k, bv64(1))
		hi, lo := x.byteAt(s, two), x.byteAt(s, BvAdd(two, bv64(1)))
		arr := DefArr(8, k, BvOr(BvShl(hexVal(hi), BVU(4, 8)), hexVal(lo)))
		q := FreshBound("q", BV(64))
		valid := And(Eq(Extract(s.Len, 0, 0), BVU(0, 1)), Forall([]*Term{q}, Imp(BvUlt(q, s.Len), isHex(x.byteAt(s, q)))))
		ln := BvLshr(s.Len, bv64(1))
		o := x.newObject(types.Typ[types.Uint8], "hex")
		bad := Fresh("hexerr!arr", Arr(8))
		badLen := Fresh("hexerr!len", BV(64))
		x.assume(BvUle(badLen, ln))
		x.st.heap.m[o] = SymArrV{Arr: Ite(valid, arr, bad), Len: Ite(valid, ln, badLen), W: 8}
		rl := Ite(valid, ln, badLen)
		return TupleV{E: []Value{SliceV{Obj: o, Off: bv64(0), Len: rl, Cap: rl, Nil: False()}, x.errValue(valid)}}
	}
	// strconv.Atoi(s): for 1..18 decimal digits (no sign) the value and a nil error; for a string
	// with a character that is neither a digit nor a leading sign, a non-nil error and 0; otherwise unspecified.
	extModels["strconv.Atoi"] = func(x *Exec, fr *Frame, args []Value, pos token.Pos) Value {
		s := asSlice(args[0])
		if n, ok := concreteLen(s); ok && n >= 1 && n <= 18 {
			valid := True()
			val := bv64(0)
			for i := 0; i < n; i++ {
				c := x.byteAt(s, bv64(int64(i)))
				valid = And(valid, isDigit(c))
				val = BvAdd(BvMul(val, bv64(10)), Zext(BvSub(c, BVU('0', 8)), 64))
			}
			other := Fresh("atoi!val", BV(64))
			otherNil := Fresh("atoi!errnil", BoolSort)
			// a single non-digit character that is not a sign is always an error with value 0
			if n == 1 {
				c := x.byteAt(s, bv64(0))
				sign := Or(Eq(c, BVU('+', 8)), Eq(c, BVU('-', 8)))
				_ = sign
				return TupleV{E: []Value{Scalar{Ite(valid, val, bv64(0))}, x.errValue(valid)}}
			}
			return TupleV{E: []Value{Scalar{Ite(valid, val, other)}, x.errValue(Or(valid, otherNil))}}
		}
		// symbolic length: the value is the specification function strspec.Atoi
		v := x.callSpec("strspec.Atoi", s)
		ok := term(x.callSpec("strspec.IsDecimal", s))
		other := Fresh("atoi!val", BV(64))
		otherNil := Fresh("atoi!errnil", BoolSort)
		return TupleV{E: []Value{Scalar{Ite(ok, term(v), other)}, x.errValue(Or(ok, otherNil))}}
	}
	// strings.TrimPrefix(s, prefix) with a constant prefix.
	extModels["strings.TrimPrefix"] = func(x *Exec, fr *Frame, args []Value, pos token.Pos) Value {
		s, p := asSlice(args[0]), asSlice(args[1])
		n, ok := concreteLen(p)
		if !ok {
			unsup("strings.TrimPrefix with a symbolic prefix")
		}
		has := BvUle(bv64(int64(n)), s.Len)
		for i := 0; i < n; i++ {
			// reads beyond the end are guarded by has
			has = And(has, Eq(x.byteAt(s, bv64(int64(i))), x.byteAt(p, bv64(int64(i)))))
		}
		// decided by the path condition (a SUPI "imsi-…", a string of digits): keep the offset concrete
		if h := x.underPC(has); h.IsConst() {
			has = h
		} else if _, conc := concreteLen(s); conc {
			if x.probeValid(has) {
				has = True()
			} else if x.probeValid(Not(has)) {
				has = False()
			}
		}
		off := Ite(has, bv64(int64(n)), bv64(0))
		r := SliceV{Obj: s.Obj, Off: BvAdd(s.Off, off), Len: BvSub(s.Len, off), Cap: BvSub(s.Len, off), Nil: s.Nil, Str: true}
		return r
	}
	// net.IPv4(a,b,c,d): the 16-octet IPv4-in-IPv6 form ::ffff:a.b.c.d
	extModels["net.IPv4"] = func(x *Exec, fr *Frame, args []Value, pos token.Pos) Value {
		e := make([]Value, 16)
		for i := 0; i < 10; i++ {
			e[i] = Scalar{BVU(0, 8)}
		}
		e[10], e[11] = Scalar{BVU(0xff, 8)}, Scalar{BVU(0xff, 8)}
		for i := 0; i < 4; i++ {
			e[12+i] = args[i]
		}
		o := x.newObject(types.Typ[types.Uint8], "ipv4")
		x.st.heap.m[o] = ArrayV{e}
		return SliceV{Obj: o, Off: bv64(0), Len: bv64(16), Cap: bv64(16), Nil: False()}
	}
	// net.ParseIP(s): nil when s is not a textual IP address, else its 16-octet form
	// (uninterpreted functions net.ValidIP, net.ParseIP16 of the text).
	extModels["net.ParseIP"] = func(x *Exec, fr *Frame, args []Value, pos token.Pos) Value {
		s := asSlice(args[0])
		arr := x.sliceAsArray(s, 8)
		declUF("f!net.ValidIP", []Sort{Arr(8), BV(64)}, BoolSort, [][2]int{{0, 1}})
		declUF("f!net.ParseIP16", []Sort{Arr(8), BV(64)}, BV(128), [][2]int{{0, 1}})
		valid := App("f!net.ValidIP", BoolSort, arr, s.Len)
		v := App("f!net.ParseIP16", BV(128), arr, s.Len)
		e := make([]Value, 16)
		for i := 0; i < 16; i++ {
			e[i] = Scalar{Extract(v, 127-8*i, 120-8*i)}
		}
		o := x.newObject(types.Typ[types.Uint8], "parseip")
		x.st.heap.m[o] = ArrayV{e}
		ln := Ite(valid, bv64(16), bv64(0))
		return SliceV{Obj: o, Off: bv64(0), Len: ln, Cap: ln, Nil: Not(valid)}
	}
	isV4Mapped := func(x *Exec, ip SliceV) *Term {
		c := True()
		for i := 0; i < 10; i++ {
			c = And(c, Eq(x.byteAt(ip, bv64(int64(i))), BVU(0, 8)))
		}
		return And(c, Eq(x.byteAt(ip, bv64(10)), BVU(0xff, 8)), Eq(x.byteAt(ip, bv64(11)), BVU(0xff, 8)))
	}
	// (net.IP).To4(): the last four octets of a 16-octet IPv4-in-IPv6 address, a 4-octet address itself, else nil.
	extModels["(net.IP).To4"] = func(x *Exec, fr *Frame, args []Value, pos token.Pos) Value {
		ip := asSlice(args[0])
		if ip.Obj == nil {
			return SliceV{Off: bv64(0), Len: bv64(0), Cap: bv64(0), Nil: True()}
		}
		if _, isArr := x.heapGet(ip.Obj).(ArrayV); !isArr {
			unsup("net.IP.To4 on a symbolic-shape address")
		}
		is16 := Eq(ip.Len, bv64(16))
		is4 := Eq(ip.Len, bv64(4))
		var mapped *Term = False()
		if av := x.heapGet(ip.Obj).(ArrayV); len(av.E) >= 16 && isZero(ip.Off) {
			mapped = And(is16, isV4Mapped(x, ip))
		}
		off := Ite(mapped, bv64(12), bv64(0))
		ok := Or(mapped, is4)
		ln := Ite(ok, bv64(4), bv64(0))
		return SliceV{Obj: ip.Obj, Off: BvAdd(ip.Off, off), Len: ln, Cap: ln, Nil: Or(Not(ok), ip.Nil)}
	}
	// (net.IP).To16(): a 16-octet address itself; a 4-octet one in IPv4-in-IPv6 form; else nil.
	extModels["(net.IP).To16"] = func(x *Exec, fr *Frame, args []Value, pos token.Pos) Value {
		ip := asSlice(args[0])
		if ip.Obj == nil {
			return SliceV{Off: bv64(0), Len: bv64(0), Cap: bv64(0), Nil: True()}
		}
		if n, ok := concreteLen(ip); ok && n == 4 {
			m := extModels["net.IPv4"]
			return m(x, fr, []Value{x.elemAt(ip, bv64(0)), x.elemAt(ip, bv64(1)), x.elemAt(ip, bv64(2)), x.elemAt(ip, bv64(3))}, pos)
		}
		is16 := Eq(ip.Len, bv64(16))
		if !is16.IsTrue() && !Eq(ip.Len, Ite(Not(ip.Nil), bv64(16), bv64(0))).IsTrue() {
			// length is 16 or the slice is nil (result of ParseIP)
			if _, isArr := x.heapGet(ip.Obj).(ArrayV); !isArr {
				unsup("net.IP.To16 on a symbolic-shape address")
			}
		}
		ln := Ite(is16, bv64(16), bv64(0))
		return SliceV{Obj: ip.Obj, Off: ip.Off, Len: ln, Cap: ln, Nil: Or(Not(is16), ip.Nil)}
	}
	// (net.IP).String(): the canonical text of the address: an uninterpreted function of its
	// 16-octet form (4-octet addresses are taken in IPv4-in-IPv6 form), with
	// ParseIP(String(a)) = a for every 16-octet a.
	extModels["(net.IP).String"] = func(x *Exec, fr *Frame, args []Value, pos token.Pos) Value {
		ip := asSlice(args[0])
		n, ok := concreteLen(ip)
		if !ok || (n != 4 && n != 16) {
			unsup("net.IP.String on an address whose length is not 4 or 16")
		}
		if n == 4 {
			m := extModels["net.IPv4"]
			ip = asSlice(m(x, fr, []Value{x.elemAt(ip, bv64(0)), x.elemAt(ip, bv64(1)), x.elemAt(ip, bv64(2)), x.elemAt(ip, bv64(3))}, pos))
		}
		var packed *Term
		for i := 0; i < 16; i++ {
			b := x.byteAt(ip, bv64(int64(i)))
			if packed == nil {
				packed = b
			} else {
				packed = Concat(packed, b)
			}
		}
		declUF("f!net.ValidIP", []Sort{Arr(8), BV(64)}, BoolSort, [][2]int{{0, 1}})
		declUF("f!net.ParseIP16", []Sort{Arr(8), BV(64)}, BV(128), [][2]int{{0, 1}})
		fa := declUF("f!net.IPString!arr", []Sort{BV(128)}, Arr(8), nil)
		declUF("f!net.IPString!len", []Sort{BV(128)}, BV(64), nil)
		if fa.Inst == nil {
			fa.Inst = func(args []*Term) *Term {
				a := args[0]
				sa, sl := App("f!net.IPString!arr", Arr(8), a), App("f!net.IPString!len", BV(64), a)
				return And(App("f!net.ValidIP", BoolSort, sa, sl), Eq(App("f!net.ParseIP16", BV(128), sa, sl), a),
					BvUle(bv64(2), sl), BvUle(sl, bv64(45)))
			}
		}
		o := x.newObject(types.Typ[types.Uint8], "ipstring")
		ln := App("f!net.IPString!len", BV(64), packed)
		x.st.heap.m[o] = SymArrV{Arr: App("f!net.IPString!arr", Arr(8), packed), Len: ln, W: 8}
		return SliceV{Obj: o, Off: bv64(0), Len: ln, Cap: ln, Nil: False(), Str: true}
	}
}

func declUF(name string, params []Sort, ret Sort, arrSlots [][2]int) *FuncDecl {
	if fd, ok := TB.funcs[name]; ok {
		return fd
	}
	pn := make([]string, len(params))
	for i := range pn {
		pn[i] = "p" + string(rune('0'+i))
	}
	fd := &FuncDecl{Name: name, Params: params, PNames: pn, Ret: ret, ArrSlots: arrSlots}
	DeclareFunc(fd)
	return fd
}

// unspecBytes: a slice of at most maxLen arbitrary octets.
func (x *Exec) unspecBytes(name string, maxLen *Term) SliceV {
	n := len(x.inputs)
	sv := x.freshSymSlice(name, 8, types.Typ[types.Uint8])
	x.inputs = x.inputs[:n]
	x.assume(BvUle(sv.Len, maxLen))
	return sv
}

// stringUF models a string-valued specification function that is characterised by assumed facts
// instead of being defined.  Only strspec.FormatDec(n, w) with a constant width exists so far:
// w octets digit(n,w,k), and for 0 <= n < 10^w they are decimal digits whose value is n.
func (x *Exec) stringUF(fn *ssa.Function, args []Value) Value {
	if fn.Name() != "FormatDec" {
		unsup("string-uf function %s has no characterisation", fn)
	}
	return x.formatDec(term(args[0]), term(args[1]))
}

func (x *Exec) formatDec(n, w *Term) Value {
	if !w.IsConst() || !w.Val.IsInt64() || w.Val.Int64() < 1 || w.Val.Int64() > 18 {
		unsup("FormatDec with a width that is not a constant in 1..18")
	}
	wi := int(w.Val.Int64())
	fd := declUF("f!strspec.FormatDec!digit", []Sort{BV(64), BV(64), BV(64)}, BV(8), nil)
	if fd.Inst == nil {
		fd.Inst = func(a []*Term) *Term {
			n, w := a[0], a[1]
			if !w.IsConst() {
				return True()
			}
			wi := int(w.Val.Int64())
			pow := int64(1)
			for i := 0; i < wi; i++ {
				pow *= 10
			}
			sum := bv64(0)
			digits := True()
			for k := 0; k < wi; k++ {
				d := App("f!strspec.FormatDec!digit", BV(8), n, w, bv64(int64(k)))
				digits = And(digits, isDigit(d))
				sum = BvAdd(BvMul(sum, bv64(10)), Zext(BvSub(d, BVU('0', 8)), 64))
			}
			return Imp(And(BvSle(bv64(0), n), BvSlt(n, bv64(pow))), And(digits, Eq(sum, n)))
		}
	}
	e := make([]Value, wi)
	for k := 0; k < wi; k++ {
		e[k] = Scalar{App("f!strspec.FormatDec!digit", BV(8), n, w, bv64(int64(k)))}
	}
	o := x.newObject(types.Typ[types.Uint8], "formatdec")
	x.st.heap.m[o] = ArrayV{e}
	// (for n >= 10^w the real result is longer; callers are held to n < 10^w by an obligation)
	pow := int64(1)
	for i := 0; i < wi; i++ {
		pow *= 10
	}
	if x.ghost == 0 {
		x.oblige("S", "formatdec-width", And(BvSle(bv64(0), n), BvSlt(n, bv64(pow))), token.NoPos)
	}
	return SliceV{Obj: o, Off: bv64(0), Len: bv64(int64(wi)), Cap: bv64(int64(wi)), Nil: False(), Str: true}
}

func init() {
	// fmt.Sprintf with the one format the code uses for identifiers: "%0*d" (width, value).
	extModels["fmt.Sprintf"] = func(x *Exec, fr *Frame, args []Value, pos token.Pos) Value {
		f := x.constStr(args[0])
		va := asSlice(args[1])
		n, ok := concreteLen(va)
		if r, done := x.sprintfStrings(f, va, n, ok); done {
			return r
		}
		// literal text around one zero-padded decimal of constant width: "imsi-%015d"
		if m := regexp.MustCompile(`^([^%]*)%0(\d+)d([^%]*)$`).FindStringSubmatch(f); m != nil && ok && n == 1 {
			if v, isI := x.elemAt(va, bv64(0)).(IfaceV); isI && v.V != nil {
				if _, isS := v.V.(Scalar); isS {
					wv, _ := strconv.Atoi(m[2])
					d := asSlice(x.formatDec(Resize(term(v.V), 64, true), bv64(int64(wv))))
					d.Str = true
					r := x.concatBytes(x.constString(m[1]), d, true)
					if m[3] != "" {
						r = x.concatBytes(r, x.constString(m[3]), true)
					}
					return r
				}
			}
		}
		if f != "%0*d" || !ok || n != 2 {
			return UnknownV{types.Typ[types.String], "fmt.Sprintf with a format that is not modelled: " + f}
		}
		w, ok1 := x.elemAt(va, bv64(0)).(IfaceV)
		v, ok2 := x.elemAt(va, bv64(1)).(IfaceV)
		if !ok1 || !ok2 || w.V == nil || v.V == nil {
			unsup("fmt.Sprintf arguments")
		}
		return x.formatDec(Resize(term(v.V), 64, true), Resize(term(w.V), 64, true))
	}
}

// sprintfStrings: formats made of literal text and %s verbs applied to string arguments are concatenations.
func (x *Exec) sprintfStrings(f string, va SliceV, n int, ok bool) (Value, bool) {
	if !ok || f == "?" || strings.Count(f, "%") != strings.Count(f, "%s") || strings.Count(f, "%s") != n || n == 0 {
		return nil, false
	}
	parts := strings.Split(f, "%s")
	var acc SliceV = x.constString(parts[0])
	for i := 0; i < n; i++ {
		iv, isI := x.elemAt(va, bv64(int64(i))).(IfaceV)
		if !isI || iv.V == nil || iv.Dyn == nil || !isString(iv.Dyn) {
			return nil, false
		}
		acc = x.concatBytes(acc, asSlice(iv.V), true)
		acc = x.concatBytes(acc, x.constString(parts[i+1]), true)
	}
	return acc, true
}

func init() {
	// crypto/hmac.New(sha256.New, key): a MAC object remembering the key and the octets written so far;
	// Sum(nil) is HMAC-SHA-256(key, written) — the opaque specification function kdfspec.HMAC256.
	extModels["crypto/hmac.New"] = func(x *Exec, fr *Frame, args []Value, pos token.Pos) Value {
		if fv, ok := args[0].(FuncV); !ok || fv.Fn == nil || fv.Fn.String() != "crypto/sha256.New" {
			unsup("hmac.New with a hash other than sha256.New")
		}
		key := x.copySlice(asSlice(args[1]))
		o := x.newObject(nil, "hmac")
		x.st.heap.m[o] = StructV{F: []Value{key, x.constStringBytes("")}}
		return IfaceV{Nil: False(), Tag: "hmac", V: PtrV{Obj: o, Nil: False()}}
	}
	ifaceModels["hmac.Write"] = func(x *Exec, fr *Frame, iv IfaceV, args []Value, pos token.Pos) Value {
		p := iv.V.(PtrV)
		st := x.heapGet(p.Obj).(StructV)
		data := asSlice(args[0])
		acc := x.concatBytes(asSlice(st.F[1]), data, false)
		x.st.heap.m[p.Obj] = StructV{F: []Value{st.F[0], acc}}
		return TupleV{E: []Value{Scalar{data.Len}, IfaceV{Nil: True(), Tag: "error"}}}
	}
	ifaceModels["hmac.Sum"] = func(x *Exec, fr *Frame, iv IfaceV, args []Value, pos token.Pos) Value {
		p := iv.V.(PtrV)
		st := x.heapGet(p.Obj).(StructV)
		prefix := asSlice(args[0])
		if !isZero(prefix.Len) {
			unsup("hmac Sum with a non-empty prefix")
		}
		out := x.callSpec("kdfspec.HMAC256", st.F[0], st.F[1])
		return x.arrayToFreshSlice(out, "hmacsum")
	}
	// regexp.Compile of the one pattern the code uses; FindStringSubmatch on it.
	extModels["regexp.Compile"] = func(x *Exec, fr *Frame, args []Value, pos token.Pos) Value {
		pat := x.constStr(args[0])
		if pat != "(?:imsi|supi)-([0-9]{5,15})" {
			unsup("regexp.Compile of a pattern that is not modelled: %s", pat)
		}
		o := x.newObject(nil, "regexp:"+pat)
		x.st.heap.m[o] = StructV{F: []Value{}}
		return TupleV{E: []Value{PtrV{Obj: o, Nil: False()}, IfaceV{Nil: True(), Tag: "error"}}}
	}
	// (*Regexp).FindStringSubmatch(s) for "(?:imsi|supi)-([0-9]{5,15})": when s is "imsi-" or "supi-"
	// followed by 5..15 decimal digits and nothing else, the result is [s, digits]; otherwise unspecified.
	extModels["(*regexp.Regexp).FindStringSubmatch"] = func(x *Exec, fr *Frame, args []Value, pos token.Pos) Value {
		s := asSlice(args[1])
		n, ok := concreteLen(s)
		cond := False()
		if ok && n >= 10 && n <= 20 {
			pi, ps := x.constString("imsi-"), x.constString("supi-")
			isI, isS := True(), True()
			for k := 0; k < 5; k++ {
				c := x.byteAt(s, bv64(int64(k)))
				isI = And(isI, Eq(c, x.byteAt(pi, bv64(int64(k)))))
				isS = And(isS, Eq(c, x.byteAt(ps, bv64(int64(k)))))
			}
			cond = Or(isI, isS)
			for k := 5; k < n; k++ {
				cond = And(cond, isDigit(x.byteAt(s, bv64(int64(k)))))
			}
		} else if !ok {
			unsup("FindStringSubmatch on a string of symbolic length")
		}
		digits := SliceV{Obj: s.Obj, Off: BvAdd(s.Off, bv64(5)), Len: BvSub(s.Len, bv64(5)), Cap: BvSub(s.Len, bv64(5)), Nil: False(), Str: true}
		o := x.newObject(types.Typ[types.String], "submatch")
		x.st.heap.m[o] = ArrayV{[]Value{s, digits}}
		ln := bv64(2)
		nilT := False()
		if !cond.IsTrue() {
			// outside the modelled domain the result is unspecified (nil or some match)
			other := Fresh("submatch!len", BV(64))
			x.assume(BvUle(other, bv64(2)))
			ln = Ite(cond, bv64(2), other)
			nilT = And(Not(cond), Fresh("submatch!nil", BoolSort))
		}
		return SliceV{Obj: o, Off: bv64(0), Len: ln, Cap: ln, Nil: nilT}
	}
}

// constStringBytes is a fresh empty byte slice (accumulator).
func (x *Exec) constStringBytes(s string) SliceV {
	o := x.newObject(types.Typ[types.Uint8], "acc")
	x.st.heap.m[o] = ArrayV{[]Value{}}
	return SliceV{Obj: o, Off: bv64(0), Len: bv64(0), Cap: bv64(0), Nil: False()}
}

func init() {
	// runtime.Caller: unspecified results (used for log decoration only)
	extModels["runtime.Caller"] = func(x *Exec, fr *Frame, args []Value, pos token.Pos) Value {
		n := len(x.inputs)
		file := x.freshSymSlice("caller!file", 8, types.Typ[types.Uint8])
		x.inputs = x.inputs[:n]
		file.Str = true
		return TupleV{E: []Value{Scalar{Fresh("caller!pc", BV(64))}, file, Scalar{Fresh("caller!line", BV(64))}, Scalar{Fresh("caller!ok", BoolSort)}}}
	}
	// path.Base: some string (log decoration only)
	extModels["path.Base"] = func(x *Exec, fr *Frame, args []Value, pos token.Pos) Value {
		n := len(x.inputs)
		r := x.freshSymSlice("base", 8, types.Typ[types.Uint8])
		x.inputs = x.inputs[:n]
		r.Str = true
		return r
	}
	// logrus.New / (*Logger).WithFields: non-nil objects (their content is irrelevant to the verified state)
	extModels["github.com/sirupsen/logrus.New"] = func(x *Exec, fr *Frame, args []Value, pos token.Pos) Value {
		o := x.newObject(nil, "logrus.Logger")
		x.st.heap.m[o] = StructV{F: []Value{}}
		return PtrV{Obj: o, Nil: False()}
	}
}

func init() {
	// strconv.ParseInt(s, base, bitSize): for base 10 and bitSize 64 it is strconv.Atoi's contract;
	// for any other base (incl. 0, where a leading 0 selects octal) the result is unspecified.
	extModels["strconv.ParseInt"] = func(x *Exec, fr *Frame, args []Value, pos token.Pos) Value {
		base, bits := term(args[1]), term(args[2])
		if base.IsConst() && base.U64() == 10 && bits.IsConst() && (bits.U64() == 64 || bits.U64() == 0) {
			return extModels["strconv.Atoi"](x, fr, args[:1], pos)
		}
		x.notes["strconv.ParseInt with a base other than 10: result unspecified"] = true
		return TupleV{E: []Value{Scalar{Fresh("parseint!val", BV(64))}, x.errValue(Fresh("parseint!errnil", BoolSort))}}
	}
	// os.ReadFile: some octets, or an error
	extModels["os.ReadFile"] = func(x *Exec, fr *Frame, args []Value, pos token.Pos) Value {
		n := len(x.inputs)
		data := x.freshSymSlice("file", 8, types.Typ[types.Uint8])
		x.inputs = x.inputs[:n]
		return TupleV{E: []Value{data, x.errValue(Fresh("readfile!errnil", BoolSort))}}
	}
	// yaml.Unmarshal(in, out): *out becomes some value determined by the library (arbitrary here) and is
	// recorded in the ghost log "yaml.out" so that callers can be held to passing it on unchanged.
	extModels["gopkg.in/yaml.v2.Unmarshal"] = func(x *Exec, fr *Frame, args []Value, pos token.Pos) Value {
		out, ok := args[1].(IfaceV)
		if !ok || out.V == nil {
			unsup("yaml.Unmarshal target")
		}
		pv, ok := out.V.(PtrV)
		if !ok || pv.Obj == nil {
			unsup("yaml.Unmarshal target is not a pointer")
		}
		t := typeAtPath(pv.Obj.Typ, pv.Path)
		n := len(x.inputs)
		v := x.freshValue("yaml", t, 2)
		x.inputs = x.inputs[:n]
		x.store(pv, v, True())
		if x.st.ghost == nil {
			x.st.ghost = map[string][]Value{}
		}
		x.st.ghost["yaml.out"] = []Value{v}
		return x.errValue(Fresh("yaml!errnil", BoolSort))
	}
}
