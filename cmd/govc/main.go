package main

import (
	"go/constant"
	"go/types"
	"encoding/json"
	"go/token"
	"flag"
	"fmt"
	"os"
	"path/filepath"
	"runtime/debug"
	"runtime/pprof"
	"sort"
	"strings"
	"sync"
	"time"

	"golang.org/x/tools/go/ssa"
)

type PropConfig struct {
	Patterns []string `json:"patterns"`
	Title    string   `json:"title"`
	Assumes  []string `json:"assumptions"`
	Notes    string   `json:"notes"`
	Structural []string `json:"structural"`
	MathLemmas []string `json:"math_lemmas"`
	EntryPoints []string `json:"entry_points"`
	// Composes: the property is a composition; its check also runs every target of these properties
	Composes []string `json:"composes"`
	// NasgenSkip: message structs the lemma generator is known not to cover (anything else it skips is reported)
	NasgenSkip []string `json:"nasgen_skip"`
}

type Target struct {
	Name  string // display name
	Spec  *FuncSpec
	Lemma *LemmaInfo
	SplitVal *int64
}

type TargetResult struct {
	Opaque  map[string]bool
	Target  string
	Obls    []*Obligation
	Err     string // out-of-subset / unbound
	Exec    *Exec
	Secs    float64
	Inlined []string
	Used    []string
	Assumed []string
	Notes   []string
}

func main() {
	if len(os.Args) < 2 {
		fmt.Fprintln(os.Stderr, "usage: govc check|replay ...")
		os.Exit(2)
	}
	switch os.Args[1] {
	case "check":
		rc := cmdCheck(os.Args[2:])
		os.Exit(rc)
	default:
		fmt.Fprintln(os.Stderr, "unknown command")
		os.Exit(2)
	}
}

func cmdCheck(args []string) int {
	if pf := os.Getenv("GOVC_PROF"); pf != "" {
		f, _ := os.Create(pf)
		pprof.StartCPUProfile(f)
		defer pprof.StopCPUProfile()
	}
	fs := flag.NewFlagSet("check", flag.ExitOnError)
	repo := fs.String("repo", "/repo", "repository working tree")
	verif := fs.String("verif", "/verif", "verification directory")
	prop := fs.String("prop", "", "property id")
	tier := fs.String("tier", "quick", "quick|thorough")
	only := fs.String("only", "", "run only targets whose name contains this")
	keep := fs.Bool("keep", false, "keep scratch directory")
	update := fs.Bool("update-expected", false, "rewrite expected/<id>.txt from this run")
	verbose := fs.Bool("v", false, "verbose")
	noEvidence := fs.Bool("no-evidence", false, "do not write evidence (selftest runs)")
	replayDirFlag := fs.String("replay-dir", "", "directory for replay files (default <verif>/replays)")
	fs.Parse(args)
	t0 := time.Now()
	seed := 0
	if s := os.Getenv("VERIF_SEED"); s != "" {
		fmt.Sscan(s, &seed)
	}
	var pcs map[string]*PropConfig
	data, err := os.ReadFile(filepath.Join(*verif, "props.json"))
	if err != nil {
		fmt.Fprintln(os.Stderr, "govc:", err)
		return 2
	}
	if err := json.Unmarshal(data, &pcs); err != nil {
		fmt.Fprintln(os.Stderr, "govc: props.json:", err)
		return 2
	}
	pc := pcs[*prop]
	if pc == nil {
		fmt.Fprintf(os.Stderr, "govc: unknown property %q\n", *prop)
		return 2
	}
	// a composed property also runs the targets of the properties it is made of
	propSet := []string{*prop}
	for _, c := range pc.Composes {
		cp := pcs[c]
		if cp == nil {
			fmt.Fprintf(os.Stderr, "govc: props.json: %s composes unknown %q\n", *prop, c)
			return 2
		}
		propSet = append(propSet, c)
		merged := *pc
		for _, pat := range cp.Patterns {
			if !contains(merged.Patterns, pat) {
				merged.Patterns = append(append([]string{}, merged.Patterns...), pat)
			}
		}
		for _, ml := range cp.MathLemmas {
			if !contains(merged.MathLemmas, ml) {
				merged.MathLemmas = append(append([]string{}, merged.MathLemmas...), ml)
			}
		}
		pc = &merged
	}
	scratch := os.Getenv("VERIF_SCRATCH")
	if scratch == "" {
		scratch = fmt.Sprintf("/var/tmp/govc.%d", os.Getpid())
	}
	os.MkdirAll(scratch, 0o755)
	if !*keep {
		defer os.RemoveAll(scratch)
	}
	p, err := loadProgram(LoadConfig{Repo: *repo, Verif: *verif, Scratch: scratch, Patterns: pc.Patterns})
	if err != nil {
		// Type errors that lie ONLY in the generated ghost files / overlaid lemma files mean that the tree
		// itself compiles but the contracts no longer fit it (a field or parameter changed its type, a
		// function its signature): the contracts are unbound — a violation report, not an infrastructure
		// failure.  Anything else (the tree does not type-check) stays exit 2.
		msg := err.Error()
		if strings.Contains(msg, "type errors in snapshot") {
			onlyGhost, n := true, 0
			for _, l := range strings.Split(msg, "\n") {
				l = strings.TrimSpace(l)
				if l == "" || strings.HasPrefix(l, "type errors in snapshot") {
					continue
				}
				n++
				if !strings.Contains(l, "zz_verif_") {
					onlyGhost = false
				}
			}
			if onlyGhost && n > 0 {
				dir := filepath.Join(*verif, "replays")
				if *replayDirFlag != "" {
					dir = *replayDirFlag
				}
				os.MkdirAll(dir, 0o755)
				name := *prop + "#X:contracts-unbound"
				rp := filepath.Join(dir, *prop+"_Xcontractsunbound.json")
				js, _ := json.MarshalIndent(map[string]interface{}{"property": *prop, "obligation": name, "confirmed": false,
					"message": "the tree compiles, but the contracts and lemmas of this property no longer type-check against it: every obligation is unbound", "solver_output": msg}, "", " ")
				os.WriteFile(rp, js, 0o644)
				fmt.Printf("FAILED-OBLIGATION: %s\n", name)
				fmt.Printf("VIOLATION property=%s replay=%s no-failing-input-found\n", *prop, rp)
				return 1
			}
		}
		fmt.Fprintln(os.Stderr, "govc: load failed (infrastructure, not a verdict):", err)
		return 2
	}
	tLoad := time.Since(t0).Seconds()
	timeout := 40
	if *tier == "thorough" {
		timeout = 120
		targetBudgetSecs = 900
	}
	// targets
	var targets []Target
	for _, sp := range p.specList {
		if sp.SSAName == "" || !containsAny(sp.Props, propSet) || sp.Trusted {
			continue
		}
		targets = append(targets, Target{Name: sp.Key(), Spec: sp})
	}
	for k, l := range p.lemmas {
		if containsAny(l.Props, propSet) && l.Fn != nil && (l.Tier != "thorough" || *tier == "thorough") {
			targets = append(targets, Target{Name: k, Lemma: l})
		}
	}
	sort.Slice(targets, func(i, j int) bool { return targets[i].Name < targets[j].Name })
	if *only != "" {
		var tt []Target
		for _, t := range targets {
			if strings.HasPrefix(*only, "=") && t.Name == (*only)[1:] || !strings.HasPrefix(*only, "=") && strings.Contains(t.Name, *only) {
				tt = append(tt, t)
			}
		}
		targets = tt
	}
	smtDir := filepath.Join(scratch, "smt")
	os.MkdirAll(smtDir, 0o755)
	var results []*TargetResult
	// a split clause multiplies a target: one run per value of the named parameter
	{
		var tt []Target
		for _, t := range targets {
			if t.Spec != nil && t.Spec.SplitParam != "" {
				for v := t.Spec.SplitLo; v <= t.Spec.SplitHi; v++ {
					t2 := t
					vv := v
					t2.SplitVal = &vv
					tt = append(tt, t2)
				}
			} else if t.Lemma != nil && t.Lemma.SplitParam != "" {
				for v := t.Lemma.SplitLo; v <= t.Lemma.SplitHi; v++ {
					t2 := t
					vv := v
					t2.SplitVal = &vv
					tt = append(tt, t2)
				}
			} else {
				tt = append(tt, t)
			}
		}
		targets = tt
	}
	for _, t := range targets {
		r := runTarget(p, t, 0)
		if t.Spec != nil && r.Err == "" && r.Exec.numReturns > 1 && r.Exec.numReturns <= 64 {
			// postconditions and frame are checked per return path; everything else on the merged run
			var keep []*Obligation
			for _, o := range r.Obls {
				if o.Class != "Q" && o.Class != "A" {
					keep = append(keep, o)
				}
			}
			r.Obls = keep
			results = append(results, r)
			for k := 1; k <= r.Exec.numReturns; k++ {
				rk := runTarget(p, t, k)
				var qs []*Obligation
				for _, o := range rk.Obls {
					if o.Class == "Q" || o.Class == "A" {
						qs = append(qs, o)
					}
				}
				rk.Obls = qs
				results = append(results, rk)
			}
			if *verbose {
				fmt.Fprintf(os.Stderr, "target %s: %d return paths\n", t.Name, r.Exec.numReturns)
			}
			continue
		}
		results = append(results, r)
		if *verbose {
			fmt.Fprintf(os.Stderr, "target %s: %d obligations (%.2fs) %s\n", t.Name, len(r.Obls), r.Secs, r.Err)
		}
	}
	if contains(pc.Patterns, "free5gclib/nas/nasMessage") && *only == "" && *prop == "C08" {
		// coverage of the generated lemmas: every message struct is either covered or on the recorded list
		var ko []*Obligation
		seen := map[string]bool{}
		for _, n := range p.genNotes {
			name, why, _ := strings.Cut(n, ": ")
			seen[name] = true
			ko = append(ko, kObl("nasgen", "covered."+name, contains(pc.NasgenSkip, name), "the lemma generator does not cover message "+name+": "+why))
			if contains(pc.NasgenSkip, name) {
				boundedNotesExtra = append(boundedNotesExtra, "message "+name+" is not covered by the generated round-trip lemmas: "+why)
			}
		}
		for _, n := range pc.NasgenSkip {
			if !seen[n] {
				ko = append(ko, kObl("nasgen", "covered."+n, true, ""))
			}
		}
		results = append(results, &TargetResult{Target: "nasgen-coverage", Obls: ko, Exec: NewExec(p)})
	}
	if contains(pc.Patterns, "free5gclib/nas/nasMessage") && *only == "" && *prop == "C09" {
		// declarations against the tables, without solver
		var ko []*Obligation
		for _, f := range nasLayoutFindings {
			name, what, _ := strings.Cut(f, ": ")
			ko = append(ko, kObl("ts24501."+name, "table:"+sanitize(what), false, f))
		}
		ko = append(ko, kObl("ts24501", "messages-with-table", nasLayoutCovered > 0, fmt.Sprintf("%d messages compared with their table", nasLayoutCovered)))
		ko = append(ko, msgTypeObligations(p)...)
		results = append(results, &TargetResult{Target: "ts24501-tables", Obls: ko, Exec: NewExec(p)})
	}
	if len(pc.Structural) > 0 && *only == "" {
		results = append(results, &TargetResult{Target: "structural:" + strings.Join(pc.Structural, ","), Obls: structuralObligations(p, *verif, pc.Structural, pc.EntryPoints), Exec: NewExec(p)})
	}
	// arithmetic lemmas over the mathematical integers (hand-written SMT-LIB, negated claim, expected unsat)
	if len(pc.MathLemmas) > 0 && *only == "" {
		tr := &TargetResult{Target: "math-lemmas", Exec: NewExec(p)}
		for _, f := range pc.MathLemmas {
			name := "math." + strings.TrimSuffix(filepath.Base(f), ".smt2") + "#M:integers"
			o := &Obligation{Name: name, Class: "M", Func: "math", Label: "integers", PC: True(), Goal: False(), Pos: f}
			data, err := os.ReadFile(filepath.Join(*verif, f))
			if err != nil {
				o.Status = "failed"
				o.Result = &SolveResult{Verdict: "error", Output: err.Error()}
				o.Vacuous = true
			} else {
				o.RawScript = string(data)
			}
			tr.Obls = append(tr.Obls, o)
		}
		results = append(results, tr)
	}
	// bounded stand-ins (native, labelled bounded)
	var boundedNotes []string
	if *only == "" {
		if bf := findBoundedAll(p, propSet); len(bf) > 0 {
			tr := &TargetResult{Target: "bounded-stand-ins", Exec: NewExec(p), Obls: runBounded(p, bf, *tier, seed)}
			for _, f := range bf {
				boundedNotes = append(boundedNotes, f.Pkg+"."+f.Name+": "+f.Bound)
			}
			results = append(results, tr)
		}
	}
	boundedList = boundedNotes
	// discharge
	var wg sync.WaitGroup
	var solverSecs float64
	var mu sync.Mutex
	preScripts := map[string]string{} // scripts of the V:pre guards (for a longer second try)
	timeouts := map[int]int{}         // per target: obligations that ran into the solver cap
	oblSem := make(chan struct{}, 6)  // obligations in flight (each races several solver processes)
	nq := 0
	for ti, r := range results {
		for oi, o := range r.Obls {
			if o.Vacuous || (o.Class == "K" && o.Status == "failed") {
				o.Status = "failed"
				continue
			}
			if o.Trivial {
				o.Status = "proved"
				continue
			}
			nq++
			if o.RawScript != "" {
				wg.Add(1)
				go func(ti, oi int, o *Obligation) {
					defer wg.Done()
					res := Solve2(o.RawScript, "", smtDir, fmt.Sprintf("t%d_o%d", ti, oi), timeout)
					mu.Lock()
					solverSecs += res.Secs
					mu.Unlock()
					o.Result = &res
					if res.Verdict == "unsat" {
						o.Status = "proved"
					} else {
						o.Status = "unknown"
					}
				}(ti, oi, o)
				continue
			}
			hyps := relevantHyps(r.Exec.assumes[:o.NHyp], o.PC)
			asserts := append(hyps, o.PC, Not(o.Goal))
			var gv []*Term
			for _, in := range o.Inputs {
				if in.T != nil {
					gv = append(gv, in.T)
				} else if in.Len != nil {
					gv = append(gv, in.Len)
				}
			}
			script := "; " + o.Name + "\n" + Script(asserts, gv, r.Opaque)
			weak := "; " + o.Name + " (recursive functions unfolded)\n" + ScriptOpt(asserts, gv, r.Opaque, true)
			if !strings.Contains(script, "define-fun-rec") {
				weak = ""
			}
			if len(script) > 8<<20 {
				o.Status = "unknown"
				o.Result = &SolveResult{Verdict: "unknown", Output: "VC larger than 8 MB"}
				continue
			}
			if o.Class == "V" && strings.HasPrefix(o.Label, "pre:") {
				mu.Lock()
				preScripts[o.Name] = script
				mu.Unlock()
			}
			wg.Add(1)
			go func(ti, oi int, o *Obligation, script, weak string) {
				defer wg.Done()
				oblSem <- struct{}{}
				defer func() { <-oblSem }()
				// quick tier: a target four of whose obligations already ran into the solver cap is not
				// going to be decided; the rest of its obligations are reported undecided instead of
				// each waiting for the cap (a changed function otherwise takes a quarter of an hour)
				if *tier == "quick" && o.Class != "V" {
					mu.Lock()
					exhausted := timeouts[ti] >= 4
					mu.Unlock()
					if exhausted {
						o.Status = "unknown"
						o.Result = &SolveResult{Verdict: "unknown", Output: "not attempted: four obligations of this target already ran into the solver cap"}
						return
					}
				}
				to := timeout
				if o.Class == "V" {
					to, weak = 3, "" // reachability: only a refutation matters, and it is immediate when there is one
					if strings.HasPrefix(o.Label, "pre:") || strings.HasPrefix(o.Label, "after:") {
						to = 3
					}
				}
				res := Solve2(script, weak, smtDir, fmt.Sprintf("t%d_o%d", ti, oi), to)
				mu.Lock()
				solverSecs += res.Secs
				if o.Class != "V" && res.Verdict != "unsat" && res.Verdict != "sat" && res.Secs >= float64(to)-1 {
					timeouts[ti]++
				}
				mu.Unlock()
				o.Result = &res
				switch res.Verdict {
				case "unsat":
					o.Status = "proved"
				case "sat":
					o.Status = "failed"
				default:
					o.Status = "unknown"
				}
				if o.Class == "V" {
					// reachability: a model (or no refutation) is the good outcome, a refutation means vacuity
					if res.Verdict == "unsat" {
						o.Status = "failed"
					} else {
						o.Status = "proved"
					}
				}
			}(ti, oi, o, script, weak)
		}
	}
	wg.Wait()
	// call-site vacuity guards come in pairs: a call on a path that is infeasible already before the call
	// says nothing about the callee's contract
	for _, r := range results {
		byName := map[string]*Obligation{}
		for _, o := range r.Obls {
			byName[o.Name] = o
		}
		for _, o := range r.Obls {
			if o.Class != "V" || !strings.Contains(o.Name, "#V:pre:") {
				continue
			}
			after := byName[strings.Replace(o.Name, "#V:pre:", "#V:after:", 1)]
			if after != nil && after.Status == "failed" && o.Status != "failed" && (o.Result == nil || o.Result.Verdict != "sat") {
				// the path after the call is refuted but the one-second query about the path before it
				// did not finish: decide that one properly before blaming the callee's contract
				if sc, ok := preScripts[o.Name]; ok {
					res := Solve2(sc, "", smtDir, "vpre_retry", 60)
					solverSecs += res.Secs
					o.Result = &res
					switch res.Verdict {
					case "unsat":
						o.Status = "failed"
					case "sat":
					default:
						// still undecided: no verdict about the callee's contract can be drawn
						after.Status = "proved"
						if after.Result != nil {
							after.Result.Output = "feasibility of the path before the call undecided: " + after.Result.Output
						}
					}
				}
			}
			if o.Status == "failed" && after != nil {
				after.Status = "proved"
				if after.Result != nil {
					after.Result.Output = "path infeasible before the call: " + after.Result.Output
				}
			}
			o.Status = "proved"
		}
	}
	replayDirOverride = *replayDirFlag
	return report(p, *verif, *prop, *tier, seed, pc, results, t0, tLoad, solverSecs, nq, *update, *verbose, scratch, *noEvidence)
}

// relevantHyps drops the assumptions guarded by a path condition that contradicts pc on a
// literal (facts about other paths): dropping hypotheses is always sound.
func relevantHyps(assumes []*Term, pc *Term) []*Term {
	lits := map[int]bool{}
	for _, c := range conj(pc) {
		lits[c.id] = true
	}
	out := make([]*Term, 0, len(assumes))
	for _, h := range assumes {
		if h.Op == OImp {
			skip := false
			for _, g := range conj(h.Args[0]) {
				if lits[Not(g).id] {
					skip = true
					break
				}
			}
			if skip {
				continue
			}
		}
		out = append(out, h)
	}
	return out
}

func contains(xs []string, s string) bool {
	for _, x := range xs {
		if x == s {
			return true
		}
	}
	return false
}

func runTarget(p *Loaded, t Target, selRet int) (res *TargetResult) {
	t0 := time.Now()
	noLinear = !(t.Lemma != nil && t.Lemma.Linear)
	defer func() { noLinear = true }()
	x := NewExec(p)
	x.selectReturn = selRet
	x.deadline = t0.Add(time.Duration(targetBudgetSecs) * time.Second)
	res = &TargetResult{Target: t.Name, Exec: x}
	defer func() {
		res.Secs = time.Since(t0).Seconds()
		res.Obls = x.obls
		for k, v := range x.inlined {
			if v {
				res.Inlined = append(res.Inlined, k)
			}
		}
		for k := range x.usedSpecs {
			res.Used = append(res.Used, k)
		}
		for k := range x.assumedCtr {
			res.Assumed = append(res.Assumed, k)
		}
		for k := range x.notes {
			res.Notes = append(res.Notes, k)
		}
		sort.Strings(res.Inlined)
		sort.Strings(res.Used)
		sort.Strings(res.Assumed)
		sort.Strings(res.Notes)
		if r := recover(); r != nil {
			if u, ok := r.(Unsupported); ok {
				res.Err = "out of subset: " + u.Msg + " (in " + x.funcName() + ")"
				if os.Getenv("GOVC_TRACE") != "" {
					res.Err += "\n" + string(debug.Stack())
				}
				return
			}
			res.Err = fmt.Sprintf("engine panic: %v\n%s", r, debug.Stack())
		}
	}()
	x.st = &State{pc: True(), heap: &Heap{m: map[*Object]Value{}}, regs: map[ssa.Value]Value{}, iters: map[*ssa.BasicBlock]int{}, inLoop: map[*ssa.BasicBlock]*loopCut{}}
	var h *ssa.Function
	if t.Spec != nil {
		h = p.harnessOf[t.Spec.Key()]
		if h == nil {
			res.Err = "contract unbound: no harness generated for " + t.Spec.Name
			return
		}
		for _, n := range t.Spec.MayNil {
			x.mayNil[n] = true
		}
		for k, v := range t.Spec.Shape {
			x.shapeLen[strings.TrimLeft(k, "*")] = v
		}
		x.harness = t.Spec.SSAName
		x.behavior, x.behaviorFn, x.noSafety = t.Spec.Behavior, t.Spec.SSAName, t.Spec.NoSafety
		x.driver, x.assumePre, x.exitNonZero = t.Spec.Driver, t.Spec.AssumePre, t.Spec.ExitNonZero
		res.Opaque = map[string]bool{}
		for _, n := range t.Spec.OpaqueFns {
			res.Opaque["f!"+n] = true
		}
		var target *ssa.Function
		for fn := range p.allFuncs {
			if fnName(fn) == t.Spec.SSAName {
				target = fn
			}
		}
		x.probeOpaque = res.Opaque
		x.forceInline = map[string]bool{}
		for _, n := range t.Spec.Inlines {
			x.forceInline[n] = true
		}
		x.specOverride = map[*ssa.Function]*FuncSpec{target: t.Spec}
		x.calleeMode = append(x.calleeMode, &calleeCtx{fn: target, prove: true})
	} else {
		h = t.Lemma.Fn
		x.harness = t.Name
		res.Opaque = map[string]bool{}
		for _, n := range t.Lemma.OpaqueFns {
			res.Opaque["f!"+n] = true
		}
		for _, n := range t.Lemma.MayNil {
			x.mayNil[n] = true
		}
		x.forceInline = map[string]bool{}
		for _, n := range t.Lemma.Inlines {
			x.forceInline[n] = true
		}
		for k, v := range t.Lemma.Shape {
			x.shapeLen[strings.TrimLeft(k, "*")] = v
		}
		if t.Lemma.Driver {
			x.driver, x.assumePre, x.noSafety = true, true, true
		}
	}
	args := make([]Value, len(h.Params))
	for i, prm := range h.Params {
		if t.SplitVal != nil && (t.Spec != nil && prm.Name() == t.Spec.SplitParam || t.Lemma != nil && prm.Name() == t.Lemma.SplitParam) {
			if srt, ok := scalarSort(prm.Type()); ok && srt.K == SBV {
				args[i] = Scalar{BVI(*t.SplitVal, srt.W)}
				continue
			}
		}
		args[i] = x.freshValue(prm.Name(), prm.Type(), 3)
	}
	x.callFunction(h, args, nil, true)
	if t.Spec != nil {
		cm := x.calleeMode[0]
		if !cm.done && x.st != nil {
			res.Err = "contract harness did not reach the call"
		}
	}
	if x.driver && t.Spec != nil && selRet == 0 && x.st != nil && res.Err == "" {
		// normal return of the procedure: no fault may have happened on the way
		x.failStop("return-after-fault", token.NoPos)
		x.curFunc = append(x.curFunc, t.Name)
		x.oblige("F", "sends-something", BoolC(x.sends > 0), token.NoPos)
		x.curFunc = x.curFunc[:len(x.curFunc)-1]
	}
	// vacuity guard for loops: a loop cut by invariants whose back edge no path reaches proves nothing about its body
	if res.Err == "" && selRet == 0 {
		var ks []string
		for k := range x.loopSeen {
			if !x.loopBack[k] {
				ks = append(ks, k)
			}
		}
		sort.Strings(ks)
		for _, k := range ks {
			fn, key, _ := strings.Cut(k, " loop ")
			x.obls = append(x.obls, &Obligation{Name: fn + "#V:body:" + key, Class: "V", Func: fn, Label: "body:" + key, PC: True(), Goal: False(), NHyp: 0, Vacuous: true})
		}
	}
	// vacuity guard for call clauses: a clause about the calls of a callee that no path reaches
	// (callee renamed, call removed, clause misspelt) asserts nothing
	if res.Err == "" && selRet == 0 && t.Spec != nil {
		var ks []string
		for callee, cls := range t.Spec.Calls {
			for _, c := range cls {
				if !x.callSeen[callee+"."+c.Label] {
					ks = append(ks, callee+"."+c.Label)
				}
			}
		}
		sort.Strings(ks)
		for _, k := range ks {
			x.obls = append(x.obls, &Obligation{Name: t.Name + "#V:call-reached:" + k, Class: "V", Func: t.Name, Label: "call-reached:" + k, PC: True(), Goal: False(), NHyp: 0, Vacuous: true})
		}
	}
	// vacuity guard: the end of the harness must be reachable under all assumptions made on the
	// way (requires, callee postconditions, invariants).  "false" must NOT be provable there.
	if selRet == 0 && x.st != nil && res.Err == "" {
		x.curFunc = append(x.curFunc, t.Name)
		saved := x.behavior
		x.behavior = ""
		x.oblige("V", "reachable", False(), token.NoPos)
		x.behavior = saved
		x.curFunc = x.curFunc[:len(x.curFunc)-1]
	} else if selRet == 0 && x.st == nil && res.Err == "" && x.driver && x.cleanExit != nil {
		// a program that ends in os.Exit(0): that exit must be reachable under all assumptions
		x.st = &State{pc: x.cleanExit, heap: &Heap{m: map[*Object]Value{}}}
		x.curFunc = append(x.curFunc, t.Name)
		saved := x.behavior
		x.behavior = ""
		x.oblige("V", "reachable", False(), token.NoPos)
		x.behavior = saved
		x.curFunc = x.curFunc[:len(x.curFunc)-1]
	} else if selRet == 0 && x.st == nil && res.Err == "" {
		// no path reaches the end of the harness at all
		x.st = &State{pc: False(), heap: &Heap{m: map[*Object]Value{}}}
		x.obls = append(x.obls, &Obligation{Name: t.Name + "#V:reachable", Class: "V", Func: t.Name, Label: "reachable", PC: True(), Goal: False(), NHyp: 0, Vacuous: true})
	}
	return
}

// ---------------- reporting ----------------

var replayDirOverride string
// targetBudgetSecs bounds the symbolic execution of one target (the solver has its own time-outs):
// a target that does not finish is reported out of subset, not waited for.
var targetBudgetSecs = 45

var boundedList []string
var boundedNotesExtra []string

type knownFinding struct {
	Prop, Obl, What string
	Fixed           bool
}

func readKnown(verif string) []knownFinding {
	var out []knownFinding
	data, err := os.ReadFile(filepath.Join(verif, "known_findings.txt"))
	if err != nil {
		return nil
	}
	for _, line := range strings.Split(string(data), "\n") {
		line = strings.TrimSpace(line)
		if line == "" || strings.HasPrefix(line, "#") {
			continue
		}
		kf := knownFinding{}
		if strings.HasPrefix(line, "fixed:") {
			kf.Fixed = true
			line = strings.TrimSpace(strings.TrimPrefix(line, "fixed:"))
		} else if strings.HasPrefix(line, "finding:") {
			line = strings.TrimSpace(strings.TrimPrefix(line, "finding:"))
		} else {
			continue
		}
		// property=<id> obligation=<name> <what>
		fs := strings.Fields(line)
		var rest []string
		for _, f := range fs {
			switch {
			case strings.HasPrefix(f, "property="):
				kf.Prop = strings.TrimPrefix(f, "property=")
			case strings.HasPrefix(f, "obligation="):
				kf.Obl = strings.TrimPrefix(f, "obligation=")
			default:
				rest = append(rest, f)
			}
		}
		kf.What = strings.Join(rest, " ")
		out = append(out, kf)
	}
	return out
}

func report(p *Loaded, verif, prop, tier string, seed int, pc *PropConfig, results []*TargetResult, t0 time.Time,
	tLoad, solverSecs float64, nq int, update, verbose bool, scratch string, noEvidence bool) int {
	known := readKnown(verif)
	isKnown := func(name string) *knownFinding {
		for i := range known {
			if !known[i].Fixed && known[i].Prop == prop && known[i].Obl == name {
				return &known[i]
			}
		}
		return nil
	}
	type oblRec struct {
		Name   string  `json:"name"`
		Class  string  `json:"class"`
		Status string  `json:"status"`
		By     string  `json:"by"`
		Secs   float64 `json:"secs"`
	}
	var recs []oblRec
	total, discharged := 0, 0
	byName := map[string][]*Obligation{}
	var failures []string
	var violLines []string
	var knownLines []string
	var fuc []string
	assumed := map[string]bool{}
	inlined := map[string]bool{}
	usedC := map[string]bool{}
	notes := map[string]bool{}
	replayDir := filepath.Join(verif, "replays")
	if replayDirOverride != "" {
		replayDir = replayDirOverride
	}
	replays := 0
	noReplay := os.Getenv("GOVC_NO_REPLAY") != ""
	for _, r := range results {
		fuc = append(fuc, r.Target)
		for _, a := range r.Assumed {
			assumed[a] = true
		}
		for _, a := range r.Inlined {
			inlined[a] = true
		}
		for _, a := range r.Used {
			usedC[a] = true
		}
		for _, a := range r.Notes {
			notes[a] = true
		}
		if r.Err != "" {
			name := r.Target + "#X:engine"
			failures = append(failures, name)
			if kf := isKnown(name); kf != nil {
				knownLines = append(knownLines, fmt.Sprintf("KNOWN-FINDING: property=%s %s (%s)", prop, name, kf.What))
			} else {
				rp := writeReplay(replayDir, prop, name, nil, r, r.Err)
				violLines = append(violLines, fmt.Sprintf("VIOLATION property=%s replay=%s no-failing-input-found", prop, rp))
			}
		}
		for _, o := range r.Obls {
			byName[o.Name] = append(byName[o.Name], o)
		}
	}
	var names []string
	for n := range byName {
		names = append(names, n)
	}
	sort.Strings(names)
	boundedOK, boundedTotal := 0, 0
	for _, n := range names {
		os2 := byName[n]
		if os2[0].Class == "B" {
			// bounded stand-ins are reported apart and never counted among the proof obligations
			boundedTotal++
			if os2[0].Status == "proved" {
				boundedOK++
				recs = append(recs, oblRec{Name: n, Class: "B", Status: "bounded-ok", By: os2[0].Result.Solver})
				continue
			}
		} else {
			total++
		}
		st := "proved"
		by := "simplifier"
		secs := 0.0
		var bad *Obligation
		for _, o := range os2 {
			if o.Result != nil {
				secs += o.Result.Secs
				if o.Status == "proved" {
					by = o.Result.Solver
				}
			}
			if o.Status != "proved" {
				st = o.Status
				if bad == nil || (o.Status == "failed" && bad.Status != "failed") {
					bad = o
				}
			}
		}
		if st == "proved" {
			if os2[0].Class != "B" {
				discharged++
			}
		} else {
			failures = append(failures, n)
			if kf := isKnown(n); kf != nil {
				knownLines = append(knownLines, fmt.Sprintf("KNOWN-FINDING: property=%s %s (%s)", prop, n, kf.What))
				if os2[0].Class != "B" {
					total-- // a recorded finding is reported apart; the remaining obligations must all be discharged
				}
			} else {
				var owner *TargetResult
				for _, r := range results {
					for _, o := range r.Obls {
						if o == bad {
							owner = r
						}
					}
				}
				var rdetail map[string]interface{}
				rconf := false
				rraw := ""
				if owner != nil && !noReplay && replays < 4 {
					if h := harnessFn(p, owner); h != nil {
						replays++
						rconf, rdetail, rraw = replayObligation(p, bad, owner, h, filepath.Join(scratch, "smt"), scratch, seed)
					}
				}
				if bad != nil && bad.Class == "B" && bad.Result != nil && bad.Result.Verdict == "bounded-fail" {
					// the bounded stand-in ran the real code natively: its failing input is the witness
					rconf = true
					rdetail = map[string]interface{}{"kind": "fail", "detail": bad.Result.Output, "origin": "native bounded run of the real functions"}
				}
				rp := writeReplayFull(replayDir, prop, n, bad, owner, "", rconf, rdetail, rraw)
				suffix := ""
				if !rconf {
					suffix = " no-failing-input-found"
				}
				violLines = append(violLines, fmt.Sprintf("VIOLATION property=%s replay=%s%s", prop, rp, suffix))
			}
		}
		recs = append(recs, oblRec{Name: n, Class: os2[0].Class, Status: st, By: by, Secs: secs})
	}
	// expected baseline
	expFile := filepath.Join(verif, "expected", prop+".txt")
	if update {
		os.MkdirAll(filepath.Dir(expFile), 0o755)
		var keep []string
		for _, n := range names {
			keep = append(keep, n)
		}
		os.WriteFile(expFile, []byte(strings.Join(keep, "\n")+"\n"), 0o644)
	}
	missing := 0
	var notGenerated []string
	if data, err := os.ReadFile(expFile); err == nil {
		for _, line := range strings.Split(string(data), "\n") {
			line = strings.TrimSpace(line)
			if line == "" || strings.HasPrefix(line, "#") {
				continue
			}
			if _, ok := byName[line]; !ok {
				// a safety / range / unwinding / call-site-precondition obligation that is no longer
				// generated means the operation is gone from the code: nothing is lost (the
				// postconditions that depended on a removed call fail on their own).
				if cl := oblClass(line); (cl == "S" || cl == "R" || cl == "U" || cl == "P") && !strings.Contains(line, "#P:call:") {
					notGenerated = append(notGenerated, line)
					continue
				}
				missing++
				name := line + " (baselined obligation no longer generated)"
				if kf := isKnown(line); kf != nil {
					knownLines = append(knownLines, fmt.Sprintf("KNOWN-FINDING: property=%s %s (%s)", prop, line, kf.What))
					continue
				}
				rp := writeReplay(replayDir, prop, line, nil, nil, name)
				violLines = append(violLines, fmt.Sprintf("VIOLATION property=%s replay=%s no-failing-input-found", prop, rp))
			}
		}
	} else if !update {
		rp := writeReplay(replayDir, prop, "baseline", nil, nil, "expected/"+prop+".txt missing")
		violLines = append(violLines, fmt.Sprintf("VIOLATION property=%s replay=%s no-failing-input-found", prop, rp))
	}
	if total == 0 {
		rp := writeReplay(replayDir, prop, "vacuity", nil, nil, "no obligations were generated")
		violLines = append(violLines, fmt.Sprintf("VIOLATION property=%s replay=%s no-failing-input-found", prop, rp))
	}
	for _, u := range p.unbound {
		fmt.Fprintln(os.Stderr, "govc: unbound contract:", u)
	}
	wall := time.Since(t0).Seconds()
	// evidence
	samples := []interface{}{}
	for i, r := range recs {
		if i < 12 {
			samples = append(samples, r)
		}
	}
	keys := func(m map[string]bool) []string {
		var out []string
		for k := range m {
			out = append(out, k)
		}
		sort.Strings(out)
		return out
	}
	trusted := []string{"govc symbolic executor and VC generator (/verif/cmd/govc)", "golang.org/x/tools v0.29.0 go/ssa construction",
		"z3 4.8.12, z3 5.1.0, cvc5 1.0 (first definite answer wins)", "spec functions under /verif/spec (oracle, hand-written from the standards)"}
	byClass := map[string]int{}
	for _, r := range recs {
		byClass[r.Class]++
	}
	ev := map[string]interface{}{
		"property_id": prop,
		"tier":        tier,
		"seed":        seed,
		"level":       "proof",
		"wall_s":      wall,
		"violations":  len(violLines),
		"coverage": map[string]interface{}{
			"obligations":                total,
			"discharged":                 discharged,
			"checker_cmd":                fmt.Sprintf("/verif/bin/govc check --prop %s --tier %s", prop, tier),
			"trusted_base":               trusted,
			"functions_under_contract":   fuc,
			"callee_contracts_used":      keys(usedC),
			"inlined_callees":            keys(inlined),
			"assumed_external_contracts": keys(assumed),
			"engine_notes":               keys(notes),
			"obligations_by_class":       byClass,
			"solver_queries":             nq,
			"solver_time_s":              solverSecs,
			"load_time_s":                tLoad,
			"obligation_list":            recs,
			"samples":                    samples,
			"failed_obligations":         failures,
			"known_findings_hit":         knownLines,
			"baseline_missing":           missing,
			"baseline_not_generated":     notGenerated,
			"bounded_stand_ins":          boundedList,
			"bounded_checks_run":         boundedTotal,
			"bounded_checks_ok":          boundedOK,
			"integer_semantics":          "bit-vectors of the Go width with wrap-around; arithmetic on Go int additionally carries R (no-wrap) obligations",
			"unbound_contracts":          p.unbound,
			"not_covered":                boundedNotesExtra,
			"generated_lemmas":           generatedNote(p),
		},
		"assumptions": append(append([]string{}, pc.Assumes...), keys(assumed)...),
	}
	if !noEvidence {
		os.MkdirAll(filepath.Join(verif, "evidence"), 0o755)
		data, _ := json.MarshalIndent(ev, "", " ")
		os.WriteFile(filepath.Join(verif, "evidence", prop+".json"), data, 0o644)
	}
	for _, l := range knownLines {
		fmt.Println(l)
	}
	for _, f := range failures {
		fmt.Println("FAILED-OBLIGATION:", f)
	}
	for _, l := range violLines {
		fmt.Println(l)
	}
	fmt.Printf("govc: property %s tier %s: %d obligations, %d discharged, %d solver queries, %.1fs wall (%.1fs load, %.1fs solver)\n",
		prop, tier, total, discharged, nq, wall, tLoad, solverSecs)
	if boundedTotal > 0 {
		fmt.Printf("govc: property %s: %d bounded stand-ins run natively, %d ok (labelled bounded, not counted as proved)\n", prop, boundedTotal, boundedOK)
	}
	if verbose {
		for _, r := range recs {
			fmt.Printf("  %-8s %-10s %6.2fs %s\n", r.Status, r.By, r.Secs, r.Name)
		}
	}
	if len(violLines) > 0 {
		return 1
	}
	return 0
}

// oblClass extracts the class letter(s) of an obligation name "<func>#<class>:<label>".
func oblClass(name string) string {
	i := strings.Index(name, "#")
	if i < 0 {
		return ""
	}
	rest := name[i+1:]
	if j := strings.Index(rest, ":"); j >= 0 {
		return rest[:j]
	}
	return rest
}

func replayConfirmed(path string) bool {
	data, err := os.ReadFile(path)
	if err != nil {
		return false
	}
	return strings.Contains(string(data), "\"confirmed\": true")
}

func writeReplay(dir, prop, name string, o *Obligation, r *TargetResult, msg string) string {
	os.MkdirAll(dir, 0o755)
	fn := filepath.Join(dir, fmt.Sprintf("%s_%s.json", prop, sanitize(name)))
	rec := map[string]interface{}{"property": prop, "obligation": name, "message": msg, "confirmed": false}
	if o != nil {
		rec["position"] = o.Pos
		rec["class"] = o.Class
		if o.Result != nil {
			rec["solver"] = o.Result.Solver
			rec["verdict"] = o.Result.Verdict
			rec["solver_output"] = trunc(o.Result.Output, 4000)
			if o.Result.Verdict == "sat" {
				model := map[string]string{}
				k := 0
				for _, in := range o.Inputs {
					if k >= len(o.Result.Raw) {
						break
					}
					model[in.Name] = o.Result.Raw[k]
					k++
				}
				rec["model"] = model
			}
		}
	}
	if r != nil {
		rec["target"] = r.Target
	}
	data, _ := json.MarshalIndent(rec, "", " ")
	os.WriteFile(fn, data, 0o644)
	return fn
}

func harnessFn(p *Loaded, r *TargetResult) *ssa.Function {
	if h, ok := p.harnessOf[r.Target]; ok {
		return h
	}
	if l, ok := p.lemmas[r.Target]; ok {
		return l.Fn
	}
	return nil
}

func writeReplayFull(dir, prop, name string, o *Obligation, r *TargetResult, msg string, confirmed bool, detail map[string]interface{}, raw string) string {
	fn := writeReplay(dir, prop, name, o, r, msg)
	data, err := os.ReadFile(fn)
	if err != nil {
		return fn
	}
	var rec map[string]interface{}
	json.Unmarshal(data, &rec)
	rec["confirmed"] = confirmed
	if detail != nil {
		rec["native_replay"] = detail
	}
	if raw != "" && !confirmed {
		rec["native_replay_output"] = raw
	}
	out, _ := json.MarshalIndent(rec, "", " ")
	os.WriteFile(fn, out, 0o644)
	return fn
}

func containsAny(have []string, want []string) bool {
	for _, w := range want {
		if contains(have, w) {
			return true
		}
	}
	return false
}

func findBoundedAll(p *Loaded, props []string) []boundedFn {
	var out []boundedFn
	seen := map[string]bool{}
	for _, pr := range props {
		for _, f := range findBounded(p, pr) {
			if !seen[f.Pkg+"."+f.Name] {
				seen[f.Pkg+"."+f.Name] = true
				out = append(out, f)
			}
		}
	}
	return out
}

func generatedNote(p *Loaded) string {
	n := 0
	for k := range p.lemmas {
		if strings.Contains(k, "vcLemma_rt_") {
			n++
		}
	}
	if n == 0 {
		return ""
	}
	return fmt.Sprintf("%d round-trip lemmas generated on this run from the type declarations of nasType / nasMessage of the tree under verification (cmd/govc/nasgen.go); accessor sweep: %d accessor pairs under a generated lemma (bit fields inside an octet, uint16 fields spanning octets, whole-octet arrays), %d accessors outside it (annotation not of these shapes, or no getter/setter pair)", n, nasAccCovered, nasAccSkipped)
}

// msgTypeObligations: the MsgType constants of package nas and the <Message><IE>Type constants of
// nasMessage carry the values of tables 9.7.1 / 9.7.2 and of the message tables.
func msgTypeObligations(p *Loaded) []*Obligation {
	tabs, err := parseTsTables()
	if err != nil {
		return []*Obligation{kObl("ts24501", "tables-parse", false, err.Error())}
	}
	constVal := func(pkgPath, name string) (int64, bool) {
		for _, pk := range p.Pkgs {
			if pk.PkgPath != pkgPath || pk.Types == nil {
				continue
			}
			if c, ok := pk.Types.Scope().Lookup(name).(*types.Const); ok {
				if v, ok := constant.Int64Val(constant.ToInt(c.Val())); ok {
					return v, true
				}
			}
		}
		return 0, false
	}
	var names []string
	for n := range tabs {
		names = append(names, n)
	}
	sort.Strings(names)
	var out []*Obligation
	for _, n := range names {
		tm := tabs[n]
		v, ok := constVal("free5gclib/nas", "MsgType"+n)
		out = append(out, kObl("ts24501."+n, "message-type", ok && v == int64(tm.MsgType), fmt.Sprintf("MsgType%s = %d, table 9.7 has %d", n, v, tm.MsgType)))
		for _, o := range tm.Opt {
			v, ok := constVal("free5gclib/nas/nasMessage", n+o.GoType+"Type")
			out = append(out, kObl("ts24501."+n, "iei."+o.GoType, ok && v == int64(o.IEI), fmt.Sprintf("%s%sType = %#x, the table of the message has IEI %X", n, o.GoType, v, o.IEI)))
		}
	}
	return out
}
