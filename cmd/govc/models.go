package main

// Intrinsics (vspec/vc) and assumed contracts of external functions.

import (
	"fmt"
	"go/token"
	"go/types"
	"strings"

	"golang.org/x/tools/go/ssa"
)

func (x *Exec) curCallee() *calleeCtx {
	if n := len(x.calleeMode); n > 0 {
		return x.calleeMode[n-1]
	}
	return nil
}

func strConst(v Value) (string, bool) {
	s, ok := v.(SliceV)
	if !ok || s.Obj == nil {
		return "", ok && isZero(s.Len)
	}
	return "", false
}

func (x *Exec) constStr(v Value) string {
	s, ok := v.(SliceV)
	if !ok {
		return "?"
	}
	n, ok := concreteLen(s)
	if !ok {
		return "?"
	}
	b := make([]byte, n)
	for i := 0; i < n; i++ {
		t := x.byteAt(s, bv64(int64(i)))
		if !t.IsConst() {
			return "?"
		}
		b[i] = byte(t.U64())
	}
	return string(b)
}

// intrinsic handles vc.* and modelled external functions. ok=false: not handled.
func (x *Exec) intrinsic(fr *Frame, fn *ssa.Function, name string, args []Value, pos token.Pos) (Value, bool) {
	if fn.Pkg != nil && fn.Pkg.Pkg.Path() == "vspec/vc" {
		return x.vcIntrinsic(fr, fn.Name(), args, pos), true
	}
	if m, ok := extModels[name]; ok {
		x.assumedCtr[name] = true
		return m(x, fr, args, pos), true
	}
	if name == "(*github.com/sirupsen/logrus.Logger).WithFields" || name == "(*github.com/sirupsen/logrus.Entry).WithFields" {
		x.assumedCtr["logrus.WithFields returns a non-nil entry"] = true
		o := x.newObject(nil, "logrus.Entry")
		x.st.heap.m[o] = StructV{F: []Value{}}
		return PtrV{Obj: o, Nil: False()}, true
	}
	// logging: no effect, but the receiver must not be nil
	if strings.HasPrefix(name, "(*github.com/sirupsen/logrus.Entry).") || strings.HasPrefix(name, "(*github.com/sirupsen/logrus.Logger).") {
		x.assumedCtr["logrus.* (no effect on verified state)"] = true
		if len(args) > 0 {
			if _, isU := args[0].(UnknownV); !isU {
				n := ptrNil(args[0])
				if !n.IsFalse() && !(fr != nil && fr.ghost) {
					x.oblige("S", "nil-logger", Not(n), pos)
				}
			}
		}
		return x.zeroResult(fn), true
	}
	switch {
	case strings.HasPrefix(name, "fmt.Print"), strings.HasPrefix(name, "log.Print"), name == "time.Sleep",
		strings.HasPrefix(name, "fmt.Fprint"):
		x.assumedCtr["fmt.Print*/log.Print*/time.Sleep (no effect on verified state)"] = true
		return x.zeroResult(fn), true
	case name == "fmt.Errorf", name == "errors.New":
		return IfaceV{Nil: False(), Tag: "error"}, true
	case name == "os.Exit", name == "github.com/calee0219/fatal.Fatalf", name == "log.Fatalf", name == "log.Fatal":
		x.assumedCtr["os.Exit/fatal.Fatalf (do not return)"] = true
		if name == "os.Exit" && x.exitNonZero && len(args) == 1 {
			// an error handler must end the process with a non-zero status
			saved := x.ghost
			x.ghost = 0
			x.curFunc = append(x.curFunc, x.harness)
			x.oblige("F", "exit-status", Not(Eq(term(args[0]), bv64(0))), pos)
			x.curFunc = x.curFunc[:len(x.curFunc)-1]
			x.ghost = saved
		}
		if name == "os.Exit" && x.driver && len(args) == 1 {
			// fail-stop means a non-zero exit status when a fault has happened
			saved := x.ghost
			x.ghost = 0
			x.curFunc = append(x.curFunc, x.harness)
			x.oblige("F", "exit-status", Imp(x.getFlag(faultFlag), Not(Eq(term(args[0]), bv64(0)))), pos)
			x.curFunc = x.curFunc[:len(x.curFunc)-1]
			x.ghost = saved
		}
		if x.io != nil {
			x.io.exits = append(x.io.exits, x.st.pc)
		}
		if name == "os.Exit" && x.driver && len(args) == 1 && x.ghost == 0 {
			if a := term(args[0]); a.IsConst() && a.Val.Sign() == 0 {
				// the regular end of a program that never returns (main): remembered for the vacuity guard
				if x.cleanExit == nil {
					x.cleanExit = x.st.pc
				} else {
					x.cleanExit = Or(x.cleanExit, x.st.pc)
				}
			}
		}
		x.st = nil
		return nil, true
	}
	return nil, false
}

func (x *Exec) zeroResult(fn *ssa.Function) Value {
	res := fn.Signature.Results()
	switch res.Len() {
	case 0:
		return nil
	case 1:
		return UnknownV{res.At(0).Type(), "result of effect-free external call"}
	}
	e := make([]Value, res.Len())
	for i := range e {
		e[i] = UnknownV{res.At(i).Type(), "result of effect-free external call"}
	}
	return TupleV{E: e}
}

func (x *Exec) vcIntrinsic(fr *Frame, name string, args []Value, pos token.Pos) Value {
	cm := x.curCallee()
	switch name {
	case "Requires":
		label := x.constStr(args[0])
		c := term(args[1])
		if cm != nil && cm.probe {
			cm.reqs = append(cm.reqs, c)
			return nil
		}
		if cm != nil && !cm.prove && x.assumePre {
			x.notes["callee preconditions assumed (driver-level target): "+shortFn(cm.fn)] = true
			x.assume(c)
			return nil
		}
		if cm != nil && !cm.prove {
			// at a call site: precondition must be proved by the caller
			saved := x.ghost
			x.ghost = 0
			x.curFunc = append(x.curFunc, cm.caller)
			x.oblige("P", shortFn(cm.fn)+"."+label, c, pos)
			x.curFunc = x.curFunc[:len(x.curFunc)-1]
			x.ghost = saved
		} else {
			x.assume(c)
		}
		return nil
	case "Assume":
		x.assume(term(args[0]))
		return nil
	case "Ensures":
		label := x.constStr(args[0])
		c := term(args[1])
		if cm != nil && !cm.prove {
			x.assume(c)
		} else {
			nm := x.harness
			if cm != nil {
				nm = fnName(cm.fn)
			}
			x.curFunc = append(x.curFunc, nm)
			x.oblige("Q", label, c, pos)
			x.curFunc = x.curFunc[:len(x.curFunc)-1]
		}
		return nil
	case "Assert":
		label := x.constStr(args[0])
		x.curFunc = append(x.curFunc, x.harness)
		x.oblige("L", label, term(args[1]), pos)
		x.curFunc = x.curFunc[:len(x.curFunc)-1]
		return nil
	case "Imp":
		return Scalar{Imp(term(args[0]), term(args[1]))}
	case "Forall", "Exists":
		lo, hi := term(args[0]), term(args[1])
		fv, ok := args[2].(FuncV)
		if !ok || fv.Fn == nil {
			unsup("vc.%s needs a function literal", name)
		}
		if lo.IsConst() && hi.IsConst() && lo.Val.IsInt64() && hi.Val.IsInt64() && hi.Val.Int64()-lo.Val.Int64() <= 64 {
			var cs []*Term
			for i := lo.Val.Int64(); i < hi.Val.Int64(); i++ {
				saved := x.st
				x.st = saved.fork(saved.pc)
				r := x.callFunction(fv.Fn, []Value{Scalar{bv64(i)}}, fv.Bind, true)
				x.st = saved
				if r == nil {
					unsup("quantifier body does not return")
				}
				cs = append(cs, term(r))
			}
			if name == "Forall" {
				return Scalar{And(cs...)}
			}
			return Scalar{Or(cs...)}
		}
		b := FreshBound("q", BV(64))
		saved := x.st
		sub := saved.fork(saved.pc)
		x.st = sub
		r := x.callFunction(fv.Fn, []Value{Scalar{b}}, fv.Bind, true)
		x.st = saved
		if r == nil {
			unsup("quantifier body does not return")
		}
		rng := And(BvSle(lo, b), BvSlt(b, hi))
		if name == "Forall" {
			return Scalar{Forall([]*Term{b}, Imp(rng, term(r)))}
		}
		return Scalar{Exists([]*Term{b}, And(rng, term(r)))}
	case "CallSite":
		return nil
	case "Assigns":
		if cm == nil {
			return nil
		}
		s := asSlice(args[0])
		n, ok := concreteLen(s)
		if !ok {
			unsup("vc.Assigns with symbolic argument list")
		}
		for i := 0; i < n; i++ {
			e := x.elemAt(s, bv64(int64(i)))
			iv, ok := e.(IfaceV)
			if !ok {
				unsup("vc.Assigns element %T", e)
			}
			cm.assigns = append(cm.assigns, iv.V)
		}
		return nil
	case "GhostLog":
		// vc.GhostLog(name, bytes): appends a snapshot of bytes to the ghost log (used by trusted contracts)
		if cm == nil || cm.prove {
			return nil
		}
		name := x.constStr(args[0])
		snap := x.copySlice(asSlice(args[1]))
		if x.st.ghost == nil {
			x.st.ghost = map[string][]Value{}
		}
		x.st.ghost[name] = append(append([]Value{}, x.st.ghost[name]...), snap)
		return nil
	case "GhostIs":
		// vc.GhostIs(name, v): v equals, field by field, the (single) value recorded in the ghost log
		name := x.constStr(args[0])
		l := x.st.ghost[name]
		iv, ok := args[1].(IfaceV)
		if len(l) == 0 && ok && iv.V != nil && cm != nil && !cm.prove {
			// the contract is being used, not proved: the caller has no such log, the callee's
			// (abstracted) run created it; it now holds this value
			if x.st.ghost == nil {
				x.st.ghost = map[string][]Value{}
			}
			x.st.ghost[name] = []Value{x.snap(iv.V)}
			return Scalar{True()}
		}
		if len(l) != 1 || !ok || iv.V == nil {
			return Scalar{False()}
		}
		return Scalar{x.valEqual(x.snap(iv.V), x.snap(l[0]))}
	case "Faulted":
		return Scalar{Or(x.getFlag(faultFlag), x.getFlag(buildFaultFlag))}
	case "GhostLen":
		name := x.constStr(args[0])
		if cm != nil && !cm.prove && cm.done && len(x.st.ghost[name]) == 0 {
			// The contract is being USED: the log belongs to the callee's own abstraction (its
			// harness starts it empty), the caller keeps no such log.  What the postconditions say about
			// it is about unknown values here — not "length 0", which would turn `GhostLen == 1` into
			// `false` and the guarded postconditions into contradictory assumptions.
			if cm.ghostLen == nil {
				cm.ghostLen = map[string]*Term{}
			}
			if cm.ghostLen[name] == nil {
				cm.ghostLen[name] = Fresh("ghostlen!"+name, BV(64))
			}
			return Scalar{cm.ghostLen[name]}
		}
		if l := x.st.ghost[name]; len(l) == 1 {
			if _, ok := l[0].(UnknownV); ok {
				x.notes["ghost-log-merged:"+name] = true
				return Scalar{Fresh("ghostlen", BV(64))}
			}
		}
		return Scalar{bv64(int64(len(x.st.ghost[name])))}
	case "GhostBytes":
		name := x.constStr(args[0])
		idx := term(args[1])
		log := x.st.ghost[name]
		if !idx.IsConst() {
			unsup("vc.GhostBytes with symbolic index")
		}
		i := int(idx.Val.Int64())
		if cm != nil && !cm.prove && cm.done && len(log) == 0 {
			if cm.ghostBytes == nil {
				cm.ghostBytes = map[string]SliceV{}
			}
			k := fmt.Sprintf("%s#%d", name, i)
			if v, ok := cm.ghostBytes[k]; ok {
				return v
			}
			n := len(x.inputs)
			v := x.freshSymSlice("ghostbytes!"+k, 8, types.Typ[types.Uint8])
			x.inputs = x.inputs[:n]
			cm.ghostBytes[k] = v
			return v
		}
		if i < 0 {
			i += len(log)
		}
		if i < 0 || i >= len(log) {
			// no such entry on this path: an empty, distinguished value
			return SliceV{Off: bv64(0), Len: bv64(0), Cap: bv64(0), Nil: True()}
		}
		if _, ok := log[i].(UnknownV); ok {
			x.notes["ghost-log-merged:"+name] = true
			n := len(x.inputs)
			v := x.freshSymSlice("ghostbytes", 8, types.Typ[types.Uint8])
			x.inputs = x.inputs[:n]
			return v
		}
		return log[i]
	case "AssignsGlobal":
		if cm == nil {
			return nil
		}
		s := asSlice(args[0])
		n, _ := concreteLen(s)
		for i := 0; i < n; i++ {
			name := x.constStr(x.elemAt(s, bv64(int64(i))))
			var g *ssa.Global
			j := strings.LastIndex(name, ".")
			for _, pk := range x.P.Prog.AllPackages() {
				if pk.Pkg.Path() == name[:j] {
					g, _ = pk.Members[name[j+1:]].(*ssa.Global)
				}
			}
			if g == nil {
				unsup("vc.AssignsGlobal: no global %s", name)
			}
			o := x.globalObject(g)
			x.heapGet(o)
			cm.assigns = append(cm.assigns, PtrV{Obj: o, Nil: False()})
		}
		return nil
	case "HavocU8":
		return Scalar{x.freshIn("havoc", BV(8), types.Typ[types.Uint8])}
	case "HavocU16":
		return Scalar{x.freshIn("havoc", BV(16), types.Typ[types.Uint16])}
	case "HavocU32":
		return Scalar{x.freshIn("havoc", BV(32), types.Typ[types.Uint32])}
	case "HavocU64":
		return Scalar{x.freshIn("havoc", BV(64), types.Typ[types.Uint64])}
	case "HavocInt":
		return Scalar{x.freshIn("havoc", BV(64), types.Typ[types.Int])}
	case "HavocBool":
		return Scalar{x.freshIn("havoc", BoolSort, types.Typ[types.Bool])}
	case "HavocBytes":
		n := term(args[0])
		if n.IsConst() && n.Val.IsInt64() && n.Val.Int64() <= 4096 {
			return x.freshConcreteSlice("havocb", types.Typ[types.Uint8], int(n.Val.Int64()), 1)
		}
		sv := x.freshSymSlice("havocb", 8, types.Typ[types.Uint8])
		x.assume(Eq(sv.Len, n))
		return sv
	}
	unsup("unknown intrinsic vc.%s", name)
	return nil
}

func (x *Exec) freshIn(prefix string, s Sort, t types.Type) *Term {
	v := Fresh(prefix, s)
	x.noteInput(v.Name, v, t)
	return v
}

// ---------------- external function models ----------------

type extModel func(x *Exec, fr *Frame, args []Value, pos token.Pos) Value

var extModels = map[string]extModel{}

func init() {
	for _, order := range []string{"bigEndian", "littleEndian"} {
		big := order == "bigEndian"
		for _, n := range []int{2, 4, 8} {
			n := n
			extModels[fmt.Sprintf("(encoding/binary.%s).Uint%d", order, n*8)] = func(x *Exec, fr *Frame, args []Value, pos token.Pos) Value {
				s := asSlice(args[1])
				if !(fr != nil && fr.ghost) && x.ghost == 0 {
					x.oblige("S", "index", BvUle(bv64(int64(n)), s.Len), pos)
				}
				var r *Term
				for i := 0; i < n; i++ {
					b := x.byteAt(s, bv64(int64(i)))
					if r == nil {
						r = b
					} else if big {
						r = Concat(r, b)
					} else {
						r = Concat(b, r)
					}
				}
				return Scalar{r}
			}
			extModels[fmt.Sprintf("(encoding/binary.%s).PutUint%d", order, n*8)] = func(x *Exec, fr *Frame, args []Value, pos token.Pos) Value {
				s := asSlice(args[1])
				v := term(args[2])
				if !(fr != nil && fr.ghost) && x.ghost == 0 {
					x.oblige("S", "index", BvUle(bv64(int64(n)), s.Len), pos)
				}
				for i := 0; i < n; i++ {
					var b *Term
					if big {
						b = Extract(v, 8*(n-i)-1, 8*(n-i-1))
					} else {
						b = Extract(v, 8*i+7, 8*i)
					}
					x.store(PtrV{Obj: s.Obj, Path: []PathElem{{Field: -1, Idx: BvAdd(s.Off, bv64(int64(i)))}}, Nil: False()}, Scalar{b}, True())
				}
				return nil
			}
		}
	}
}

// invokeModel handles interface method calls on modelled dynamic values.
func (x *Exec) invokeModel(fr *Frame, iv IfaceV, method string, args []Value, pos token.Pos) (Value, bool) {
	if m, ok := ifaceModels[iv.Tag+"."+method]; ok {
		return m(x, fr, iv, args, pos), true
	}
	return nil, false
}

var ifaceModels = map[string]func(x *Exec, fr *Frame, iv IfaceV, args []Value, pos token.Pos) Value{}

var _ = types.Typ

// specFn finds a function of the spec module by "pkg.Name" (e.g. "nasalg.CTRByte").
func (x *Exec) specFn(name string) *ssa.Function {
	i := strings.LastIndex(name, ".")
	for _, pk := range x.P.Prog.AllPackages() {
		if pk.Pkg.Path() == "vspec/"+name[:i] {
			if f := pk.Func(name[i+1:]); f != nil {
				return f
			}
		}
	}
	unsup("spec function %s not loaded", name)
	return nil
}

func (x *Exec) callSpec(name string, args ...Value) Value {
	fn := x.specFn(name)
	saved := x.st
	r := x.callStatic(&Frame{fn: fn, ghost: true}, fn, args, nil, token.NoPos)
	if x.st == nil {
		x.st = saved
		unsup("spec function %s did not return", name)
	}
	return r
}

// sliceToArrayValue reads n elements of s as a Go array value.
func (x *Exec) sliceToArrayValue(s SliceV, n int) Value {
	e := make([]Value, n)
	for i := range e {
		e[i] = x.elemAt(s, bv64(int64(i)))
	}
	return ArrayV{e}
}

func (x *Exec) arrayToFreshSlice(a Value, name string) SliceV {
	av := a.(ArrayV)
	o := x.newObject(types.Typ[types.Uint8], name)
	x.st.heap.m[o] = av
	n := bv64(int64(len(av.E)))
	return SliceV{Obj: o, Off: bv64(0), Len: n, Cap: n, Nil: False()}
}

func init() {
	// reflect.DeepEqual on two byte slices: octet-wise equality (nil-ness ignored: both operands are non-nil at the call sites)
	extModels["reflect.DeepEqual"] = func(x *Exec, fr *Frame, args []Value, pos token.Pos) Value {
		a, ok1 := args[0].(IfaceV)
		b, ok2 := args[1].(IfaceV)
		if !ok1 || !ok2 || a.V == nil || b.V == nil {
			unsup("reflect.DeepEqual on unsupported operands")
		}
		return Scalar{x.bytesEqual(asSlice(a.V), asSlice(b.V))}
	}
	// crypto/aes.NewCipher(key): for a 16-octet key returns (block, nil); the block remembers the key.
	extModels["crypto/aes.NewCipher"] = func(x *Exec, fr *Frame, args []Value, pos token.Pos) Value {
		k := asSlice(args[0])
		n, ok := concreteLen(k)
		if !ok || n != 16 {
			unsup("aes.NewCipher with a key that is not 16 octets")
		}
		blk := IfaceV{Nil: False(), Tag: "aesblock", V: x.sliceToArrayValue(k, 16)}
		return TupleV{E: []Value{blk, IfaceV{Nil: True(), Tag: "error"}}}
	}
	ifaceModels["aesblock.BlockSize"] = func(x *Exec, fr *Frame, iv IfaceV, args []Value, pos token.Pos) Value {
		return Scalar{bv64(16)}
	}
	// Block.Encrypt(dst, src): dst[0..16) = AES(key, src[0..16)); panics on short operands
	ifaceModels["aesblock.Encrypt"] = func(x *Exec, fr *Frame, iv IfaceV, args []Value, pos token.Pos) Value {
		dst, src := asSlice(args[0]), asSlice(args[1])
		if !(fr != nil && fr.ghost) {
			x.oblige("S", "panic", And(BvUle(bv64(16), src.Len), BvUle(bv64(16), dst.Len)), pos)
		}
		out := x.callSpec("nasalg.AES", iv.V, x.sliceToArrayValue(src, 16)).(ArrayV)
		for i := 0; i < 16; i++ {
			x.store(PtrV{Obj: dst.Obj, Path: []PathElem{{Field: -1, Idx: BvAdd(dst.Off, bv64(int64(i)))}}, Nil: False()}, out.E[i], True())
		}
		return nil
	}
	// crypto/cipher.NewCTR(block, iv): a stream positioned at octet 0.
	extModels["crypto/cipher.NewCTR"] = func(x *Exec, fr *Frame, args []Value, pos token.Pos) Value {
		blk, ok := args[0].(IfaceV)
		if !ok || blk.Tag != "aesblock" {
			unsup("cipher.NewCTR on unknown block")
		}
		iv := asSlice(args[1])
		n, ok := concreteLen(iv)
		if !ok || n != 16 {
			x.oblige("S", "panic", False(), pos)
			x.st = nil
			return nil
		}
		return IfaceV{Nil: False(), Tag: "ctr", V: StructV{F: []Value{blk.V, x.sliceToArrayValue(iv, 16)}}}
	}
	// Stream.XORKeyStream(dst, src) on a fresh CTR stream: dst[j] = src[j] xor CTRByte(key, iv, j); panics if dst is shorter.
	ifaceModels["ctr.XORKeyStream"] = func(x *Exec, fr *Frame, iv IfaceV, args []Value, pos token.Pos) Value {
		st := iv.V.(StructV)
		dst, src := asSlice(args[0]), asSlice(args[1])
		if !(fr != nil && fr.ghost) {
			x.oblige("S", "panic", BvUle(src.Len, dst.Len), pos)
		}
		if n, ok := concreteLen(src); ok && n <= 256 {
			for j := 0; j < n; j++ {
				ks := term(x.callSpec("nasalg.CTRByte", st.F[0], st.F[1], Scalar{bv64(int64(j))}))
				x.store(PtrV{Obj: dst.Obj, Path: []PathElem{{Field: -1, Idx: BvAdd(dst.Off, bv64(int64(j)))}}, Nil: False()},
					Scalar{BvXor(x.byteAt(src, bv64(int64(j))), ks)}, True())
			}
			return nil
		}
		dv, ok := x.heapGet(dst.Obj).(SymArrV)
		if !ok {
			unsup("XORKeyStream into concrete store with symbolic length")
		}
		x.noteWrite(dst.Obj)
		k := FreshBound("k", BV(64))
		j := BvSub(k, dst.Off)
		inRange := And(BvUle(dst.Off, k), BvUlt(j, src.Len))
		ks := term(x.callSpec("nasalg.CTRByte", st.F[0], st.F[1], Scalar{j}))
		arr := DefArr(8, k, Ite(inRange, BvXor(x.byteAt(src, j), ks), Select(dv.Arr, k)))
		x.st.heap.m[dst.Obj] = SymArrV{Arr: arr, Len: dv.Len, W: 8}
		return nil
	}
	// github.com/aead/cmac.Sum(msg, block, 16) = (AES-CMAC(key, msg), nil)
	extModels["github.com/aead/cmac.Sum"] = func(x *Exec, fr *Frame, args []Value, pos token.Pos) Value {
		blk, ok := args[1].(IfaceV)
		if !ok || blk.Tag != "aesblock" {
			unsup("cmac.Sum on unknown block")
		}
		ts := term(args[2])
		if !ts.IsConst() || ts.U64() != 16 {
			unsup("cmac.Sum with tag size other than 16")
		}
		tag := x.callSpec("nasalg.CMAC", blk.V, args[0])
		return TupleV{E: []Value{x.arrayToFreshSlice(tag, "cmac"), IfaceV{Nil: True(), Tag: "error"}}}
	}
}
