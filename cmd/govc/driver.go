package main

// Driver-level ghost state (C19): a boolean flag "io.fault" that the assumed contracts of the
// N2 association and of the NGAP decoder raise, and fail-stop obligations (class F) at every later
// send and at the normal return of a procedure.

import (
	"time"
	"fmt"
	"go/token"
	"go/types"
	"os"
	"path/filepath"
	"strings"

	"golang.org/x/tools/go/ssa"
)

const faultFlag = "flag:io.fault"

// buildFaultFlag: a function used by contract that returns an error as its last result returned a
// non-nil one (a message builder that failed).  Kept apart from io.fault: C19 is about the
// association and the decoder only; "completes" obligations (vc.Faulted) accept either.
const buildFaultFlag = "flag:build.fault"

func (x *Exec) getFlag(name string) *Term {
	if x.st == nil || x.st.ghost == nil {
		return False()
	}
	if l := x.st.ghost[name]; len(l) == 1 {
		if s, ok := l[0].(Scalar); ok {
			return s.T
		}
	}
	return False()
}

func (x *Exec) setFlag(name string, t *Term) {
	if x.st.ghost == nil {
		x.st.ghost = map[string][]Value{}
	}
	x.st.ghost[name] = []Value{Scalar{t}}
}

func (x *Exec) raiseFault(cond *Term) {
	x.setFlag(faultFlag, Or(x.getFlag(faultFlag), cond))
}

// failStop emits the obligation that no fault has happened on the current path.
func (x *Exec) failStop(label string, pos token.Pos) {
	if !x.driver {
		return
	}
	saved := x.ghost
	x.ghost = 0
	x.curFunc = append(x.curFunc, x.harness)
	x.oblige("F", label, Not(x.getFlag(faultFlag)), pos)
	x.curFunc = x.curFunc[:len(x.curFunc)-1]
	x.ghost = saved
}

func freshErr(name string) (IfaceV, *Term) {
	ok := Fresh(name+"!ok", BoolSort)
	return IfaceV{Nil: ok, Tag: "opaque"}, ok
}

func init() {
	// (*sctp.SCTPConn).Write(b): either (len(b), nil), or an error — which is a fault of the association.
	extModels["(*github.com/ishidawataru/sctp.SCTPConn).Write"] = func(x *Exec, fr *Frame, args []Value, pos token.Pos) Value {
		x.failStop("send-after-fault", pos)
		sendCount(x)
		err, ok := freshErr("sctp.Write")
		x.raiseFault(Not(ok))
		b := asSlice(args[1])
		return TupleV{E: []Value{Scalar{b.Len}, err}}
	}
	// (*sctp.SCTPConn).Read(buf): either 0 < n <= len(buf) octets of the peer's next message and nil, or an error (fault).
	extModels["(*github.com/ishidawataru/sctp.SCTPConn).Read"] = func(x *Exec, fr *Frame, args []Value, pos token.Pos) Value {
		buf := asSlice(args[1])
		err, ok := freshErr("sctp.Read")
		x.raiseFault(Not(ok))
		n := Fresh("sctp.Read!n", BV(64))
		x.assume(And(BvUle(n, buf.Len), Imp(ok, BvUlt(bv64(0), n))))
		if buf.Obj != nil {
			x.havocLocation(buf, "sctp.Read!data")
		}
		return TupleV{E: []Value{Scalar{n}, err}}
	}
	extModels["(*github.com/ishidawataru/sctp.SCTPConn).Close"] = func(x *Exec, fr *Frame, args []Value, pos token.Pos) Value {
		return IfaceV{Nil: True(), Tag: "error"}
	}
}

func init() {
	// strings.Split(s, sep) with a one-octet constant separator and a string of constant length whose
	// separator positions are decided by the preconditions: the pieces are substrings of s.  Anything
	// else: the pieces are not tracked.
	extModels["strings.Split"] = func(x *Exec, fr *Frame, args []Value, pos token.Pos) Value {
		unknown := UnknownV{nil, "strings.Split"}
		s, ok1 := x.snapSlice(args[0])
		sep, ok2 := x.snapSlice(args[1])
		if !ok1 || !ok2 || !s.Len.IsConst() || !sep.Len.IsConst() || sep.Len.Val.Int64() != 1 || s.Len.Val.Int64() > 64 || s.Obj == nil {
			return unknown
		}
		sc := x.byteAt(sep, bv64(0))
		if !sc.IsConst() {
			return unknown
		}
		n := int(s.Len.Val.Int64())
		var pieces []Value
		start := 0
		for i := 0; i < n; i++ {
			c := x.underPC(Eq(x.byteAt(s, bv64(int64(i))), sc))
			if !c.IsConst() {
				if x.probeValid(c) {
					c = True()
				} else if x.probeValid(Not(c)) {
					c = False()
				} else {
					return unknown
				}
			}
			if c.IsTrue() {
				pieces = append(pieces, SliceV{Obj: s.Obj, Off: BvAdd(s.Off, bv64(int64(start))), Len: bv64(int64(i - start)), Cap: bv64(int64(i - start)), Nil: False(), Str: true})
				start = i + 1
			}
		}
		pieces = append(pieces, SliceV{Obj: s.Obj, Off: BvAdd(s.Off, bv64(int64(start))), Len: bv64(int64(n - start)), Cap: bv64(int64(n - start)), Nil: False(), Str: true})
		o := x.newObject(types.Typ[types.String], "split")
		x.st.heap.m[o] = ArrayV{pieces}
		ln := bv64(int64(len(pieces)))
		return SliceV{Obj: o, Off: bv64(0), Len: ln, Cap: ln, Nil: False()}
	}
}

// snapSlice: the value as a slice, if it is one.
func (x *Exec) snapSlice(v Value) (s SliceV, ok bool) {
	defer func() {
		if r := recover(); r != nil {
			if _, isU := r.(Unsupported); !isU {
				panic(r)
			}
			ok = false
		}
	}()
	if _, isU := v.(UnknownV); isU {
		return SliceV{}, false
	}
	return asSlice(v), true
}

// probeValid asks the solvers (3 s) whether c follows from the assumptions and the path condition.
func (x *Exec) probeValid(c *Term) bool {
	if x.dry > 0 || x.st == nil {
		return false
	}
	if !x.deadline.IsZero() && time.Now().After(x.deadline) {
		unsup("execution budget of the target exceeded (%d s)", targetBudgetSecs)
	}
	hyps := relevantHyps(x.assumes, x.st.pc)
	asserts := append(append([]*Term{}, hyps...), x.st.pc, Not(c))
	probeCtr++
	name := fmt.Sprintf("govc_probe_%d_%d", os.Getpid(), probeCtr)
	res := Solve(Script(asserts, nil, x.probeOpaque), os.TempDir(), name, 3)
	os.Remove(filepath.Join(os.TempDir(), name+".smt2"))
	return res.Verdict == "unsat"
}

func sendCount(x *Exec) {
	x.sends++
}

// callResultUsed tells whether any result of the call instruction is used.
func callResultUsed(ins ssa.Instruction) bool {
	v, ok := ins.(ssa.Value)
	if !ok {
		return false
	}
	refs := v.Referrers()
	if refs == nil {
		return false
	}
	for _, r := range *refs {
		if _, isDbg := r.(*ssa.DebugRef); !isDbg {
			return true
		}
	}
	return false
}

// tolerantValue: in driver mode a value the executor could not compute (result of an assumed
// contract, deep reply structure) is replaced by an arbitrary value of its type on first use.
func (x *Exec) tolerantValue(u UnknownV, t types.Type, name string) Value {
	if t == nil {
		t = u.T
	}
	if t == nil {
		return u
	}
	n := len(x.inputs)
	v := x.freshValue("unk!"+strings.ReplaceAll(name, " ", "_"), t, 3)
	x.inputs = x.inputs[:n]
	switch vv := v.(type) {
	case PtrV:
		if strings.HasPrefix(u.Why, "elements of a sequence that are not tracked") {
			// lists of contexts: what is appended comes from constructors whose contracts give non-nil results;
			// the executor does not track element invariants of sequences of symbolic length
			x.assumedCtr["elements of lists of symbolic length are non-nil pointers (no element invariants)"] = true
			vv.Nil = False()
			return vv
		}
		vv.Nil = Fresh("unk!nil", BoolSort)
		return vv
	case SliceV:
		if !vv.Str {
			vv.Nil = Fresh("unk!nil", BoolSort)
		}
		return vv
	}
	return v
}
