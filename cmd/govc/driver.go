package main

// Driver-level ghost state (C19): a boolean flag "io.fault" that the assumed contracts of the
// N2 association and of the NGAP decoder raise, and fail-stop obligations (class F) at every later
// send and at the normal return of a procedure.

import (
	"go/token"
	"go/types"
	"strings"

	"golang.org/x/tools/go/ssa"
)

const faultFlag = "flag:io.fault"

func (x *Exec) getFlag(name string) *Term {
	if x.st == nil || x.st.ghost == nil {
		return False()
	}
	if l := x.st.ghost[name]; len(l) == 1 {
		if s, ok := l[0].(Scalar); ok {
			return s.T
		}
	}
	return False()
}

func (x *Exec) setFlag(name string, t *Term) {
	if x.st.ghost == nil {
		x.st.ghost = map[string][]Value{}
	}
	x.st.ghost[name] = []Value{Scalar{t}}
}

func (x *Exec) raiseFault(cond *Term) {
	x.setFlag(faultFlag, Or(x.getFlag(faultFlag), cond))
}

// failStop emits the obligation that no fault has happened on the current path.
func (x *Exec) failStop(label string, pos token.Pos) {
	if !x.driver {
		return
	}
	saved := x.ghost
	x.ghost = 0
	x.curFunc = append(x.curFunc, x.harness)
	x.oblige("F", label, Not(x.getFlag(faultFlag)), pos)
	x.curFunc = x.curFunc[:len(x.curFunc)-1]
	x.ghost = saved
}

func freshErr(name string) (IfaceV, *Term) {
	ok := Fresh(name+"!ok", BoolSort)
	return IfaceV{Nil: ok, Tag: "opaque"}, ok
}

func init() {
	// (*sctp.SCTPConn).Write(b): either (len(b), nil), or an error — which is a fault of the association.
	extModels["(*github.com/ishidawataru/sctp.SCTPConn).Write"] = func(x *Exec, fr *Frame, args []Value, pos token.Pos) Value {
		x.failStop("send-after-fault", pos)
		sendCount(x)
		err, ok := freshErr("sctp.Write")
		x.raiseFault(Not(ok))
		b := asSlice(args[1])
		return TupleV{E: []Value{Scalar{b.Len}, err}}
	}
	// (*sctp.SCTPConn).Read(buf): either 0 < n <= len(buf) octets of the peer's next message and nil, or an error (fault).
	extModels["(*github.com/ishidawataru/sctp.SCTPConn).Read"] = func(x *Exec, fr *Frame, args []Value, pos token.Pos) Value {
		buf := asSlice(args[1])
		err, ok := freshErr("sctp.Read")
		x.raiseFault(Not(ok))
		n := Fresh("sctp.Read!n", BV(64))
		x.assume(And(BvUle(n, buf.Len), Imp(ok, BvUlt(bv64(0), n))))
		if buf.Obj != nil {
			x.havocLocation(buf, "sctp.Read!data")
		}
		return TupleV{E: []Value{Scalar{n}, err}}
	}
	extModels["(*github.com/ishidawataru/sctp.SCTPConn).Close"] = func(x *Exec, fr *Frame, args []Value, pos token.Pos) Value {
		return IfaceV{Nil: True(), Tag: "error"}
	}
}

func init() {
	// strings.Split: the pieces are not tracked (used by the drivers only to derive a session id)
	extModels["strings.Split"] = func(x *Exec, fr *Frame, args []Value, pos token.Pos) Value {
		return UnknownV{nil, "strings.Split"}
	}
}

func sendCount(x *Exec) {
	x.sends++
}

// callResultUsed tells whether any result of the call instruction is used.
func callResultUsed(ins ssa.Instruction) bool {
	v, ok := ins.(ssa.Value)
	if !ok {
		return false
	}
	refs := v.Referrers()
	if refs == nil {
		return false
	}
	for _, r := range *refs {
		if _, isDbg := r.(*ssa.DebugRef); !isDbg {
			return true
		}
	}
	return false
}

// tolerantValue: in driver mode a value the executor could not compute (result of an assumed
// contract, deep reply structure) is replaced by an arbitrary value of its type on first use.
func (x *Exec) tolerantValue(u UnknownV, t types.Type, name string) Value {
	if t == nil {
		t = u.T
	}
	if t == nil {
		return u
	}
	n := len(x.inputs)
	v := x.freshValue("unk!"+strings.ReplaceAll(name, " ", "_"), t, 3)
	x.inputs = x.inputs[:n]
	switch vv := v.(type) {
	case PtrV:
		vv.Nil = Fresh("unk!nil", BoolSort)
		return vv
	case SliceV:
		if !vv.Str {
			vv.Nil = Fresh("unk!nil", BoolSort)
		}
		return vv
	}
	return v
}
