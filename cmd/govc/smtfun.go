package main

// Spec functions translated to SMT functions (define-fun / define-fun-rec /
// declare-fun).  Marked in the spec source with a doc-comment directive:
//   //vc:smtfun   the Go body is the definition
//   //vc:opaque   uninterpreted (cryptographic primitives outside verification)

import (
	"fmt"
	"go/types"
	"strings"

	"golang.org/x/tools/go/ssa"
)

// packBV flattens a scalar/struct/array value into one bit-vector (first component most significant).
func (x *Exec) packBV(v Value) *Term {
	switch vv := v.(type) {
	case Scalar:
		if vv.T.S.K == SBool {
			return Ite(vv.T, BVU(1, 1), BVU(0, 1))
		}
		return vv.T
	case StructV:
		var r *Term
		for _, f := range vv.F {
			t := x.packBV(f)
			if r == nil {
				r = t
			} else {
				r = Concat(r, t)
			}
		}
		if r == nil {
			unsup("packing empty struct")
		}
		return r
	case ArrayV:
		var r *Term
		for _, f := range vv.E {
			t := x.packBV(f)
			if r == nil {
				r = t
			} else {
				r = Concat(r, t)
			}
		}
		if r == nil {
			unsup("packing empty array")
		}
		return r
	case ArrayRef:
		return x.packBV(x.heapGet(vv.Obj))
	case *ChoiceV:
		return Ite(vv.C, x.packBV(vv.A), x.packBV(vv.B))
	}
	unsup("cannot pack %T into a bit-vector", v)
	return nil
}

func packWidth(t types.Type) int {
	if w, _, isb, ok := isScalarType(t); ok {
		if isb {
			return 1
		}
		return w
	}
	switch u := t.Underlying().(type) {
	case *types.Struct:
		n := 0
		for i := 0; i < u.NumFields(); i++ {
			n += packWidth(u.Field(i).Type())
		}
		return n
	case *types.Array:
		return int(u.Len()) * packWidth(u.Elem())
	}
	unsup("type %s cannot be packed", t)
	return 0
}

func (x *Exec) unpackBV(t *Term, typ types.Type) Value {
	if w, _, isb, ok := isScalarType(typ); ok {
		if isb {
			return Scalar{Eq(t, BVU(1, 1))}
		}
		_ = w
		return Scalar{t}
	}
	switch u := typ.Underlying().(type) {
	case *types.Struct:
		f := make([]Value, u.NumFields())
		hi := t.S.W - 1
		for i := range f {
			w := packWidth(u.Field(i).Type())
			f[i] = x.unpackBV(Extract(t, hi, hi-w+1), u.Field(i).Type())
			hi -= w
		}
		return StructV{f}
	case *types.Array:
		n := int(u.Len())
		e := make([]Value, n)
		w := packWidth(u.Elem())
		hi := t.S.W - 1
		for i := range e {
			e[i] = x.unpackBV(Extract(t, hi, hi-w+1), u.Elem())
			hi -= w
		}
		return ArrayV{e}
	}
	unsup("cannot unpack into %s", typ)
	return nil
}

func smtFunName(fn *ssa.Function) string {
	p := ""
	if fn.Pkg != nil {
		p = fn.Pkg.Pkg.Name() + "."
	}
	return "f!" + p + fn.Name()
}

// smtCall applies a spec function as an SMT function symbol.
func (x *Exec) smtCall(fn *ssa.Function, kind string, args []Value) Value {
	name := smtFunName(fn)
	sig := fn.Signature
	if sig.Results().Len() != 1 {
		unsup("smt function %s must have exactly one result", fn)
	}
	rt := sig.Results().At(0).Type()
	var actual []*Term
	var sorts []Sort
	var pnames []string
	type slot struct {
		kind string // "bv", "bool", "slice"
		typ  types.Type
	}
	var slots []slot
	var arrSlots [][2]int
	// an uninterpreted function applied to byte strings of constant length is taken as a function of
	// the packed octets, one function symbol per length profile (no arrays in the query)
	if kind == "opaque" {
		allConst := false
		suffix := ""
		for i := 0; i < sig.Params().Len(); i++ {
			pt := sig.Params().At(i).Type()
			if _, ok := pt.Underlying().(*types.Slice); ok || isString(pt) {
				sv, isS := args[i].(SliceV)
				if !isS {
					allConst = false
					break
				}
				n, c := concreteLen(sv)
				if !c || n > 512 {
					allConst = false
					break
				}
				allConst = true
				suffix += fmt.Sprintf("!%d", n)
			}
		}
		if allConst {
			name += suffix
			for i := 0; i < sig.Params().Len(); i++ {
				pt := sig.Params().At(i).Type()
				if _, ok := pt.Underlying().(*types.Slice); ok || isString(pt) {
					sv := args[i].(SliceV)
					n, _ := concreteLen(sv)
					if n == 0 {
						continue
					}
					var packed *Term
					for j := 0; j < n; j++ {
						b := x.byteAt(sv, bv64(int64(j)))
						if packed == nil {
							packed = b
						} else {
							packed = Concat(packed, b)
						}
					}
					actual = append(actual, packed)
					sorts = append(sorts, BV(packed.S.W))
					pnames = append(pnames, fmt.Sprintf("p%d", i))
					continue
				}
				if sc, ok := scalarSort(pt); ok && sc.K == SBool {
					actual = append(actual, term(args[i]))
					sorts = append(sorts, BoolSort)
				} else {
					actual = append(actual, x.packBV(args[i]))
					sorts = append(sorts, BV(packWidth(pt)))
				}
				pnames = append(pnames, fmt.Sprintf("p%d", i))
			}
			var ret Sort
			if sc, ok := scalarSort(rt); ok && sc.K == SBool {
				ret = BoolSort
			} else {
				ret = BV(packWidth(rt))
			}
			if _, ok := TB.funcs[name]; !ok {
				DeclareFunc(&FuncDecl{Name: name, Params: sorts, PNames: pnames, Ret: ret})
			}
			app := App(name, ret, actual...)
			if ret.K == SBool {
				return Scalar{app}
			}
			return x.unpackBV(app, rt)
		}
	}
	for i := 0; i < sig.Params().Len(); i++ {
		pt := sig.Params().At(i).Type()
		pn := fmt.Sprintf("p%d", i)
		if sl, ok := pt.Underlying().(*types.Slice); ok || isString(pt) {
			w := 8
			if ok {
				s, ok2 := scalarSort(sl.Elem())
				if !ok2 || s.K != SBV {
					unsup("smt function slice parameter of %s", sl.Elem())
				}
				w = s.W
			}
			sv := asSlice(args[i])
			arr := x.sliceAsArray(sv, w)
			arrSlots = append(arrSlots, [2]int{len(actual), len(actual) + 1})
			actual = append(actual, arr, sv.Len)
			sorts = append(sorts, Arr(w), BV(64))
			pnames = append(pnames, pn+"a", pn+"n")
			slots = append(slots, slot{"slice", pt})
			continue
		}
		if s, ok := scalarSort(pt); ok && s.K == SBool {
			actual = append(actual, term(args[i]))
			sorts = append(sorts, BoolSort)
			pnames = append(pnames, pn)
			slots = append(slots, slot{"bool", pt})
			continue
		}
		actual = append(actual, x.packBV(args[i]))
		sorts = append(sorts, BV(packWidth(pt)))
		pnames = append(pnames, pn)
		slots = append(slots, slot{"bv", pt})
	}
	var ret Sort
	if s, ok := scalarSort(rt); ok && s.K == SBool {
		ret = BoolSort
	} else {
		ret = BV(packWidth(rt))
	}
	if _, ok := TB.funcs[name]; !ok {
		fd := &FuncDecl{Name: name, Params: sorts, PNames: pnames, Ret: ret, ArrSlots: arrSlots}
		DeclareFunc(fd)
		if kind == "smtfun" {
			fd.Lazy = func(fd *FuncDecl) {
				// symbolic execution of the body with parameters as variables
				savedCur := curExec
				defer func() { curExec = savedCur }()
				sub := NewExec(x.P)
				sub.dry = 1
				sub.unrollLimit = 600
				sub.st = &State{pc: True(), heap: &Heap{m: map[*Object]Value{}}, regs: map[ssa.Value]Value{}, iters: map[*ssa.BasicBlock]int{}, inLoop: map[*ssa.BasicBlock]*loopCut{}}
				var pargs []Value
				k := 0
				for i, sl := range slots {
					switch sl.kind {
					case "slice":
						o := sub.newObject(types.Typ[types.Uint8], fmt.Sprintf("p%d", i))
						av, nv := Var(pnames[k], sorts[k]), Var(pnames[k+1], BV(64))
						sub.st.heap.m[o] = SymArrV{Arr: av, Len: nv, W: sorts[k].W}
						pargs = append(pargs, SliceV{Obj: o, Off: bv64(0), Len: nv, Cap: nv, Nil: False(), Str: isString(sl.typ)})
						k += 2
					case "bool":
						pargs = append(pargs, Scalar{Var(pnames[k], BoolSort)})
						k++
					default:
						pargs = append(pargs, sub.unpackBV(Var(pnames[k], sorts[k]), sl.typ))
						k++
					}
				}
				r := sub.callFunction(fn, pargs, nil, true)
				if r == nil {
					unsup("smt function %s does not return", fn)
				}
				var body *Term
				if ret.K == SBool {
					body = term(r)
				} else {
					body = sub.packBV(r)
				}
				fd.Body = body
				collectApps(body, func(n string) {
					if n == name {
						fd.Rec = true
					}
				})
			}
		}
	}
	app := App(name, ret, actual...)
	if ret.K == SBool {
		return Scalar{app}
	}
	return x.unpackBV(app, rt)
}

// sliceAsArray returns an SMT array whose index 0 is the first element of s.
func (x *Exec) sliceAsArray(s SliceV, w int) *Term {
	if s.Obj == nil {
		return ConstArr(BVU(0, w))
	}
	switch bv := x.heapGet(s.Obj).(type) {
	case SymArrV:
		if isZero(s.Off) {
			return bv.Arr
		}
		k := FreshBound("k", BV(64))
		return DefArr(w, k, Select(bv.Arr, BvAdd(s.Off, k)))
	case ArrayV:
		n, ok := concreteLen(s)
		if !ok {
			unsup("symbolic-length view of a concrete store")
		}
		arr := ConstArr(BVU(0, w))
		for i := 0; i < n; i++ {
			arr = Store(arr, bv64(int64(i)), x.byteAt(s, bv64(int64(i))))
		}
		return arr
	}
	unsup("sliceAsArray")
	return nil
}

func (p *Loaded) smtKind(fn *ssa.Function) string {
	if p.smtFuns == nil {
		return ""
	}
	return p.smtFuns[fnName(fn)]
}

func directive(doc string) string {
	for _, l := range strings.Split(doc, "\n") {
		l = strings.TrimSpace(l)
		if strings.HasPrefix(l, "vc:smtfun") {
			return "smtfun"
		}
		if strings.HasPrefix(l, "vc:opaque") {
			return "opaque"
		}
		if strings.HasPrefix(l, "vc:string-uf") {
			return "string-uf"
		}
	}
	return ""
}
