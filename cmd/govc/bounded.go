package main

// Bounded stand-ins: functions named vcBounded_* in the lemma files are executed natively on the
// real code (go test in the snapshot).  They enumerate a stated family of inputs and raise
// vc.Failure on the first violation.  Their obligations have class B and are reported as
// "bounded", never as proved.

import (
	"fmt"
	"go/ast"
	"os"
	"path/filepath"
	"sort"
	"strings"
)

type boundedFn struct {
	Pkg   string // package path
	Dir   string
	Name  string
	Bound string // the "bound:" line of the doc comment
	PkgName string
}

func findBounded(p *Loaded, prop string) []boundedFn {
	var out []boundedFn
	for _, pk := range p.Pkgs {
		for _, f := range pk.Syntax {
			for _, d := range f.Decls {
				fd, ok := d.(*ast.FuncDecl)
				if !ok || fd.Recv != nil || !strings.HasPrefix(fd.Name.Name, "vcBounded_") || fd.Doc == nil {
					continue
				}
				var props []string
				bound := ""
				for _, c := range fd.Doc.List {
					t := strings.TrimSpace(strings.TrimPrefix(c.Text, "//"))
					if strings.HasPrefix(t, "prop:") {
						props = append(props, strings.Fields(strings.TrimPrefix(t, "prop:"))...)
					}
					if strings.HasPrefix(t, "bound:") {
						bound = strings.TrimSpace(strings.TrimPrefix(t, "bound:"))
					}
				}
				if contains(props, prop) && len(pk.GoFiles) > 0 {
					out = append(out, boundedFn{Pkg: pk.PkgPath, Dir: filepath.Dir(pk.GoFiles[0]), Name: fd.Name.Name, Bound: bound, PkgName: pk.Name})
				}
			}
		}
	}
	sort.Slice(out, func(i, j int) bool { return out[i].Pkg+out[i].Name < out[j].Pkg+out[j].Name })
	return out
}

// runBounded executes the bounded checks of one package and returns their obligations.
func runBounded(p *Loaded, fns []boundedFn, tier string, seed int) []*Obligation {
	byDir := map[string][]boundedFn{}
	var dirs []string
	for _, f := range fns {
		if len(byDir[f.Dir]) == 0 {
			dirs = append(dirs, f.Dir)
		}
		byDir[f.Dir] = append(byDir[f.Dir], f)
	}
	var obls []*Obligation
	for _, dir := range dirs {
		fs := byDir[dir]
		var sb strings.Builder
		fmt.Fprintf(&sb, "//go:build verif\n\npackage %s\n\nimport (\n\t\"fmt\"\n\t\"testing\"\n)\n\n", fs[0].PkgName)
		sb.WriteString("func TestVerifBounded(t *testing.T) {\n")
		for _, f := range fs {
			fmt.Fprintf(&sb, "\tfunc() {\n\t\tdefer func() {\n\t\t\tif r := recover(); r != nil {\n\t\t\t\tfmt.Printf(\"VERIF-BOUNDED %s FAIL %%v\\n\", r)\n\t\t\t\treturn\n\t\t\t}\n\t\t\tfmt.Printf(\"VERIF-BOUNDED %s OK\\n\")\n\t\t}()\n\t\t%s()\n\t}()\n", f.Name, f.Name, f.Name)
		}
		sb.WriteString("}\n")
		tf := filepath.Join(dir, "zz_verif_bounded_test.go")
		os.WriteFile(tf, []byte(sb.String()), 0o644)
		env := append(append([]string{}, goEnv...), "GOWORK="+filepath.Join(p.Root, "go.work"), "VERIF_TIER="+tier, fmt.Sprintf("VERIF_SEED=%d", seed))
		out, _ := run(dir, env, "go", "test", "-tags", "verif", "-vet=off", "-v", "-count=1", "-timeout", "300s", "-run", "^TestVerifBounded$", ".")
		os.Remove(tf)
		for _, f := range fs {
			name := fmt.Sprintf("%s.%s#B:bounded", f.Pkg, f.Name)
			o := &Obligation{Name: name, Class: "B", Func: f.Pkg + "." + f.Name, Label: "bounded", PC: True(), Goal: True(), Pos: f.Bound}
			status, detail := "", ""
			for _, line := range strings.Split(out, "\n") {
				if strings.HasPrefix(line, "VERIF-BOUNDED "+f.Name+" ") {
					rest := strings.TrimPrefix(line, "VERIF-BOUNDED "+f.Name+" ")
					if strings.HasPrefix(rest, "OK") {
						status = "ok"
					} else {
						status, detail = "fail", rest
					}
				}
			}
			switch status {
			case "ok":
				o.Trivial = true
				o.Status = "proved"
				o.Result = &SolveResult{Verdict: "bounded-ok", Solver: "native run (bounded: " + f.Bound + ")"}
			case "fail":
				o.Status = "failed"
				o.Vacuous = true
				o.Result = &SolveResult{Verdict: "bounded-fail", Solver: "native run", Output: detail}
			default:
				o.Status = "failed"
				o.Vacuous = true
				o.Result = &SolveResult{Verdict: "bounded-error", Solver: "native run", Output: trunc(out, 3000)}
			}
			obls = append(obls, o)
		}
	}
	return obls
}
