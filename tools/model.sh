#!/bin/sh
# model.sh <file.smt2> <regex> : prints the model values of the declared constants (BV/Bool) whose name matches regex
f="$1"; re="$2"
names=$(grep "^(declare-fun" "$f" | grep -v "Array" | grep -E "$re" | sed 's/^(declare-fun \([^ ]*\|[|][^|]*[|]\) .*/\1/' | tr '\n' ' ')
grep -v "^(get-value" "$f" > /tmp/model_q.smt2
echo "(get-value ($names))" >> /tmp/model_q.smt2
timeout 60 z3-new /tmp/model_q.smt2 | head -60
