package kdfspec

import (
	"encoding/hex"
	"testing"
)

func TestSNName(t *testing.T) {
	if SNName("208", "93") != "5G:mnc093.mcc208.3gppnetwork.org" || len(SNName("310", "410")) != 32 {
		t.Fatal(SNName("208", "93"))
	}
}

// TS 33.501 has no published vectors for Annex A; check the generic KDF layout against a
// hand-assembled S string and the HMAC of the standard library.
func TestKDFLayout(t *testing.T) {
	key := make([]byte, 32)
	got := KDF2(key, 0x69, []byte{0x01}, []byte{0x02})
	want := HMAC256(key, []byte{0x69, 0x01, 0x00, 0x01, 0x02, 0x00, 0x01})
	if got != want {
		t.Fatal(hex.EncodeToString(got[:]))
	}
}
