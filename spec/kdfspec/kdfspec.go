// Package kdfspec specifies the 5G key hierarchy of 3GPP TS 33.501 Annex A on
// top of the generic key derivation function of TS 33.220 Annex B.2.  It is
// written from the standards, not from the code under verification.  HMAC-SHA-256
// itself is outside the verification and appears as an opaque function.
package kdfspec

import (
	"crypto/hmac"
	"crypto/sha256"
)

// HMAC256 is HMAC-SHA-256 (RFC 2104, FIPS 180-4); opaque to the verifier.
//
//vc:opaque
func HMAC256(key []byte, msg []byte) [32]byte {
	m := hmac.New(sha256.New, key)
	m.Write(msg)
	var out [32]byte
	copy(out[:], m.Sum(nil))
	return out
}

// L is the two-octet big-endian length of a parameter (TS 33.220 B.2.1).
func L(p []byte) []byte { return []byte{byte(len(p) >> 8), byte(len(p))} }

// KDF is TS 33.220 B.2.0: HMAC-SHA-256(Key, S) with S = FC || P0 || L0 || P1 || L1 || ...
func KDF1(key []byte, fc byte, p0 []byte) [32]byte {
	s := append([]byte{fc}, p0...)
	s = append(s, L(p0)...)
	return HMAC256(key, s)
}

func KDF2(key []byte, fc byte, p0, p1 []byte) [32]byte {
	s := append([]byte{fc}, p0...)
	s = append(s, L(p0)...)
	s = append(s, p1...)
	s = append(s, L(p1)...)
	return HMAC256(key, s)
}

func KDF3(key []byte, fc byte, p0, p1, p2 []byte) [32]byte {
	s := append([]byte{fc}, p0...)
	s = append(s, L(p0)...)
	s = append(s, p1...)
	s = append(s, L(p1)...)
	s = append(s, p2...)
	s = append(s, L(p2)...)
	return HMAC256(key, s)
}

// SNName is the serving network name of TS 33.501 6.1.1.4 / TS 24.501 9.12.1:
// "5G:mnc<MNC>.mcc<MCC>.3gppnetwork.org" with a two-digit MNC padded by a leading zero.
func SNName(mcc, mnc string) string {
	if len(mnc) == 2 {
		mnc = "0" + mnc
	}
	return "5G:mnc" + mnc + ".mcc" + mcc + ".3gppnetwork.org"
}

// Kausf (A.2): FC = 6A, P0 = serving network name, P1 = SQN xor AK; key CK || IK.
func Kausf(ck, ik [16]byte, snName string, sqnXorAK []byte) [32]byte {
	return KDF2(append(ck[:], ik[:]...), 0x6A, []byte(snName), sqnXorAK)
}

// RESstar (A.4): FC = 6B, P0 = serving network name, P1 = RAND, P2 = RES; key CK || IK;
// RES* is the 128 least significant bits of the output.
func RESstar(ck, ik [16]byte, snName string, rand []byte, res []byte) [16]byte {
	out := KDF3(append(ck[:], ik[:]...), 0x6B, []byte(snName), rand, res)
	var r [16]byte
	copy(r[:], out[16:32])
	return r
}

// Kseaf (A.6): FC = 6C, P0 = serving network name; key Kausf.
func Kseaf(kausf [32]byte, snName string) [32]byte {
	return KDF1(kausf[:], 0x6C, []byte(snName))
}

// Kamf (A.7): FC = 6D, P0 = SUPI (the IMSI digits), P1 = ABBA; key Kseaf.
func Kamf(kseaf [32]byte, supi string, abba []byte) [32]byte {
	return KDF2(kseaf[:], 0x6D, []byte(supi), abba)
}

// AlgKey (A.8): FC = 69, P0 = algorithm type distinguisher (N-NAS-enc-alg = 01, N-NAS-int-alg = 02),
// P1 = algorithm identity; key Kamf; the 128 least significant bits of the output are the key.
func AlgKey(kamf [32]byte, distinguisher byte, algID byte) [16]byte {
	out := KDF2(kamf[:], 0x69, []byte{distinguisher}, []byte{algID})
	var r [16]byte
	copy(r[:], out[16:32])
	return r
}
