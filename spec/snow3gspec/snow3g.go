// Package snow3gspec is a specification of SNOW 3G written from
// ETSI/SAGE "Specification of the 3GPP Confidentiality and Integrity
// Algorithms UEA2 & UIA2, Document 2: SNOW 3G Specification" (TS 35.216).
// It is an oracle: pure, total functions; it never reads the code under
// verification.  The S-boxes are given by their algebraic definitions.
package snow3gspec

// State is the LFSR (s0..s15) and the FSM registers (R1,R2,R3).
type State struct {
	S [16]uint32
	R [3]uint32
}

// MULx (3.1.1).
func MULx(v, c uint8) uint8 {
	if v&0x80 != 0 {
		return (v << 1) ^ c
	}
	return v << 1
}

// MULxPOW (3.1.2).
//
//vc:smtfun
func MULxPOW(v uint8, i int, c uint8) uint8 {
	if i == 0 {
		return v
	}
	return MULx(MULxPOW(v, i-1, c), c)
}

// gfMul multiplies in GF(2^8) modulo the polynomial 0x100|poly.
func gfMul(a, b, poly uint8) uint8 {
	var r uint8
	for i := 0; i < 8; i++ {
		if b&1 != 0 {
			r ^= a
		}
		a = MULx(a, poly)
		b >>= 1
	}
	return r
}

// gfPow is a^e by square-and-multiply (e < 256).
func gfPow(a uint8, e int, poly uint8) uint8 {
	r := uint8(1)
	for bit := 7; bit >= 0; bit-- {
		r = gfMul(r, r, poly)
		if (e>>uint(bit))&1 != 0 {
			r = gfMul(r, a, poly)
		}
	}
	return r
}

func rotl8(x uint8, k uint) uint8 { return x<<k | x>>(8-k) }

// srDef is the Rijndael S-box (3.3.1): multiplicative inverse in
// GF(2^8) mod x^8+x^4+x^3+x+1 followed by the affine transformation.
func srDef(x uint8) uint8 {
	inv := gfPow(x, 254, 0x1b)
	return inv ^ rotl8(inv, 1) ^ rotl8(inv, 2) ^ rotl8(inv, 3) ^ rotl8(inv, 4) ^ 0x63
}

// sqDef is the S-box SQ (3.3.2): the Dickson polynomial
// g49(x) = x + x^9 + x^13 + x^15 + x^33 + x^41 + x^45 + x^47 + x^49
// over GF(2^8) mod x^8+x^6+x^5+x^3+1, xor 0x25.
func sqDef(x uint8) uint8 {
	const p = 0x69
	return x ^ gfPow(x, 9, p) ^ gfPow(x, 13, p) ^ gfPow(x, 15, p) ^ gfPow(x, 33, p) ^
		gfPow(x, 41, p) ^ gfPow(x, 45, p) ^ gfPow(x, 47, p) ^ gfPow(x, 49, p) ^ 0x25
}

// SRTab and SQTab tabulate the two definitions.
var SRTab = tabulate(true)
var SQTab = tabulate(false)

func tabulate(r bool) [256]uint8 {
	var t [256]uint8
	for i := 0; i < 256; i++ {
		if r {
			t[i] = srDef(uint8(i))
		} else {
			t[i] = sqDef(uint8(i))
		}
	}
	return t
}

func SR(x uint8) uint8 { return SRTab[x] }
func SQ(x uint8) uint8 { return SQTab[x] }

// S1 (3.3.1).
//
//vc:smtfun
func S1(w uint32) uint32 {
	w0, w1, w2, w3 := uint8(w>>24), uint8(w>>16), uint8(w>>8), uint8(w)
	r0 := MULx(SR(w0), 0x1b) ^ SR(w1) ^ SR(w2) ^ MULx(SR(w3), 0x1b) ^ SR(w3)
	r1 := MULx(SR(w0), 0x1b) ^ SR(w0) ^ MULx(SR(w1), 0x1b) ^ SR(w2) ^ SR(w3)
	r2 := SR(w0) ^ MULx(SR(w1), 0x1b) ^ SR(w1) ^ MULx(SR(w2), 0x1b) ^ SR(w3)
	r3 := SR(w0) ^ SR(w1) ^ MULx(SR(w2), 0x1b) ^ SR(w2) ^ MULx(SR(w3), 0x1b)
	return uint32(r0)<<24 | uint32(r1)<<16 | uint32(r2)<<8 | uint32(r3)
}

// S2 (3.3.2).
//
//vc:smtfun
func S2(w uint32) uint32 {
	w0, w1, w2, w3 := uint8(w>>24), uint8(w>>16), uint8(w>>8), uint8(w)
	r0 := MULx(SQ(w0), 0x69) ^ SQ(w1) ^ SQ(w2) ^ MULx(SQ(w3), 0x69) ^ SQ(w3)
	r1 := MULx(SQ(w0), 0x69) ^ SQ(w0) ^ MULx(SQ(w1), 0x69) ^ SQ(w2) ^ SQ(w3)
	r2 := SQ(w0) ^ MULx(SQ(w1), 0x69) ^ SQ(w1) ^ MULx(SQ(w2), 0x69) ^ SQ(w3)
	r3 := SQ(w0) ^ SQ(w1) ^ MULx(SQ(w2), 0x69) ^ SQ(w2) ^ MULx(SQ(w3), 0x69)
	return uint32(r0)<<24 | uint32(r1)<<16 | uint32(r2)<<8 | uint32(r3)
}

// MULa (3.4.2) and DIVa (3.4.3).
//
//vc:smtfun
func MULa(c uint8) uint32 {
	return uint32(MULxPOW(c, 23, 0xa9))<<24 | uint32(MULxPOW(c, 245, 0xa9))<<16 |
		uint32(MULxPOW(c, 48, 0xa9))<<8 | uint32(MULxPOW(c, 239, 0xa9))
}

//
//vc:smtfun
func DIVa(c uint8) uint32 {
	return uint32(MULxPOW(c, 16, 0xa9))<<24 | uint32(MULxPOW(c, 39, 0xa9))<<16 |
		uint32(MULxPOW(c, 6, 0xa9))<<8 | uint32(MULxPOW(c, 64, 0xa9))
}

// feedback is the common part of the LFSR feedback word (3.4.4/3.4.5).
func feedback(st State) uint32 {
	s0, s2, s11 := st.S[0], st.S[2], st.S[11]
	return (s0 << 8) ^ MULa(uint8(s0>>24)) ^ s2 ^ (s11 >> 8) ^ DIVa(uint8(s11))
}

func shift(st State, v uint32) State {
	var n State
	for i := 0; i < 15; i++ {
		n.S[i] = st.S[i+1]
	}
	n.S[15] = v
	n.R = st.R
	return n
}

// LFSRInit: initialisation mode (3.4.4).
func LFSRInit(st State, f uint32) State { return shift(st, feedback(st)^f) }

// LFSRKey: keystream mode (3.4.5).
func LFSRKey(st State) State { return shift(st, feedback(st)) }

// FSMWord is the FSM output word F = (s15 [+] R1) xor R2 (3.4.6).
func FSMWord(s15 uint32, r [3]uint32) uint32 { return (s15 + r[0]) ^ r[1] }

// FSMNext gives the FSM registers after one clock (3.4.6).
func FSMNext(s5 uint32, r [3]uint32) [3]uint32 {
	return [3]uint32{r[1] + (r[2] ^ s5), S1(r[0]), S2(r[1])}
}

// FSMOut is the FSM output word in state st.
func FSMOut(st State) uint32 { return FSMWord(st.S[15], st.R) }

// ClockFSM (3.4.6): the state after clocking the FSM.
func ClockFSM(st State) State {
	n := st
	n.R = FSMNext(st.S[5], st.R)
	return n
}

// Load is the initial loading of key and IV (4.1); k[0..3] = k0..k3, iv[0..3] = IV0..IV3.
func Load(k, iv [4]uint32) State {
	var st State
	const ones = 0xffffffff
	st.S[15] = k[3] ^ iv[0]
	st.S[14] = k[2]
	st.S[13] = k[1]
	st.S[12] = k[0] ^ iv[1]
	st.S[11] = k[3] ^ ones
	st.S[10] = k[2] ^ ones ^ iv[2]
	st.S[9] = k[1] ^ ones ^ iv[3]
	st.S[8] = k[0] ^ ones
	st.S[7] = k[3]
	st.S[6] = k[2]
	st.S[5] = k[1]
	st.S[4] = k[0]
	st.S[3] = k[3] ^ ones
	st.S[2] = k[2] ^ ones
	st.S[1] = k[1] ^ ones
	st.S[0] = k[0] ^ ones
	return st
}

// InitRound is one of the 32 initialisation clocks.
func InitRound(st State) State {
	f := FSMOut(st)
	return LFSRInit(ClockFSM(st), f)
}

// Init (4.1): state after initialisation.
//
//vc:smtfun
func Init(k, iv [4]uint32) State {
	st := Load(k, iv)
	for i := 0; i < 32; i++ {
		st = InitRound(st)
	}
	return st
}

// Step is one keystream-mode clock: FSM, then LFSR in keystream mode.
//
//vc:smtfun
func Step(st State) State { return LFSRKey(ClockFSM(st)) }

// Out is the keystream word produced when the generator is clocked from st.
//
//vc:smtfun
func Out(st State) uint32 { return FSMOut(st) ^ st.S[0] }

// Iter is st clocked t times in keystream mode.
//
//vc:smtfun
func Iter(st State, t int) State {
	if t <= 0 {
		return st
	}
	return Step(Iter(st, t-1))
}

// Z (4.2): the t-th keystream word z_{t+1} (t = 0,1,...) after initialisation
// state st: one clock is discarded first.
func Z(st State, t int) uint32 { return Out(Iter(Step(st), t)) }
