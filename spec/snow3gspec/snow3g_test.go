package snow3gspec

import "testing"

// Test set 1 of the SNOW 3G implementers' test data (TS 35.222 / Document 4, 4.3).
func TestSet1(t *testing.T) {
	k := [4]uint32{0x2BD6459F, 0x82C5B300, 0x952C4910, 0x4881FF48}
	iv := [4]uint32{0xEA024714, 0xAD5C4D84, 0xDF1F9B25, 0x1C0BF45F}
	st := Init(k, iv)
	if z := Z(st, 0); z != 0xABEE9704 {
		t.Fatalf("z1 = %08x", z)
	}
	if z := Z(st, 1); z != 0x7AC31373 {
		t.Fatalf("z2 = %08x", z)
	}
	if SR(0) != 0x63 || SR(1) != 0x7c || SQ(0) != 0x25 || SQ(1) != 0x24 {
		t.Fatalf("sbox %x %x %x %x", SR(0), SR(1), SQ(0), SQ(1))
	}
}
