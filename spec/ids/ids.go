// Package ids specifies subscriber and network identifier encodings, written
// from the standards (not from the code under verification):
//
//   - TS 24.501 9.11.3.4, figure 9.11.3.4.3/4: 5GS mobile identity, SUCI with
//     SUPI format IMSI, null protection scheme;
//   - TS 24.501 9.11.3.4 / TS 38.413 9.3.3.5 / TS 23.003 2.2: PLMN identity in
//     three octets (MCC digit 2 | MCC digit 1, MNC digit 3 | MCC digit 3,
//     MNC digit 2 | MNC digit 1; MNC digit 3 = 1111 for a two-digit MNC).
//
// An IMSI is MCC (3 digits) || MNC (2 or 3 digits) || MSIN, as ASCII digits.
package ids

// Digit is the value of an ASCII decimal digit.
func Digit(c byte) byte { return c - '0' }

// IsDigits: every octet of s is an ASCII decimal digit.
func IsDigits(s []byte) bool {
	for _, c := range s {
		if c < '0' || c > '9' {
			return false
		}
	}
	return true
}

// PLMNByte is octet n (0..2) of the PLMN identity of the IMSI's MCC and MNC.
//
//vc:smtfun
func PLMNByte(imsi []byte, mncLen int, n int) byte {
	mcc1, mcc2, mcc3 := Digit(imsi[0]), Digit(imsi[1]), Digit(imsi[2])
	mnc1, mnc2 := Digit(imsi[3]), Digit(imsi[4])
	mnc3 := byte(0xf)
	if mncLen == 3 {
		mnc3 = Digit(imsi[5])
	}
	switch n {
	case 0:
		return mcc2<<4 | mcc1
	case 1:
		return mnc3<<4 | mcc3
	}
	return mnc2<<4 | mnc1
}

// SUCILen is the length of the mobile identity contents (octets 4.. of the IE)
// for an IMSI of n digits whose MNC has mncLen digits: type octet, PLMN (3),
// routing indicator (2), protection scheme id, home network public key id, and
// the MSIN in BCD, two digits per octet.
func SUCILen(n int, mncLen int) int {
	msin := n - 3 - mncLen
	return 8 + (msin+1)/2
}

// SUCIByte is octet j of the contents of the 5GS mobile identity IE carrying
// the null-scheme SUCI of imsi (figure 9.11.3.4.3 with the scheme output of
// figure 9.11.3.4.4): no routing indicator configured (digit 1 = 0, digits
// 2..4 = 1111), protection scheme 0, home network public key identifier 0.
//
//vc:smtfun
func SUCIByte(imsi []byte, mncLen int, j int) byte {
	switch {
	case j == 0:
		return 0<<4 | 1 // SUPI format IMSI (bits 7..5 = 0), type of identity SUCI (001)
	case j <= 3:
		return PLMNByte(imsi, mncLen, j-1)
	case j == 4:
		return 0xf0 // routing indicator digit 2 (unused) | digit 1 = 0
	case j == 5:
		return 0xff // routing indicator digits 4 | 3 (unused)
	case j == 6:
		return 0 // protection scheme id: null scheme
	case j == 7:
		return 0 // home network public key identifier
	}
	// scheme output: MSIN digits, digit 2k+1 in the high nibble, digit 2k in the low one; filler 1111
	k := 3 + mncLen + 2*(j-8)
	lo := Digit(imsi[k])
	hi := byte(0xf)
	if k+1 < len(imsi) {
		hi = Digit(imsi[k+1])
	}
	return hi<<4 | lo
}

// SUCI is the whole contents.
func SUCI(imsi []byte, mncLen int) []byte {
	out := make([]byte, SUCILen(len(imsi), mncLen))
	for j := range out {
		out[j] = SUCIByte(imsi, mncLen, j)
	}
	return out
}

// DecodeSUCI is an independent decoder of the contents produced for an IMSI
// SUCI with the null scheme: it returns the MCC, MNC and MSIN digit strings.
// ok is false when the octets are not such a SUCI.
func DecodeSUCI(b []byte) (mcc, mnc, msin []byte, ok bool) {
	if len(b) < 8 || b[0]&0x07 != 1 || (b[0]>>4)&0x07 != 0 || b[6]&0x0f != 0 {
		return nil, nil, nil, false
	}
	d := func(n byte) byte { return '0' + n }
	mcc = []byte{d(b[1] & 0xf), d(b[1] >> 4), d(b[2] & 0xf)}
	mnc = []byte{d(b[3] & 0xf), d(b[3] >> 4)}
	if b[2]>>4 != 0xf {
		mnc = append(mnc, d(b[2]>>4))
	}
	for _, o := range b[8:] {
		msin = append(msin, d(o&0xf))
		if o>>4 != 0xf {
			msin = append(msin, d(o>>4))
		}
	}
	return mcc, mnc, msin, true
}

// PLMNOctet is octet n (0..2) of the PLMN identity for the MCC and MNC given as
// digit strings (TS 23.003 2.2, TS 24.501 9.11.3.4, TS 38.413 9.3.3.5).
//
//vc:smtfun
func PLMNOctet(mcc, mnc string, n int) byte {
	mnc3 := byte(0xf)
	if len(mnc) == 3 {
		mnc3 = Digit(mnc[2])
	}
	switch n {
	case 0:
		return Digit(mcc[1])<<4 | Digit(mcc[0])
	case 1:
		return mnc3<<4 | Digit(mcc[2])
	}
	return Digit(mnc[1])<<4 | Digit(mnc[0])
}

// HexDigit is the value of an ASCII hexadecimal digit.
func HexDigit(c byte) byte {
	switch {
	case '0' <= c && c <= '9':
		return c - '0'
	case 'a' <= c && c <= 'f':
		return c - 'a' + 10
	case 'A' <= c && c <= 'F':
		return c - 'A' + 10
	}
	return 0
}

// IsHexDigit: c is an ASCII hexadecimal digit.
func IsHexDigit(c byte) bool {
	return '0' <= c && c <= '9' || 'a' <= c && c <= 'f' || 'A' <= c && c <= 'F'
}

// HexOctet is octet j of the octet string written in hexadecimal as s.
func HexOctet(s string, j int) byte { return HexDigit(s[2*j])<<4 | HexDigit(s[2*j+1]) }

// AMF identifier (TS 23.003 2.10.1): AMF Region ID (8 bits) || AMF Set ID (10 bits) || AMF Pointer (6 bits),
// written as six hexadecimal digits.
func AMFID24(s string) uint32 {
	return uint32(HexOctet(s, 0))<<16 | uint32(HexOctet(s, 1))<<8 | uint32(HexOctet(s, 2))
}
func AMFRegion(id uint32) uint8  { return uint8(id >> 16) }
func AMFSet(id uint32) uint16    { return uint16(id>>6) & 0x3ff }
func AMFPointer(id uint32) uint8 { return uint8(id) & 0x3f }

// IsImsiSupi: s is "imsi-" followed by at least one and at most 15 decimal digits (TS 23.003 2.2A, 2.2).
func IsImsiSupi(s string) bool {
	if len(s) < 6 || len(s) > 20 || s[0] != 'i' || s[1] != 'm' || s[2] != 's' || s[3] != 'i' || s[4] != '-' {
		return false
	}
	for i := 5; i < len(s); i++ {
		if s[i] < '0' || s[i] > '9' {
			return false
		}
	}
	return true
}
