package ids

// Protocol configuration options (TS 24.008 10.5.6.3, value part used inside the extended PCO IE of
// TS 24.501 9.11.4.6): octet 1 = 1 | 000 0 | configuration protocol (000 = PPP for use with IP PDP
// type); then a list of units: container/protocol identifier (2 octets, big-endian), length of
// contents (1 octet), contents.  Written from the standard.

type PCOUnit struct {
	ID       uint16
	Contents []byte
}

// PCOEncode is the value part for configuration protocol 0.
func PCOEncode(units []PCOUnit) []byte {
	out := []byte{0x80}
	for _, u := range units {
		out = append(out, byte(u.ID>>8), byte(u.ID), byte(len(u.Contents)))
		out = append(out, u.Contents...)
	}
	return out
}

// PCODecode parses the value part; ok is false when a unit is truncated.
func PCODecode(b []byte) (units []PCOUnit, ok bool) {
	if len(b) < 1 {
		return nil, false
	}
	i := 1
	for i < len(b) {
		if i+3 > len(b) {
			return units, false
		}
		id := uint16(b[i])<<8 | uint16(b[i+1])
		n := int(b[i+2])
		if i+3+n > len(b) {
			return units, false
		}
		units = append(units, PCOUnit{ID: id, Contents: append([]byte{}, b[i+3:i+3+n]...)})
		i += 3 + n
	}
	return units, true
}
