package ids

import (
	"bytes"
	"testing"
)

func TestSUCIKnownVectors(t *testing.T) {
	// free5GC test UE: imsi-2089300007487, MNC 93 -> suci-0-208-93-0000-0-0-00007487
	got := SUCI([]byte("2089300007487"), 2)
	want := []byte{0x01, 0x02, 0xf8, 0x39, 0xf0, 0xff, 0x00, 0x00, 0x00, 0x00, 0x47, 0x78}
	if !bytes.Equal(got, want) {
		t.Fatalf("got % x want % x", got, want)
	}
	// 3-digit MNC, odd MSIN: 310 410 123456789 -> PLMN 13 00 14
	got = SUCI([]byte("310410123456789"), 3)
	want = []byte{0x01, 0x13, 0x00, 0x14, 0xf0, 0xff, 0x00, 0x00, 0x21, 0x43, 0x65, 0x87, 0xf9}
	if !bytes.Equal(got, want) {
		t.Fatalf("got % x want % x", got, want)
	}
}

func TestDecodeInverts(t *testing.T) {
	for _, c := range []struct {
		imsi string
		l    int
	}{{"2089300007487", 2}, {"310410123456789", 3}, {"00101000000000", 2}, {"999999999999999", 3}, {"001011", 2}} {
		mcc, mnc, msin, ok := DecodeSUCI(SUCI([]byte(c.imsi), c.l))
		if !ok || string(mcc)+string(mnc)+string(msin) != c.imsi || len(mnc) != c.l {
			t.Fatalf("%s: %s %s %s %v", c.imsi, mcc, mnc, msin, ok)
		}
	}
}
