// Package trace holds the record format of the ghost message logs used by the driver-level
// contracts (C01, C02): what each build-and-encode wrapper / NAS constructor was asked for.
package trace

// Kinds of NGAP messages the gNB side sends (ghost log "ngap.built").
const (
	NGSetupRequest                        = 1
	InitialUEMessage                      = 2
	UplinkNASTransport                    = 3
	InitialContextSetupResponse           = 4
	InitialContextSetupResponseForService = 5
	PDUSessionResourceSetupResponse       = 6
	PDUSessionResourceReleaseResponse     = 7
	UEContextReleaseComplete              = 8
)

// Kinds of NAS messages the UE side builds (ghost log "nas.built").
const (
	RegistrationRequest            = 101
	AuthenticationResponse         = 102
	SecurityModeComplete           = 103
	RegistrationComplete           = 104
	DeregistrationRequest          = 105
	ServiceRequest                 = 106
	PDUSessionEstablishmentRequest = 107
	PDUSessionReleaseRequest       = 108
	PDUSessionReleaseComplete      = 109
)

func put64(b []byte, v int64) []byte {
	for i := 7; i >= 0; i-- {
		b = append(b, byte(uint64(v)>>(8*uint(i))))
	}
	return b
}

// Rec is one log record: a kind and three integers (identifiers, PDU session identity, flags).
func Rec(kind int, a, b, c int64) []byte {
	r := []byte{byte(kind)}
	r = put64(r, a)
	r = put64(r, b)
	return put64(r, c)
}

// B is 1 for true.
func B(x bool) int64 {
	if x {
		return 1
	}
	return 0
}

// Kind, A, Bv, C read a record back.
func Kind(r []byte) int {
	if len(r) != 25 {
		return -1
	}
	return int(r[0])
}

func get64(r []byte, off int) int64 {
	var v uint64
	for i := 0; i < 8; i++ {
		v = v<<8 | uint64(r[off+i])
	}
	return int64(v)
}

func A(r []byte) int64  { return get64(r, 1) }
func Bv(r []byte) int64 { return get64(r, 9) }
func C(r []byte) int64  { return get64(r, 17) }

// Is: the record has this kind and these three values.
func Is(r []byte, kind int, a, b, c int64) bool {
	return Kind(r) == kind && A(r) == a && Bv(r) == b && C(r) == c
}
