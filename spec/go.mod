module vspec

go 1.20
