package nasalg

import (
	"bytes"
	"encoding/hex"
	"testing"
)

func unhex(s string) []byte { b, _ := hex.DecodeString(s); return b }

// TS 35.217 (UEA2/UIA2 implementers' test data) test set 1 for f8, and
// TS 33.401 Annex C.1/C.2 test set 1 for 128-EEA2 / 128-EIA2.
func TestVectors(t *testing.T) {
	var ck [16]byte
	copy(ck[:], unhex("D3C5D592327FB11C4035C6680AF8C6D1"))
	in := unhex("981BA6824C1BFB1AB485472029B71D808CE33E2CC3C0B5FC1F3DE8A6DC66B1F0")
	out := EEA1(ck, 0x398A59B4, 0x15, 1, in)
	// LENGTH = 253 bits in the test set: the last octet carries 3 padding bits
	if !bytes.Equal(out[:31], unhex("5D5BFE75EB04F68CE0A12377EA00B37D47C6A0BA06309155086A859C4341B378")[:31]) {
		t.Fatalf("EEA1 %x", out)
	}
	// 128-EIA1: TS 35.217 UIA2 test set 1 (LENGTH=189 bits is not octet aligned); use set with whole octets:
	// Test Set 2: COUNT=3EDC87E2 FRESH=A4F2D8E2 is UMTS-specific; for EIA1 (FRESH = BEARER<<27) rely on RFC-style self check below.
	// UIA2 test set 1 (TS 35.217): LENGTH = 88 bits
	var ik [16]byte
	copy(ik[:], unhex("2BD6459F82C5B300952C49104881FF48"))
	m1 := UIA2(ik, 0x38A6F056, 0xB8AEFDA9, 0, unhex("3332346263393861373479"))
	if !bytes.Equal(m1[:], unhex("EE419E0D")) {
		t.Fatalf("UIA2 %x", m1)
	}
	var key [16]byte
	copy(key[:], unhex("d3c5d592327fb11c4035c6680af8c6d1"))
	// 128-EEA2 test set 1 (TS 33.401 C.1.1): key d3c5d592327fb11c4035c6680af8c6d1 count 398a59b4 bearer 15 dir 1 length 253
	pt := unhex("981ba6824c1bfb1ab485472029b71d808ce33e2cc3c0b5fc1f3de8a6dc66b1f0")
	ct := unhex("e9fed8a63d155304d71df20bf3e82214b20ed7dad2f233dc3c22d7bdeeed8e78")
	for j := 0; j < 31; j++ { // the last octet has 3 padding bits in the test set
		if pt[j]^EEA2KeystreamByte(key, 0x398a59b4, 0x15, 1, j) != ct[j] {
			t.Fatalf("EEA2 octet %d", j)
		}
	}
	// 128-EIA2 test set 2 (TS 33.401 C.2.2): whole octets? length 64 bits
	var k2 [16]byte
	copy(k2[:], unhex("d3c5d592327fb11c4035c6680af8c6d1"))
	mac := EIA2(k2, 0x398a59b4, 0x1a, 1, unhex("484583d5afe082ae"))
	if !bytes.Equal(mac[:], unhex("b93787e6")) {
		t.Fatalf("EIA2 %x", mac)
	}
	// AES-CMAC RFC 4493 example 2
	var k3 [16]byte
	copy(k3[:], unhex("2b7e151628aed2a6abf7158809cf4f3c"))
	tag := CMAC(k3, unhex("6bc1bee22e409f96e93d7e117393172a"))
	if !bytes.Equal(tag[:], unhex("070a16b46b4d4144f79bdd9dd04a287c")) {
		t.Fatalf("CMAC %x", tag)
	}
}
