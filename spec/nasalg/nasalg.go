// Package nasalg specifies the 5G NAS confidentiality and integrity
// algorithms: 128-NEA1/128-NIA1 = UEA2/UIA2 (TS 35.215, on SNOW 3G, TS 35.216)
// and 128-NEA2/128-NIA2 = 128-EEA2/128-EIA2 (TS 33.401 Annex B.1.3, B.2.3; TS
// 33.501 Annex D).  AES-128 and AES-CMAC themselves are outside the
// verification and appear as opaque functions.
package nasalg

import (
	"crypto/aes"

	"vspec/snow3gspec"
)

// KeyWords maps the 128-bit key to k0..k3 (TS 35.215 3.4/4.4:
// K3 = CK[0..31], K2 = CK[32..63], K1 = CK[64..95], K0 = CK[96..127]).
func KeyWords(ck [16]byte) [4]uint32 {
	var k [4]uint32
	for i := 0; i < 4; i++ {
		o := 4 * (3 - i)
		k[i] = uint32(ck[o])<<24 | uint32(ck[o+1])<<16 | uint32(ck[o+2])<<8 | uint32(ck[o+3])
	}
	return k
}

// EEA1State is SNOW 3G initialised for f8 (TS 35.215 3.4):
// IV3 = COUNT, IV2 = BEARER||DIRECTION||0^26, IV1 = COUNT, IV0 = BEARER||DIRECTION||0^26.
func EEA1State(ck [16]byte, count, bearer, dir uint32) snow3gspec.State {
	w := bearer<<27 | dir<<26
	return snow3gspec.Init(KeyWords(ck), [4]uint32{w, count, w, count})
}

// wordByte is octet n (0 = most significant) of the 32-bit word w.
func wordByte(w uint32, n int) uint8 { return uint8(w >> (8 * uint(3-n))) }

// EEA1KeystreamByte is octet j of the f8 keystream z1 || z2 || ...
//
//vc:smtfun
func EEA1KeystreamByte(ck [16]byte, count, bearer, dir uint32, j int) uint8 {
	return wordByte(snow3gspec.Z(EEA1State(ck, count, bearer, dir), j/4), j%4)
}

// EEA1 is 128-EEA1 on whole octets: output octet j = input octet j xor keystream octet j.
func EEA1(ck [16]byte, count, bearer, dir uint32, in []byte) []byte {
	out := make([]byte, len(in))
	for j := range in {
		out[j] = in[j] ^ EEA1KeystreamByte(ck, count, bearer, dir, j)
	}
	return out
}

// ---- f9 / 128-EIA1 (TS 35.215 4.x) ----

// MULx64, MULxPOW64, MUL64 (TS 35.215 4.3.1-4.3.3).
func MULx64(v, c uint64) uint64 {
	if v&0x8000000000000000 != 0 {
		return v<<1 ^ c
	}
	return v << 1
}

//vc:smtfun
func MULxPOW64(v uint64, i int, c uint64) uint64 {
	if i <= 0 {
		return v
	}
	return MULx64(MULxPOW64(v, i-1, c), c)
}

func mulFrom(v, p, c uint64, i int) uint64 {
	var r uint64
	for ; i < 64; i++ {
		if (p>>uint(i))&1 == 1 {
			r ^= MULxPOW64(v, i, c)
		}
	}
	return r
}

// MUL64 (4.3.3).
//
//vc:smtfun
func MUL64(v, p, c uint64) uint64 { return mulFrom(v, p, c, 0) }

// EIA1State is SNOW 3G initialised for f9 with FRESH = BEARER||0^27 (TS 33.401 B.2.2):
// IV3 = COUNT, IV2 = FRESH, IV1 = DIRECTION xor COUNT (bit 0), IV0 = FRESH xor DIRECTION<<15.
func EIA1State(ik [16]byte, count, bearer, dir uint32) snow3gspec.State {
	return UIA2State(ik, count, bearer<<27, dir)
}

// UIA2State is SNOW 3G initialised for f9 (TS 35.215 4.4) with an arbitrary FRESH.
func UIA2State(ik [16]byte, count, fresh, dir uint32) snow3gspec.State {
	return snow3gspec.Init(KeyWords(ik), [4]uint32{fresh ^ dir<<15, count ^ dir<<31, fresh, count})
}

// block64 is the i-th 64-bit block of the message, zero padded.
func block64(msg []byte, i int) uint64 {
	var m uint64
	for b := 0; b < 8; b++ {
		m <<= 8
		if 8*i+b < len(msg) {
			m |= uint64(msg[8*i+b])
		}
	}
	return m
}

// EIA1Fold is EVAL after absorbing blocks 0..n-1 (4.4: EVAL = MUL(EVAL xor M_i, P, c)).
//
//vc:smtfun
func EIA1Fold(p uint64, msg []byte, n int) uint64 {
	if n <= 0 {
		return 0
	}
	return MUL64(EIA1Fold(p, msg, n-1)^block64(msg, n-1), p, 0x1b)
}

// EIA1 is 128-EIA1 for a message of whole octets (LENGTH = 8*len(msg) > 0).
func EIA1(ik [16]byte, count, bearer, dir uint32, msg []byte) [4]byte {
	return macFrom(EIA1State(ik, count, bearer, dir), msg)
}

// UIA2 is f9 with an arbitrary FRESH, for a message of whole octets.
func UIA2(ik [16]byte, count, fresh, dir uint32, msg []byte) [4]byte {
	return macFrom(UIA2State(ik, count, fresh, dir), msg)
}

func macFrom(st snow3gspec.State, msg []byte) [4]byte {
	p := uint64(snow3gspec.Z(st, 0))<<32 | uint64(snow3gspec.Z(st, 1))
	q := uint64(snow3gspec.Z(st, 2))<<32 | uint64(snow3gspec.Z(st, 3))
	otp := snow3gspec.Z(st, 4)
	length := uint64(len(msg)) * 8
	d := int((length+63)/64) + 1
	eval := EIA1Fold(p, msg, d-1)
	eval ^= length
	eval = MUL64(eval, q, 0x1b)
	mac := uint32(eval>>32) ^ otp
	return [4]byte{byte(mac >> 24), byte(mac >> 16), byte(mac >> 8), byte(mac)}
}

// ---- 128-EEA2 / 128-EIA2 ----

// AES is AES-128 encryption of one block (FIPS 197); opaque to the verifier.
//
//vc:opaque
func AES(key [16]byte, block [16]byte) [16]byte {
	c, err := aes.NewCipher(key[:])
	if err != nil {
		panic(err)
	}
	var out [16]byte
	c.Encrypt(out[:], block[:])
	return out
}

// add128 adds n to a 128-bit big-endian counter block.
func add128(b [16]byte, n uint64) [16]byte {
	var carry uint64 = n
	for i := 15; i >= 0; i-- {
		s := uint64(b[i]) + (carry & 0xff)
		b[i] = byte(s)
		carry = (carry >> 8) + (s >> 8)
	}
	return b
}

// CTRByte is octet j of the keystream of AES in CTR mode (NIST SP 800-38A) from counter block t1.
func CTRByte(key [16]byte, t1 [16]byte, j int) uint8 {
	blk := AES(key, add128(t1, uint64(j/16)))
	return blk[j%16]
}

// EEA2Counter: T1 = COUNT || BEARER || DIRECTION || 0^26 || 0^64 (TS 33.401 B.1.3).
func EEA2Counter(count uint32, bearer, dir uint8) [16]byte {
	var t [16]byte
	t[0], t[1], t[2], t[3] = byte(count>>24), byte(count>>16), byte(count>>8), byte(count)
	t[4] = bearer<<3 | dir<<2
	return t
}

// EEA2KeystreamByte is octet j of the 128-EEA2 keystream.
//
//vc:smtfun
func EEA2KeystreamByte(key [16]byte, count uint32, bearer, dir uint8, j int) uint8 {
	return CTRByte(key, EEA2Counter(count, bearer, dir), j)
}

// CMAC is AES-CMAC (NIST SP 800-38B / RFC 4493) with a 128-bit tag; opaque to the verifier.
//
//vc:opaque
func CMAC(key [16]byte, msg []byte) [16]byte { return cmacNative(key, msg) }

// EIA2Header: M0..M63 = COUNT || BEARER || DIRECTION || 0^26 (TS 33.401 B.2.3).
func EIA2Header(count uint32, bearer, dir uint8) [8]byte {
	return [8]byte{byte(count >> 24), byte(count >> 16), byte(count >> 8), byte(count), bearer<<3 | dir<<2, 0, 0, 0}
}

// EIA2 is 128-EIA2: the 32 most significant bits of AES-CMAC over header || message.
func EIA2(key [16]byte, count uint32, bearer, dir uint8, msg []byte) [4]byte {
	h := EIA2Header(count, bearer, dir)
	m := make([]byte, len(msg)+8)
	copy(m, h[:])
	copy(m[8:], msg)
	t := CMAC(key, m)
	return [4]byte{t[0], t[1], t[2], t[3]}
}
