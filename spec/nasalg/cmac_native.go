package nasalg

// Native AES-CMAC (RFC 4493) used when spec functions are executed for replay.

func cmacNative(key [16]byte, msg []byte) [16]byte {
	var zero [16]byte
	l := AES(key, zero)
	k1 := dbl(l)
	k2 := dbl(k1)
	n := (len(msg) + 15) / 16
	complete := n > 0 && len(msg)%16 == 0
	if n == 0 {
		n = 1
	}
	var x [16]byte
	for i := 0; i < n-1; i++ {
		for j := 0; j < 16; j++ {
			x[j] ^= msg[16*i+j]
		}
		x = AES(key, x)
	}
	var last [16]byte
	rem := msg[16*(n-1):]
	copy(last[:], rem)
	if complete {
		for j := range last {
			last[j] ^= k1[j]
		}
	} else {
		last[len(rem)] = 0x80
		for j := range last {
			last[j] ^= k2[j]
		}
	}
	for j := 0; j < 16; j++ {
		x[j] ^= last[j]
	}
	return AES(key, x)
}

func dbl(b [16]byte) [16]byte {
	var r [16]byte
	var carry byte
	for i := 15; i >= 0; i-- {
		r[i] = b[i]<<1 | carry
		carry = b[i] >> 7
	}
	if carry != 0 {
		r[15] ^= 0x87
	}
	return r
}
