// Package nas24501 holds specification functions transcribed from 3GPP
// TS 24.501 (5GS NAS), written from the standard's message tables and not
// from the code under verification.
package nas24501

// ---- PDU SESSION ESTABLISHMENT ACCEPT inside a protected DL NAS TRANSPORT ----
//
// Octets of the NAS-PDU handed to the extractor (TS 24.501 9.1.1, 8.2.11, 8.3.2):
//
//	0..6   security protected 5GS NAS message header: EPD, security header type, MAC (4), sequence number
//	7..9   DL NAS TRANSPORT: EPD 7E, security header type 0, message type 68
//	10     payload container type (low nibble) | spare
//	11..12 payload container length L (LV-E)
//	13..   payload container: the 5GSM message, L octets; after it the optional IEs of DL NAS TRANSPORT
//
// 5GSM message PDU SESSION ESTABLISHMENT ACCEPT (table 8.3.2.1.1):
//
//	+0 EPD 2E, +1 PDU session ID, +2 PTI, +3 message type C2,
//	+4 selected SSC mode | selected PDU session type (two half octets)
//	+5 authorized QoS rules, LV-E: length Q (2 octets), then Q octets
//	+7+Q session AMBR, LV: length octet (6) and 6 octets
//	+14+Q optional IEs up to the end of the payload container
const (
	HdrLen      = 7  // security header
	PayloadAt   = 13 // first octet of the payload container
	PayloadLenAt = 11
)

func be16(b []byte, i int) int { return int(b[i])<<8 | int(b[i+1]) }

// PayloadEnd is the index just after the payload container.
func PayloadEnd(b []byte) int { return PayloadAt + be16(b, PayloadLenAt) }

// OptStart is the index of the first optional IE of the Accept.
func OptStart(b []byte) int { return PayloadAt + 5 + 2 + be16(b, PayloadAt+5) + 7 }

// Formats of the optional IEs of table 8.3.2.1.1 (TS 24.007 11.2.1.1):
// 1 = TV with a half-octet IEI (one octet), 2 = TV of two octets,
// 4 = TLV (one length octet), 6 = TLV-E (two length octets), 0 = IEI not in the table.
func AcceptIEFormat(iei byte) int {
	if iei&0xf0 == 0x80 || iei&0xf0 == 0xC0 { // 8- always-on PDU session indication, C- control plane only indication
		return 1
	}
	switch iei {
	case 0x59, 0x56: // 5GSM cause, RQ timer value
		return 2
	case 0x29, 0x22, 0x25, 0x17, 0x18, 0x66, 0x1F: // PDU address, S-NSSAI, DNN, 5GSM network feature support, serving PLMN rate control, IP / Ethernet header compression configuration
		return 4
	case 0x75, 0x78, 0x79, 0x7B, 0x77: // mapped EPS bearer contexts, EAP message, authorized QoS flow descriptions, extended PCO, ATSSS container
		return 6
	}
	return 0
}

// AcceptIELen is the number of octets the optional IE starting at b[i] occupies
// (0 when the IEI is not in the table or the length field does not fit before end).
func AcceptIELen(b []byte, i, end int) int {
	switch AcceptIEFormat(b[i]) {
	case 1:
		return 1
	case 2:
		return 2
	case 4:
		if i+2 > end {
			return 0
		}
		return 2 + int(b[i+1])
	case 6:
		if i+3 > end {
			return 0
		}
		return 3 + be16(b, i+1)
	}
	return 0
}

// fixedLenOK: the TLV IEs whose length the table fixes carry that length
// (serving PLMN rate control: 4 octets in all; Ethernet header compression configuration: 3).
func fixedLenOK(b []byte, i int) bool {
	switch b[i] {
	case 0x18:
		return b[i+1] == 2
	case 0x1F:
		return b[i+1] == 1
	}
	return true
}

// AcceptWF: from index i on, the optional part consists of table IEs that fit
// before end, up to and including a PDU address IE (IEI 29) of PDU session type
// IPv4 (length 5: type octet and four address octets).
//
//vc:smtfun
func AcceptWF(b []byte, i, end int) bool {
	if i < 0 || i >= end || end > len(b) {
		return false
	}
	if b[i] == 0x29 {
		return i+7 <= end && b[i+1] == 5 && b[i+2]&0x07 == 1
	}
	n := AcceptIELen(b, i, end)
	if n <= 0 || i+n > end || !fixedLenOK(b, i) {
		return false
	}
	return AcceptWF(b, i+n, end)
}

// AcceptFindAddr is the index of the first PDU address IE at or after i (end if there is none).
//
//vc:smtfun
func AcceptFindAddr(b []byte, i, end int) int {
	if i < 0 || i >= end || end > len(b) {
		return end
	}
	if b[i] == 0x29 {
		return i
	}
	n := AcceptIELen(b, i, end)
	if n <= 0 || i+n > end {
		return end
	}
	return AcceptFindAddr(b, i+n, end)
}

// AcceptMsgWF: b is a protected DL NAS TRANSPORT carrying an Accept whose fixed
// part fits and whose optional part is well formed and contains an IPv4 PDU address.
func AcceptMsgWF(b []byte) bool {
	if len(b) < PayloadAt+14 || len(b) >= 1<<16 {
		return false
	}
	end := PayloadEnd(b)
	if end > len(b) || PayloadAt+5+2 > end {
		return false
	}
	start := OptStart(b)
	return start <= end && AcceptWF(b, start, end)
}

// AcceptPDUAddressAt is the index in b of the first of the four IPv4 address octets.
func AcceptPDUAddressAt(b []byte) int {
	return AcceptFindAddr(b, OptStart(b), PayloadEnd(b)) + 3
}
