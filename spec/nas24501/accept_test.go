package nas24501

import "testing"

// A protected DL NAS TRANSPORT carrying a PDU SESSION ESTABLISHMENT ACCEPT as free5GC sends it.
func sample() []byte {
	accept := []byte{0x2e, 0x0a, 0x01, 0xc2, 0x11, // EPD, PSI 10, PTI 1, type, SSC mode 1 | IPv4
		0x00, 0x09, 0x01, 0x00, 0x06, 0x31, 0x31, 0x01, 0x01, 0xff, 0x09, // QoS rules (9 octets)
		0x06, 0x06, 0x03, 0xe8, 0x06, 0x03, 0xe8, // session AMBR
		0x59, 0x32, // 5GSM cause
		0x29, 0x05, 0x01, 0x3c, 0x3c, 0x00, 0x01, // PDU address 60.60.0.1
		0x22, 0x04, 0x01, 0x01, 0x02, 0x03, // S-NSSAI
		0x79, 0x00, 0x06, 0x09, 0x20, 0x41, 0x01, 0x01, 0x09, // QoS flow descriptions
		0x25, 0x09, 0x08, 'i', 'n', 't', 'e', 'r', 'n', 'e', 't'}
	b := []byte{0x7e, 0x02, 1, 2, 3, 4, 0x05, 0x7e, 0x00, 0x68, 0x01, byte(len(accept) >> 8), byte(len(accept))}
	b = append(b, accept...)
	return append(b, 0x12, 0x0a) // PDU session ID IE of DL NAS TRANSPORT
}

func TestAcceptSample(t *testing.T) {
	b := sample()
	if !AcceptMsgWF(b) {
		t.Fatal("sample not well formed")
	}
	at := AcceptPDUAddressAt(b)
	if b[at] != 0x3c || b[at+1] != 0x3c || b[at+2] != 0 || b[at+3] != 1 {
		t.Fatalf("address at %d: % x", at, b[at:at+4])
	}
	// an IEI outside the table makes it ill-formed
	c := append([]byte{}, b...)
	c[PayloadAt+23] = 0x01
	if AcceptMsgWF(c) {
		t.Fatal("unknown IEI accepted")
	}
}
