// Package vc holds the verification intrinsics used by generated contract
// harnesses, hand-written lemma harnesses and spec functions.  Natively they
// have an executable meaning (used by replay); the symbolic executor govc
// recognises them by name and gives them their logical meaning.
package vc

import "fmt"

// Failure is raised (as a panic) by a natively executed harness when a
// clause evaluates to false on the real code.
type Failure struct {
	Kind  string
	Label string
}

func (f Failure) Error() string { return fmt.Sprintf("%s:%s violated", f.Kind, f.Label) }

// Skip is raised when a Requires/Assume clause is false for the replayed
// input (the model was spurious for the real code).
type Skip struct{ Label string }

// Requires: precondition clause of a contract.
func Requires(label string, cond bool) {
	if !cond {
		panic(Skip{label})
	}
}

// Assume: harness-level assumption.
func Assume(cond bool) {
	if !cond {
		panic(Skip{"assume"})
	}
}

// Ensures: postcondition clause of a contract.
func Ensures(label string, cond bool) {
	if !cond {
		panic(Failure{"ensures", label})
	}
}

// Assert: lemma / harness assertion.
func Assert(label string, cond bool) {
	if !cond {
		panic(Failure{"assert", label})
	}
}

// Imp is logical implication.
func Imp(a, b bool) bool { return !a || b }

// Forall quantifies over lo <= i < hi.
func Forall(lo, hi int, p func(i int) bool) bool {
	for i := lo; i < hi; i++ {
		if !p(i) {
			return false
		}
	}
	return true
}

// Exists quantifies over lo <= i < hi.
func Exists(lo, hi int, p func(i int) bool) bool {
	for i := lo; i < hi; i++ {
		if p(i) {
			return true
		}
	}
	return false
}

// CallSite marks, inside a generated contract harness, the call of the
// function under contract (the next static call instruction).
func CallSite() { Called = true }

// Called tells (natively) whether the harness has reached the call of the function under contract.
var Called bool

// Havoc* return an arbitrary value (symbolically: fresh; natively: zero —
// harnesses that use them are replayed with model-provided inputs instead).
func HavocU8() uint8   { return 0 }
func HavocU16() uint16 { return 0 }
func HavocU32() uint32 { return 0 }
func HavocU64() uint64 { return 0 }
func HavocInt() int    { return 0 }
func HavocBool() bool  { return false }

// HavocBytes returns an arbitrary byte slice of length n.
func HavocBytes(n int) []byte { return make([]byte, n) }

// Assigns declares, inside a contract harness, the locations (pointers or
// slices) the function under contract may modify: its frame.
func Assigns(locs ...interface{}) {}

// AssignsGlobal adds package-level variables of other packages (by full
// name, e.g. "free5gclib/nas/security/snow3g.lfsr") to the frame.
func AssignsGlobal(names ...string) {}

// Ghost logs: histories written by the contracts of trusted calls (e.g. the
// bytes handed to an abstract decoder, the messages written to a connection).
// They exist only for the verifier; natively a harness that reads them cannot
// be evaluated and is skipped.
func GhostLog(name string, b []byte) {}
func GhostLen(name string) int     { panic(Skip{"ghost log " + name}) }

// GhostBytes returns entry i of the log (negative i counts from the end).
func GhostBytes(name string, i int) []byte { panic(Skip{"ghost log " + name}) }

// GhostIs: v equals the single value recorded in the ghost log (verifier only).
func GhostIs(name string, v interface{}) bool { panic(Skip{"ghost log " + name}) }

// Faulted: on the current path of a driver-level procedure a fault has been raised: the N2
// association failed, a consumed reply was not a decodable NGAP message, or a message builder
// returned an error (verifier only).
func Faulted() bool { panic(Skip{"fault flag"}) }
