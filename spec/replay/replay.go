// Package replay drives a natively compiled contract or lemma harness with
// concrete inputs: first the candidates written by govc (solver models),
// then generated ones.  It reports whether a clause fails on the real code.
package replay

import (
	"encoding/json"
	"fmt"
	"math/big"
	"math/rand"
	"os"
	"reflect"
	"strconv"
	"strings"
	"time"
	"unsafe"

	"vspec/vc"
)

// Candidate is one input assignment: scalar paths -> value (hex), arrays -> length and elements.
type Candidate struct {
	Scalars map[string]string   `json:"scalars"`
	Arrays  map[string]ArrayVal `json:"arrays"`
	Origin  string              `json:"origin"`
}

type ArrayVal struct {
	Len   int      `json:"len"`
	Elems []string `json:"elems"`
}

type File struct {
	Obligation string      `json:"obligation"`
	Candidates []Candidate `json:"candidates"`
	Budget     int         `json:"budget_ms"`
	Random     int         `json:"random_tries"`
	Class      string      `json:"class"`
	Shapes     map[string]int `json:"shapes"`
}

// Gen fills values from a candidate, falling back to pseudo-random choices.
type Gen struct {
	shapes map[string]int
	c     *Candidate
	rnd   *rand.Rand
	small int
	Used  map[string]string
}

func (g *Gen) scalar(path string, bits int) uint64 {
	if g.c != nil {
		if s, ok := g.c.Scalars[path]; ok {
			v, _ := new(big.Int).SetString(strings.TrimPrefix(s, "0x"), 16)
			if v != nil {
				return v.Uint64()
			}
		}
	}
	var v uint64
	switch g.rnd.Intn(4) {
	case 0:
		v = 0
	case 1:
		v = uint64(g.rnd.Intn(4))
	case 2:
		v = ^uint64(0)
	default:
		v = g.rnd.Uint64()
	}
	if bits < 64 {
		v &= (1 << uint(bits)) - 1
	}
	return v
}

// Fill sets *p (p is a pointer) using path as the name of the value.
func (g *Gen) Fill(p interface{}, path string) {
	g.fill(reflect.ValueOf(p).Elem(), path, 3)
}

func settable(v reflect.Value) reflect.Value {
	if v.CanSet() {
		return v
	}
	if v.CanAddr() {
		return reflect.NewAt(v.Type(), unsafe.Pointer(v.UnsafeAddr())).Elem()
	}
	return v
}

func (g *Gen) fill(v reflect.Value, path string, depth int) {
	v = settable(v)
	switch v.Kind() {
	case reflect.Bool:
		x := g.scalar(path, 1) != 0
		v.SetBool(x)
		g.note(path, x)
	case reflect.Int, reflect.Int8, reflect.Int16, reflect.Int32, reflect.Int64:
		bits := v.Type().Bits()
		x := g.scalar(path, bits)
		sx := int64(x)
		if bits < 64 {
			sx = int64(x<<uint(64-bits)) >> uint(64-bits)
		}
		v.SetInt(sx)
		g.note(path, sx)
	case reflect.Uint, reflect.Uint8, reflect.Uint16, reflect.Uint32, reflect.Uint64, reflect.Uintptr:
		x := g.scalar(path, v.Type().Bits())
		v.SetUint(x)
		g.note(path, x)
	case reflect.String:
		n, elems := g.array(path, 8)
		b := make([]byte, n)
		for i := range b {
			b[i] = byte(elems(i))
		}
		v.SetString(string(b))
		g.note(path, string(b))
	case reflect.Array:
		for i := 0; i < v.Len(); i++ {
			g.fill(v.Index(i), fmt.Sprintf("%s[%d]", path, i), depth)
		}
	case reflect.Struct:
		for i := 0; i < v.NumField(); i++ {
			g.fill(v.Field(i), path+"."+v.Type().Field(i).Name, depth)
		}
	case reflect.Slice:
		et := v.Type().Elem()
		switch et.Kind() {
		case reflect.Uint8, reflect.Uint16, reflect.Uint32, reflect.Uint64, reflect.Int8, reflect.Int16, reflect.Int32, reflect.Int64, reflect.Int, reflect.Uint:
			if g.scalar(path+"!nil", 1) != 0 && g.has(path+"!nil") {
				v.Set(reflect.Zero(v.Type()))
				g.note(path, "nil")
				return
			}
			n, elems := g.array(path, et.Bits())
			s := reflect.MakeSlice(v.Type(), n, n)
			for i := 0; i < n; i++ {
				if et.Kind() >= reflect.Int && et.Kind() <= reflect.Int64 {
					s.Index(i).SetInt(int64(elems(i)))
				} else {
					s.Index(i).SetUint(elems(i))
				}
			}
			v.Set(s)
			if n > 48 {
				g.note(path, fmt.Sprintf("len %d %v ...", n, s.Slice(0, 48).Interface()))
			} else {
				g.note(path, fmt.Sprintf("len %d %v", n, s.Interface()))
			}
		default:
			n := g.shapeLen(path)
			s := reflect.MakeSlice(v.Type(), n, n)
			for i := 0; i < n; i++ {
				g.fill(s.Index(i), fmt.Sprintf("%s[%d]", path, i), depth)
			}
			v.Set(s)
		}
	case reflect.Ptr:
		if depth <= 0 || (g.has(path+"!nil") && g.scalar(path+"!nil", 1) != 0) {
			v.Set(reflect.Zero(v.Type()))
			g.note(path, "nil")
			return
		}
		n := reflect.New(v.Type().Elem())
		g.fill(n.Elem(), "*"+path, depth-1)
		v.Set(n)
	case reflect.Interface:
		if v.Type().String() == "error" && g.scalar(path+"!nil", 1) == 0 && g.has(path+"!nil") {
			v.Set(reflect.ValueOf(fmt.Errorf("replay error")))
		}
	}
}

func (g *Gen) has(path string) bool {
	if g.c == nil {
		return false
	}
	_, ok := g.c.Scalars[path]
	return ok
}

func (g *Gen) shapeLen(path string) int {
	if sn, ok := g.shapes[strings.TrimLeft(path, "*")]; ok {
		return sn
	}
	if g.c != nil {
		if a, ok := g.c.Arrays[path]; ok {
			return a.Len
		}
	}
	return 0
}

func (g *Gen) array(path string, bits int) (int, func(i int) uint64) {
	var av *ArrayVal
	if g.c != nil {
		if a, ok := g.c.Arrays[path]; ok {
			av = &a
		}
	}
	n := 0
	if av != nil {
		n = av.Len
		if n > 1<<20 {
			n = 1 << 20
		}
	} else {
		n = g.rnd.Intn(g.small + 1)
	}
	if sn, ok := g.shapes[strings.TrimLeft(path, "*")]; ok {
		// fixed-shape parameter: elements are scalars named path[i]
		return sn, func(i int) uint64 { return g.scalar(fmt.Sprintf("%s[%d]", path, i), bits) }
	}
	mode := g.rnd.Intn(3)
	return n, func(i int) uint64 {
		if av != nil && i < len(av.Elems) && av.Elems[i] != "" {
			v, _ := new(big.Int).SetString(strings.TrimPrefix(av.Elems[i], "0x"), 16)
			if v != nil {
				return v.Uint64()
			}
		}
		var x uint64
		switch mode {
		case 0:
			x = 0
		case 1:
			x = uint64(i + 1)
		default:
			x = g.rnd.Uint64()
		}
		if bits < 64 {
			x &= (1 << uint(bits)) - 1
		}
		return x
	}
}

func (g *Gen) note(path string, v interface{}) {
	if len(g.Used) < 60 {
		g.Used[path] = fmt.Sprint(v)
	}
}

// Outcome of one native execution of the harness.
type Outcome struct {
	Kind   string // fail | skip | pass | panic | timeout
	Detail string
	Inputs map[string]string
}

func runOnce(g *Gen, body func(g *Gen), limit time.Duration) (out Outcome) {
	done := make(chan Outcome, 1)
	go func() {
		var o Outcome
		defer func() {
			if r := recover(); r != nil {
				switch e := r.(type) {
				case vc.Failure:
					o = Outcome{Kind: "fail", Detail: e.Error()}
				case vc.Skip:
					o = Outcome{Kind: "skip", Detail: e.Label}
				default:
					if !vc.Called {
						// a run-time panic while evaluating the preconditions: the input is outside the domain
						o = Outcome{Kind: "skip", Detail: "precondition not evaluable: " + fmt.Sprint(r)}
					} else {
						o = Outcome{Kind: "panic", Detail: fmt.Sprint(r)}
					}
				}
			}
			o.Inputs = g.Used
			done <- o
		}()
		vc.Called = false
		body(g)
		o = Outcome{Kind: "pass"}
	}()
	select {
	case o := <-done:
		return o
	case <-time.After(limit):
		return Outcome{Kind: "timeout", Detail: "no result within " + limit.String(), Inputs: g.Used}
	}
}

// Main runs the candidates, then generated inputs; it prints one line
// "VERIF-REPLAY confirmed=<bool> ..." and details as JSON.
func Main(body func(g *Gen)) {
	var f File
	if p := os.Getenv("VERIF_REPLAY_INPUT"); p != "" {
		data, err := os.ReadFile(p)
		if err == nil {
			json.Unmarshal(data, &f)
		}
	}
	seed := int64(1)
	if s := os.Getenv("VERIF_SEED"); s != "" {
		if v, err := strconv.ParseInt(s, 10, 64); err == nil {
			seed = v
		}
	}
	rnd := rand.New(rand.NewSource(seed))
	limit := 5 * time.Second
	report := func(o Outcome, origin string, tries int) {
		res := map[string]interface{}{"kind": o.Kind, "detail": o.Detail, "inputs": o.Inputs, "origin": origin, "tries": tries, "obligation": f.Obligation}
		data, _ := json.Marshal(res)
		fmt.Printf("VERIF-REPLAY confirmed=true %s\n", data)
	}
	isViolation := func(o Outcome) bool {
		switch o.Kind {
		case "fail":
			return true
		case "panic":
			// a run-time panic confirms a safety obligation; for other classes the input
			// may lie outside the domain of an assumed (trusted) callee contract
			return f.Class == "S" || f.Class == "U" || f.Class == "P"
		case "timeout":
			return f.Class == "D" || f.Class == "U"
		}
		return false
	}
	tries := 0
	skips := 0
	for i := range f.Candidates {
		c := &f.Candidates[i]
		for rep := 0; rep < 3; rep++ {
			g := &Gen{shapes: f.Shapes, c: c, rnd: rnd, small: 8, Used: map[string]string{}}
			o := runOnce(g, body, limit)
			tries++
			if o.Kind == "skip" {
				skips++
			}
			if isViolation(o) {
				report(o, c.Origin, tries)
				return
			}
		}
	}
	deadline := time.Now().Add(time.Duration(f.Budget) * time.Millisecond)
	for i := 0; i < f.Random && time.Now().Before(deadline); i++ {
		var c *Candidate
		if len(f.Candidates) > 0 && i%2 == 0 {
			c = &f.Candidates[rnd.Intn(len(f.Candidates))]
		}
		g := &Gen{shapes: f.Shapes, c: c, rnd: rnd, small: 1 + i%17, Used: map[string]string{}}
		o := runOnce(g, body, limit)
		tries++
		if o.Kind == "skip" {
			skips++
		}
		if isViolation(o) {
			report(o, "generated", tries)
			return
		}
	}
	fmt.Printf("VERIF-REPLAY confirmed=false {\"tries\":%d,\"skipped\":%d}\n", tries, skips)
}
