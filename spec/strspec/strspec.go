// Package strspec specifies the textual conversions of the Go standard library
// that the code under verification relies on (assumed contracts of strconv).
package strspec

// IsDecimal: s consists of 1..18 ASCII decimal digits (no sign), so that its value fits an int64.
//
//vc:smtfun
func IsDecimal(s string) bool {
	if len(s) < 1 || len(s) > 18 {
		return false
	}
	return digitsFrom(s, 0)
}

//vc:smtfun
func digitsFrom(s string, i int) bool {
	if i >= len(s) {
		return true
	}
	if s[i] < '0' || s[i] > '9' {
		return false
	}
	return digitsFrom(s, i+1)
}

// Atoi is the value of the decimal numeral s.
//
//vc:smtfun
func Atoi(s string) int { return atoiPrefix(s, len(s)) }

// atoiPrefix is the value of the first n digits of s.
//
//vc:smtfun
func atoiPrefix(s string, n int) int {
	if n <= 0 {
		return 0
	}
	return atoiPrefix(s, n-1)*10 + int(s[n-1]-'0')
}
