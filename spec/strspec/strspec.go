// Package strspec specifies the textual conversions of the Go standard library
// that the code under verification relies on (assumed contracts of strconv).
package strspec

// IsDecimal: s consists of 1..18 ASCII decimal digits (no sign), so that its value fits an int64.
//
//vc:smtfun
func IsDecimal(s string) bool {
	if len(s) < 1 || len(s) > 18 {
		return false
	}
	return digitsFrom(s, 0)
}

//vc:smtfun
func digitsFrom(s string, i int) bool {
	if i >= len(s) {
		return true
	}
	if s[i] < '0' || s[i] > '9' {
		return false
	}
	return digitsFrom(s, i+1)
}

// Atoi is the value of the decimal numeral s.
//
//vc:smtfun
func Atoi(s string) int { return atoiPrefix(s, len(s)) }

// atoiPrefix is the value of the first n digits of s.
//
//vc:smtfun
func atoiPrefix(s string, n int) int {
	if n <= 0 {
		return 0
	}
	return atoiPrefix(s, n-1)*10 + int(s[n-1]-'0')
}

// Value is the value of the decimal numeral s (for strings whose length is known).
func Value(s string) int {
	v := 0
	for i := 0; i < len(s); i++ {
		v = v*10 + int(s[i]-'0')
	}
	return v
}

// FormatDec is the decimal numeral of n >= 0, zero-padded on the left to at least w digits
// (fmt.Sprintf("%0*d", w, n)).  To the verifier it is an uninterpreted string characterised by:
// for 0 <= n < 10^w it has exactly w decimal digits whose value is n.
//
//vc:string-uf
func FormatDec(n int, w int) string {
	var d []byte
	for n > 0 {
		d = append([]byte{byte('0' + n%10)}, d...)
		n /= 10
	}
	for len(d) < w || len(d) == 0 {
		d = append([]byte{'0'}, d...)
	}
	return string(d)
}
