package strspec

import (
	"fmt"
	"testing"
)

func TestFormatDec(t *testing.T) {
	for _, c := range []struct{ n, w int }{{0, 1}, {0, 5}, {7, 1}, {7, 3}, {1234, 2}, {1234, 15}, {999999999999999, 15}, {1010000000001, 15}} {
		if got, want := FormatDec(c.n, c.w), fmt.Sprintf("%0*d", c.w, c.n); got != want {
			t.Fatalf("%d %d: %q %q", c.n, c.w, got, want)
		}
		if Value(FormatDec(c.n, c.w)) != c.n || Atoi(FormatDec(c.n, c.w)) != c.n {
			t.Fatal("value")
		}
	}
	if !IsDecimal("001010000000001") || IsDecimal("") || IsDecimal("12a") {
		t.Fatal("IsDecimal")
	}
}
