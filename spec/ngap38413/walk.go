package ngap38413

import "fmt"

// An independent walker of the ALIGNED PER encoding of an NGAP-PDU down to its IE container,
// written from TS 38.413 9.4 and X.691 (it shares nothing with the codec under verification).
//
//	NGAP-PDU ::= CHOICE { initiatingMessage, successfulOutcome, unsuccessfulOutcome, ... }
//	InitiatingMessage ::= SEQUENCE { procedureCode INTEGER (0..255), criticality ENUMERATED {reject, ignore, notify}, value OPEN TYPE }
//	the value is a SEQUENCE { protocolIEs ProtocolIE-Container, ... }; a container is SEQUENCE (SIZE (0..65535)) OF
//	ProtocolIE-Field ::= SEQUENCE { id INTEGER (0..65535), criticality, value OPEN TYPE }

type IE struct {
	ID          int
	Criticality int
	Value       []byte
}

type PDU struct {
	Class       int // 0 initiating message, 1 successful outcome, 2 unsuccessful outcome
	Procedure   int
	Criticality int
	IEs         []IE
}

func lengthDet(b []byte, i int) (n, next int, err error) {
	if i >= len(b) {
		return 0, 0, fmt.Errorf("truncated length")
	}
	if b[i]&0x80 == 0 {
		return int(b[i]), i + 1, nil
	}
	if b[i]&0x40 == 0 {
		if i+1 >= len(b) {
			return 0, 0, fmt.Errorf("truncated length")
		}
		return int(b[i]&0x3f)<<8 | int(b[i+1]), i + 2, nil
	}
	return 0, 0, fmt.Errorf("fragmented length not supported by the walker")
}

// Walk parses the octets of an NGAP PDU.
func Walk(b []byte) (*PDU, error) {
	if len(b) < 4 {
		return nil, fmt.Errorf("too short")
	}
	if b[0]&0x80 != 0 {
		return nil, fmt.Errorf("extended CHOICE alternative")
	}
	p := &PDU{Class: int(b[0]>>5) & 3, Procedure: int(b[1]), Criticality: int(b[2] >> 6)}
	n, i, err := lengthDet(b, 3)
	if err != nil {
		return nil, err
	}
	if i+n != len(b) {
		return nil, fmt.Errorf("open type length %d does not match %d remaining octets", n, len(b)-i)
	}
	v := b[i:]
	if len(v) < 3 {
		return nil, fmt.Errorf("value too short")
	}
	if v[0]&0x80 != 0 {
		return nil, fmt.Errorf("message extension present")
	}
	count := int(v[1])<<8 | int(v[2])
	j := 3
	for k := 0; k < count; k++ {
		if j+3 > len(v) {
			return nil, fmt.Errorf("IE %d truncated", k)
		}
		ie := IE{ID: int(v[j])<<8 | int(v[j+1]), Criticality: int(v[j+2] >> 6)}
		l, nx, err := lengthDet(v, j+3)
		if err != nil {
			return nil, err
		}
		if nx+l > len(v) {
			return nil, fmt.Errorf("IE %d value truncated", k)
		}
		ie.Value = v[nx : nx+l]
		j = nx + l
		p.IEs = append(p.IEs, ie)
	}
	if j != len(v) {
		return nil, fmt.Errorf("%d octets after the last IE", len(v)-j)
	}
	return p, nil
}

// DecodeLargeInteger decodes an INTEGER (0..max) with a range above 64K from the start of an open-type value:
// length-1 in the minimal number of bits for 1..octets(max), padding to the octet boundary, the octets (X.691 10.5.7.4).
func DecodeLargeInteger(v []byte, maxOctets int) (int64, error) {
	bits := 0
	for (1 << uint(bits)) < maxOctets {
		bits++
	}
	if len(v) < 1 {
		return 0, fmt.Errorf("empty")
	}
	l := int(v[0]>>uint(8-bits)) + 1
	if v[0]&(0xff>>uint(bits)) != 0 {
		return 0, fmt.Errorf("padding bits set")
	}
	if len(v) != 1+l {
		return 0, fmt.Errorf("length %d does not match %d octets", l, len(v)-1)
	}
	var x int64
	for _, o := range v[1:] {
		x = x<<8 | int64(o)
	}
	return x, nil
}
