package ngap38413

// Constants of TS 38.413 (NGAP), transcribed from the ASN.1 of clause 9.4 (NGAP-Constants,
// NGAP-CommonDataTypes) — not from the library under verification.

// Criticality ::= ENUMERATED { reject, ignore, notify }
const (
	Reject = 0
	Ignore = 1
	Notify = 2
)

// ProcedureCode values (9.4.7 "Elementary Procedures").
const (
	ProcDownlinkNASTransport       = 4
	ProcHandoverNotification       = 11
	ProcHandoverPreparation        = 12
	ProcHandoverResourceAllocation = 13
	ProcPathSwitchRequest          = 25
	ProcInitialContextSetup        = 14
	ProcInitialUEMessage           = 15
	ProcNGSetup                    = 21
	ProcPDUSessionResourceRelease  = 28
	ProcPDUSessionResourceSetup    = 29
	ProcUEContextRelease           = 41
	ProcUEContextReleaseRequest    = 42
	ProcUplinkNASTransport         = 46
)

// ProtocolIE-ID values (9.4.7 "IEs").
const (
	IEAllowedNSSAI                              = 0
	IEAMFUENGAPID                               = 10
	IECause                                     = 15
	IEHandoverType                              = 29
	IEPDUSessionResourceAdmittedList            = 53
	IEPDUSessionResourceFailedToSetupListHOAck  = 56
	IEPDUSessionResourceListHORqd               = 61
	IEPDUSessionResourceToBeSwitchedDLList      = 76
	IESourceAMFUENGAPID                         = 100
	IESourceToTargetTransparentContainer        = 101
	IETargetID                                  = 105
	IETargetToSourceTransparentContainer        = 106
	IEUESecurityCapabilities                    = 119
	IEPDUSessionResourceListCxtRelReq           = 133
	IECriticalityDiagnostics                    = 19
	IEDefaultPagingDRX                          = 21
	IEFiveGSTMSI                                = 26
	IEGlobalRANNodeID                           = 27
	IENASPDU                                    = 38
	IEPDUSessionResourceFailedToSetupListCxtRes = 55
	IEPDUSessionResourceListCxtRelCpl           = 60
	IEPDUSessionResourceReleasedListRelRes      = 70
	IEPDUSessionResourceSetupListCxtRes         = 72
	IEPDUSessionResourceSetupListSURes          = 75
	IERANNodeName                               = 82
	IERANUENGAPID                               = 85
	IERRCEstablishmentCause                     = 90
	IESupportedTAList                           = 102
	IEUEContextRequest                          = 112
	IEUserLocationInformation                   = 121
)

// The IE tables of clause 9.2 for the messages the emulator sends, as (id, criticality) pairs in
// the order of the tables; only the IEs the emulator includes are listed, mandatory ones marked M.
//
//	9.2.6.1 NG SETUP REQUEST (initiating, reject): GlobalRANNodeID M reject; RANNodeName O ignore; SupportedTAList M reject; DefaultPagingDRX M ignore
//	9.2.5.1 INITIAL UE MESSAGE (initiating, ignore): RAN-UE-NGAP-ID M reject; NAS-PDU M reject; UserLocationInformation M reject; RRCEstablishmentCause M ignore; 5G-S-TMSI O reject; UEContextRequest O ignore
//	9.2.5.3 UPLINK NAS TRANSPORT (initiating, ignore): AMF-UE-NGAP-ID M reject; RAN-UE-NGAP-ID M reject; NAS-PDU M reject; UserLocationInformation M ignore
//	9.2.2.2 INITIAL CONTEXT SETUP RESPONSE (successful outcome, reject): AMF-UE-NGAP-ID M ignore; RAN-UE-NGAP-ID M ignore; PDUSessionResourceSetupListCxtRes O ignore; PDUSessionResourceFailedToSetupListCxtRes O ignore
//	9.2.1.2 PDU SESSION RESOURCE SETUP RESPONSE (successful outcome, reject): AMF-UE-NGAP-ID M ignore; RAN-UE-NGAP-ID M ignore; PDUSessionResourceSetupListSURes O ignore
//	9.2.1.4 PDU SESSION RESOURCE RELEASE RESPONSE (successful outcome, reject): AMF-UE-NGAP-ID M ignore; RAN-UE-NGAP-ID M ignore; PDUSessionResourceReleasedListRelRes M ignore
//	9.2.2.6 UE CONTEXT RELEASE COMPLETE (successful outcome, reject): AMF-UE-NGAP-ID M ignore; RAN-UE-NGAP-ID M ignore; UserLocationInformation O ignore; PDUSessionResourceListCxtRelCpl O reject
