// Package ngap38413 holds specification functions transcribed from 3GPP
// TS 38.413 (NGAP) and its ALIGNED PER encoding (ITU-T X.691), written from
// the standards and not from the code under verification.
package ngap38413

// ---- PDUSessionResourceSetupRequestTransfer (TS 38.413 9.3.4.1) ----
//
//	PDUSessionResourceSetupRequestTransfer ::= SEQUENCE { protocolIEs ProtocolIE-Container {...}, ... }
//
// ALIGNED PER: octet 0 holds the extension bit of the SEQUENCE (then padding),
// octets 1..2 the number of ProtocolIE-Fields (SIZE (0..65535): 16 bits,
// aligned).  Each field is: id INTEGER (0..65535) in two octets, criticality
// (2 bits, rest of the octet is padding before the aligned open type), the
// open-type length determinant (one octet for lengths below 128, X.691
// 10.9.3.6) and the value.
//
// UL-NGU-UP-TNLInformation (id 139) is UPTransportLayerInformation ::= CHOICE
// { gTPTunnel GTPTunnel, ... } with GTPTunnel ::= SEQUENCE { transportLayerAddress
// BIT STRING (SIZE (1..160, ...)), gTP-TEID OCTET STRING (SIZE (4)), iE-Extensions OPTIONAL, ... }.
// For an IPv4 endpoint (32-bit address) its encoding is 10 octets: choice
// extension bit 0, choice index 0, sequence extension bit 0, optional bit 0,
// bit-string extension bit 0, length-1 = 31 in 8 bits, padding to the octet
// boundary (octets 00 F8), then the 4 address octets and the 4 TEID octets.

const FirstIEAt = 3

func be16(b []byte, i int) int { return int(b[i])<<8 | int(b[i+1]) }

// TransferWF: from offset off on, b is a sequence of ProtocolIE-Fields with
// one-octet length determinants that fit, up to and including a field with id
// 139 whose value is the 10-octet IPv4 GTP tunnel.
//
//vc:smtfun
func TransferWF(b []byte, off int) bool {
	if off < FirstIEAt || off+4 > len(b) {
		return false
	}
	l := int(b[off+3])
	if l >= 128 || off+4+l > len(b) {
		return false
	}
	if be16(b, off) == 139 {
		return l == 10 && b[off+4] == 0x00 && b[off+5] == 0xF8
	}
	return TransferWF(b, off+4+l)
}

// TransferFind139 is the offset of the first field with id 139 at or after off (len(b) if none).
//
//vc:smtfun
func TransferFind139(b []byte, off int) int {
	if off < FirstIEAt || off+4 > len(b) {
		return len(b)
	}
	l := int(b[off+3])
	if l >= 128 || off+4+l > len(b) {
		return len(b)
	}
	if be16(b, off) == 139 {
		return off
	}
	return TransferFind139(b, off+4+l)
}

// TransferMsgWF: a well-formed transfer carrying an IPv4 N3 tunnel endpoint.
func TransferMsgWF(b []byte) bool {
	return len(b) < 1<<16 && TransferWF(b, FirstIEAt)
}

// TransferAddrAt is the index of the first UPF address octet; the TEID follows the four address octets.
func TransferAddrAt(b []byte) int { return TransferFind139(b, FirstIEAt) + 4 + 2 }
