package per

// A reference ALIGNED PER encoder for the primitive encodings, written from ITU-T X.691
// (02/2021) and used as the oracle of the bounded stand-ins.  It works on a bit string.

// W is a bit string under construction.
type W struct {
	B []byte
	N int // number of bits
}

// PutBit appends one bit.
func (w *W) PutBit(b byte) {
	if w.N%8 == 0 {
		w.B = append(w.B, 0)
	}
	if b&1 == 1 {
		w.B[w.N/8] |= 0x80 >> uint(w.N%8)
	}
	w.N++
}

// Put appends the n least significant bits of v, most significant first (10.3 / 10.5.6).
func (w *W) Put(v uint64, n int) {
	for i := n - 1; i >= 0; i-- {
		w.PutBit(byte(v >> uint(i)))
	}
}

// Align pads with zero bits to an octet boundary (10.5.7.2, 10.9.3.x "octet-aligned").
func (w *W) Align() {
	for w.N%8 != 0 {
		w.PutBit(0)
	}
}

// PutOctets appends whole octets (the writer must be aligned).
func (w *W) PutOctets(b []byte) {
	for _, o := range b {
		w.Put(uint64(o), 8)
	}
}

func bitsFor(r uint64) int { // minimal w with 2^w >= r (r >= 1)
	w := 0
	for (uint64(1)<<uint(w)) < r && w < 64 {
		w++
	}
	return w
}

func octetsFor(v uint64) int { // minimal number of octets holding v (at least 1)
	n := 1
	for v > 0xff {
		v >>= 8
		n++
	}
	return n
}

// ConstrainedWholeNumber encodes n in lb..ub (10.5): range 1: nothing; range <= 255: bit field of
// the minimal width; range 256: one aligned octet; range <= 64K: two aligned octets; otherwise the
// indefinite-length case (10.5.7.4): the number of octets L (minimal, >= 1) as a constrained whole
// number in 1..octets(range-1), then L aligned octets.
func (w *W) ConstrainedWholeNumber(lb, ub, n int64) {
	r := uint64(ub-lb) + 1
	v := uint64(n - lb)
	switch {
	case r == 1:
	case r <= 255:
		w.Put(v, bitsFor(r))
	case r == 256:
		w.Align()
		w.Put(v, 8)
	case r <= 65536:
		w.Align()
		w.Put(v, 16)
	default:
		maxL := octetsFor(r - 1)
		l := octetsFor(v)
		w.ConstrainedWholeNumber(1, int64(maxL), int64(l))
		w.Align()
		w.Put(v, 8*l)
	}
}

// UnconstrainedLength encodes a length determinant n <= 16383 (10.9.3.5-10.9.3.7), aligned.
func (w *W) UnconstrainedLength(n int) {
	w.Align()
	if n <= 127 {
		w.Put(uint64(n), 8)
	} else {
		w.Put(uint64(0x8000|n), 16)
	}
}

// SemiConstrainedWholeNumber / UnconstrainedWholeNumber (10.7, 10.8; 12.2.3/12.2.4): a length octet
// and the value in the minimal number of octets (non-negative binary resp. two's complement).
func (w *W) SemiConstrainedWholeNumber(lb, n int64) {
	v := uint64(n - lb)
	l := octetsFor(v)
	w.UnconstrainedLength(l)
	w.Put(v, 8*l)
}

func (w *W) UnconstrainedWholeNumber(n int64) {
	l := 1
	for l < 8 {
		// does n fit into l octets in two's complement?
		min := -(int64(1) << uint(8*l-1))
		max := (int64(1) << uint(8*l-1)) - 1
		if n >= min && n <= max {
			break
		}
		l++
	}
	w.UnconstrainedLength(l)
	w.Put(uint64(n), 8*l)
}

// Integer encodes an INTEGER (clause 12) with an optional constraint lb..ub and extension marker.
func (w *W) Integer(n int64, hasLB bool, lb int64, hasUB bool, ub int64, ext bool) {
	if hasLB && hasUB {
		in := n >= lb && n <= ub
		if ext {
			if in {
				w.PutBit(0)
			} else {
				w.PutBit(1)
				w.UnconstrainedWholeNumber(n)
				return
			}
		}
		w.ConstrainedWholeNumber(lb, ub, n)
		return
	}
	if hasLB {
		w.SemiConstrainedWholeNumber(lb, n)
		return
	}
	w.UnconstrainedWholeNumber(n)
}

// OctetString encodes an OCTET STRING (clause 17) of fewer than 16384 octets with an optional size
// constraint lb..ub (ub <= 65535) and extension marker.
func (w *W) OctetString(s []byte, hasC bool, lb, ub int64, ext bool) {
	n := int64(len(s))
	if hasC {
		in := n >= lb && n <= ub
		if ext {
			if in {
				w.PutBit(0)
			} else {
				w.PutBit(1)
				w.UnconstrainedLength(len(s))
				w.PutOctets(s)
				return
			}
		}
		if lb == ub {
			if n <= 2 { // 17.6: not aligned
				for _, o := range s {
					w.Put(uint64(o), 8)
				}
			} else { // 17.7
				w.Align()
				w.PutOctets(s)
			}
			return
		}
		w.ConstrainedWholeNumber(lb, ub, n) // 17.8 with 10.9.4.1
		if n > 0 {
			w.Align()
			w.PutOctets(s)
		}
		return
	}
	w.UnconstrainedLength(len(s))
	w.PutOctets(s)
}

// BitString encodes a BIT STRING (clause 16) of nbits < 16384 bits held left-justified in s.
func (w *W) BitString(s []byte, nbits int, hasC bool, lb, ub int64, ext bool) {
	put := func() {
		for i := 0; i < nbits; i++ {
			w.PutBit(Bit(s, i))
		}
	}
	n := int64(nbits)
	if hasC {
		in := n >= lb && n <= ub
		if ext {
			if in {
				w.PutBit(0)
			} else {
				w.PutBit(1)
				w.UnconstrainedLength(nbits)
				put()
				return
			}
		}
		if lb == ub {
			if n <= 16 { // 16.9
				put()
			} else { // 16.10
				w.Align()
				put()
			}
			return
		}
		w.ConstrainedWholeNumber(lb, ub, n) // 16.11
		if n > 0 {
			w.Align()
			put()
		}
		return
	}
	w.UnconstrainedLength(nbits)
	put()
}
