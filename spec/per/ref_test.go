package per

import (
	"bytes"
	"testing"
)

// Examples from ITU-T X.691 Annex A / well-known encodings.
func TestRef(t *testing.T) {
	var w W
	// INTEGER (0..255) value 5 -> one octet (range 256: aligned octet)
	w.ConstrainedWholeNumber(0, 255, 5)
	if !bytes.Equal(w.B, []byte{5}) || w.N != 8 {
		t.Fatalf("% x %d", w.B, w.N)
	}
	w = W{}
	// INTEGER (0..7) value 5 -> 3 bits 101
	w.ConstrainedWholeNumber(0, 7, 5)
	if !bytes.Equal(w.B, []byte{0xa0}) || w.N != 3 {
		t.Fatalf("% x %d", w.B, w.N)
	}
	w = W{}
	// NGAP AMF-UE-NGAP-ID INTEGER (0..1099511627775) value 1: length (1..5) in 3 bits = 000, aligned, 01
	w.ConstrainedWholeNumber(0, 1099511627775, 1)
	if !bytes.Equal(w.B, []byte{0x00, 0x01}) {
		t.Fatalf("% x", w.B)
	}
	w = W{}
	// RAN-UE-NGAP-ID INTEGER (0..4294967295) value 0x01020304: length-1 = 3 in 2 bits = 11, aligned, 4 octets
	w.ConstrainedWholeNumber(0, 4294967295, 0x01020304)
	if !bytes.Equal(w.B, []byte{0xc0, 1, 2, 3, 4}) {
		t.Fatalf("% x", w.B)
	}
	w = W{}
	// unconstrained INTEGER -129 -> length 2, FF7F (two's complement)
	w.UnconstrainedWholeNumber(-129)
	if !bytes.Equal(w.B, []byte{0x02, 0xff, 0x7f}) {
		t.Fatalf("% x", w.B)
	}
	w = W{}
	// OCTET STRING (SIZE(3)) -> aligned 3 octets, no length
	w.PutBit(1)
	w.OctetString([]byte{1, 2, 3}, true, 3, 3, false)
	if !bytes.Equal(w.B, []byte{0x80, 1, 2, 3}) {
		t.Fatalf("% x", w.B)
	}
	w = W{}
	// length determinant 200 -> 80C8
	w.UnconstrainedLength(200)
	if !bytes.Equal(w.B, []byte{0x80, 0xc8}) {
		t.Fatalf("% x", w.B)
	}
}

func TestMinOctets(t *testing.T) {
	for _, c := range []struct {
		v int64
		n int
	}{{0, 1}, {127, 1}, {128, 2}, {-128, 1}, {-129, 2}, {255, 2}, {32767, 2}, {32768, 3}, {-32768, 2}, {-32769, 3}, {1 << 31, 5}, {-(1 << 31), 4}, {1<<63 - 1, 8}, {-1 << 63, 8}, {1<<55 - 1, 7}, {1 << 55, 8}} {
		if g := MinOctetsSigned(c.v); g != c.n {
			t.Errorf("MinOctetsSigned(%d) = %d, want %d", c.v, g, c.n)
		}
	}
	for _, c := range []struct {
		v uint64
		n int
	}{{0, 1}, {255, 1}, {256, 2}, {65535, 2}, {65536, 3}, {1<<56 - 1, 7}, {1 << 56, 8}, {1<<64 - 1, 8}} {
		if g := MinOctetsUnsigned(c.v); g != c.n {
			t.Errorf("MinOctetsUnsigned(%d) = %d, want %d", c.v, g, c.n)
		}
	}
}
