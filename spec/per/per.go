// Package per specifies the ALIGNED variant of the Packed Encoding Rules
// (ITU-T X.691), written from the Recommendation, not from the code under
// verification.  A PER encoding is a bit string; bit 0 of an octet string is
// the most significant bit of its first octet.
package per

// Bit is bit i of the octet string b (0 beyond its end).
func Bit(b []byte, i int) byte {
	if i < 0 || i/8 >= len(b) {
		return 0
	}
	return (b[i/8] >> (7 - uint(i%8))) & 1
}

// Extract is octet t of the bit field of n bits that starts at bit off (0..7) of src,
// left-justified and zero-padded to whole octets: bit j of the field is bit off+j of src.
func Extract(src []byte, off int, n int, t int) byte {
	var hi, lo byte
	if t < len(src) {
		hi = src[t] << uint(off)
	}
	if t+1 < len(src) {
		lo = src[t+1] >> uint(8-off)
	}
	v := hi | lo
	// bits of this octet that lie beyond the n-th bit of the field are zero
	rem := n - 8*t
	if rem <= 0 {
		return 0
	}
	if rem < 8 {
		v &= byte(0xff) << uint(8-rem)
	}
	return v
}

// FoldBytes is the big-endian value of the first n octets of b (modulo 2^64).
//
//vc:smtfun
func FoldBytes(b []byte, n int) uint64 {
	if n <= 0 {
		return 0
	}
	return FoldBytes(b, n-1)<<8 | uint64(b[n-1])
}

// BitsValue is the value of the n-bit field (n <= 64) that starts at bit off (0..7) of src,
// most significant bit first (X.691 10.3/10.5 "non-negative-binary-integer encoding").
func BitsValue(src []byte, off int, n int) uint64 {
	var v uint64
	for t := 0; t < 9; t++ {
		if 8*t >= n {
			break
		}
		e := Extract(src, off, n, t)
		rem := n - 8*t
		if rem >= 8 {
			v = v<<8 | uint64(e)
		} else {
			v = v<<uint(rem) | uint64(e>>uint(8-rem))
		}
	}
	return v
}

// FieldWidth is the number of bits of the bit field that encodes a constrained whole number
// whose range (ub - lb + 1) is r, 1 <= r <= 255 (X.691 10.5.7.1): the minimal w with 2^w >= r,
// at least 1 for r >= 2.  (For r <= 1 the code under verification still uses one bit; the
// callers never reach it with r = 1, where X.691 encodes nothing.)
func FieldWidth(r int64) int {
	w := 1
	for w < 8 && int64(1)<<uint(w) < r {
		w++
	}
	return w
}

// OctetsFor: range 256 is encoded in one aligned octet, ranges up to 64K in two (X.691 10.5.7.2/3).
func OctetsFor(r int64) int {
	if r == 256 {
		return 1
	}
	return 2
}

// LengthOctets is the number of octets of an unconstrained length determinant (X.691 10.9.3.5-10.9.3.8):
// one for n <= 127, two for n <= 16383, one (the fragment header 11000mmm) for the multiples of 16K.
func LengthOctets(n uint64) int {
	if n <= 127 {
		return 1
	}
	if n <= 16383 {
		return 2
	}
	return 1
}

// MinOctetsSigned: the minimum number of octets of the 2's-complement-binary-integer encoding of v
// (X.691 10.4, used by 10.8 for an unconstrained whole number): the smallest n >= 1 with
// -2^(8n-1) <= v < 2^(8n-1).
func MinOctetsSigned(v int64) int {
	switch {
	case -1<<7 <= v && v < 1<<7:
		return 1
	case -1<<15 <= v && v < 1<<15:
		return 2
	case -1<<23 <= v && v < 1<<23:
		return 3
	case -1<<31 <= v && v < 1<<31:
		return 4
	case -1<<39 <= v && v < 1<<39:
		return 5
	case -1<<47 <= v && v < 1<<47:
		return 6
	case -1<<55 <= v && v < 1<<55:
		return 7
	}
	return 8
}

// MinOctetsUnsigned: the minimum number of octets of the non-negative-binary-integer encoding of v
// (X.691 10.3, used by 10.7 for the offset of a semi-constrained whole number): the smallest
// n >= 1 with v < 2^(8n).
func MinOctetsUnsigned(v uint64) int {
	switch {
	case v < 1<<8:
		return 1
	case v < 1<<16:
		return 2
	case v < 1<<24:
		return 3
	case v < 1<<32:
		return 4
	case v < 1<<40:
		return 5
	case v < 1<<48:
		return 6
	case v < 1<<56:
		return 7
	}
	return 8
}
