// Package milspec specifies the MILENAGE algorithm set (3GPP TS 35.206
// clause 4.1) and the AUTN/AUTS constructions of TS 33.102 6.3, on top of an
// opaque AES-128 block encryption.
package milspec

import "vspec/nasalg"

type Block = [16]byte

func xor16(a, b Block) Block {
	var r Block
	for i := 0; i < 16; i++ {
		r[i] = a[i] ^ b[i]
	}
	return r
}

// rot is the cyclic rotation of a 128-bit value by r bits towards the most
// significant bit (TS 35.206 3: rot(x,r)); r is a multiple of 8 for MILENAGE's constants.
func rot(x Block, r int) Block {
	var out Block
	for i := 0; i < 16; i++ {
		out[i] = x[(i+r/8)%16]
	}
	return out
}

// constant c_i: all zero except the given low-order bits in the last octet.
func cst(last byte) Block {
	var c Block
	c[15] = last
	return c
}

// E is E_K: AES-128 under key k.
func E(k, x Block) Block { return nasalg.AES(k, x) }

// OPc = OP xor E_K(OP).
func OPc(k, op Block) Block { return xor16(op, E(k, op)) }

// Temp = E_K(RAND xor OPc).
func Temp(opc, k, rand Block) Block { return E(k, xor16(rand, opc)) }

// OUT1 = E_K(TEMP xor rot(IN1 xor OPc, r1) xor c1) xor OPc, IN1 = SQN||AMF||SQN||AMF, r1 = 64, c1 = 0.
func Out1(opc, k, rand Block, sqn [6]byte, amf [2]byte) Block {
	var in1 Block
	for i := 0; i < 6; i++ {
		in1[i] = sqn[i]
		in1[8+i] = sqn[i]
	}
	in1[6], in1[7], in1[14], in1[15] = amf[0], amf[1], amf[0], amf[1]
	t := Temp(opc, k, rand)
	return xor16(E(k, xor16(xor16(t, rot(xor16(in1, opc), 64)), cst(0))), opc)
}

// OUTi = E_K(rot(TEMP xor OPc, r_i) xor c_i) xor OPc for i = 2..5.
func outN(opc, k, rand Block, r int, c byte) Block {
	t := Temp(opc, k, rand)
	return xor16(E(k, xor16(rot(xor16(t, opc), r), cst(c))), opc)
}

func F1(opc, k, rand Block, sqn [6]byte, amf [2]byte) [8]byte {
	o := Out1(opc, k, rand, sqn, amf)
	var r [8]byte
	copy(r[:], o[0:8])
	return r
}

func F1Star(opc, k, rand Block, sqn [6]byte, amf [2]byte) [8]byte {
	o := Out1(opc, k, rand, sqn, amf)
	var r [8]byte
	copy(r[:], o[8:16])
	return r
}

// f2 = OUT2[64..127], f5 = OUT2[0..47] (r2 = 0, c2 = 1).
func F2(opc, k, rand Block) [8]byte {
	o := outN(opc, k, rand, 0, 1)
	var r [8]byte
	copy(r[:], o[8:16])
	return r
}

func F5(opc, k, rand Block) [6]byte {
	o := outN(opc, k, rand, 0, 1)
	var r [6]byte
	copy(r[:], o[0:6])
	return r
}

// f3 = OUT3 (r3 = 32, c3 = 2); f4 = OUT4 (r4 = 64, c4 = 4); f5* = OUT5[0..47] (r5 = 96, c5 = 8).
func F3(opc, k, rand Block) Block { return outN(opc, k, rand, 32, 2) }
func F4(opc, k, rand Block) Block { return outN(opc, k, rand, 64, 4) }
func F5Star(opc, k, rand Block) [6]byte {
	o := outN(opc, k, rand, 96, 8)
	var r [6]byte
	copy(r[:], o[0:6])
	return r
}

func Xor6(a, b [6]byte) [6]byte {
	var r [6]byte
	for i := 0; i < 6; i++ {
		r[i] = a[i] ^ b[i]
	}
	return r
}

// Greater: a > b as 48-bit big-endian integers.
func Greater(a, b [6]byte) bool { return val48(a) > val48(b) }

func val48(a [6]byte) uint64 {
	var v uint64
	for i := 0; i < 6; i++ {
		v = v<<8 | uint64(a[i])
	}
	return v
}

// AUTN = (SQN xor AK) || AMF || MAC-A (TS 33.102 6.3.2).
func AUTN(opc, k, rand Block, sqn [6]byte, amf [2]byte) Block {
	var a Block
	c := Xor6(sqn, F5(opc, k, rand))
	m := F1(opc, k, rand, sqn, amf)
	copy(a[0:6], c[:])
	a[6], a[7] = amf[0], amf[1]
	copy(a[8:16], m[:])
	return a
}

// AUTS = (SQN_MS xor AK*) || MAC-S with AMF = 0 (TS 33.102 6.3.3).
func AUTS(opc, k, rand Block, sqnMS [6]byte) [14]byte {
	var a [14]byte
	c := Xor6(sqnMS, F5Star(opc, k, rand))
	m := F1Star(opc, k, rand, sqnMS, [2]byte{0, 0})
	copy(a[0:6], c[:])
	copy(a[6:14], m[:])
	return a
}
