package milspec

import (
	"encoding/hex"
	"testing"
)

func h16(s string) (b Block) { x, _ := hex.DecodeString(s); copy(b[:], x); return }
func hx(b []byte) string   { return hex.EncodeToString(b) }

// TS 35.208 (conformance test data for MILENAGE) test set 1.
func TestSet1(t *testing.T) {
	k := h16("465b5ce8b199b49faa5f0a2ee238a6bc")
	rand := h16("23553cbe9637a89d218ae64dae47bf35")
	op := h16("cdc202d5123e20f62b6d676ac72cb318")
	var sqn [6]byte
	x, _ := hex.DecodeString("ff9bb4d0b607")
	copy(sqn[:], x)
	amf := [2]byte{0xb9, 0xb9}
	opc := OPc(k, op)
	if hx(opc[:]) != "cd63cb71954a9f4e48a5994e37a02baf" {
		t.Fatalf("opc %x", opc)
	}
	f1, f1s := F1(opc, k, rand, sqn, amf), F1Star(opc, k, rand, sqn, amf)
	f2, f5, f5s := F2(opc, k, rand), F5(opc, k, rand), F5Star(opc, k, rand)
	f3, f4 := F3(opc, k, rand), F4(opc, k, rand)
	got := []string{hx(f1[:]), hx(f1s[:]), hx(f2[:]), hx(f5[:]), hx(f3[:]), hx(f4[:]), hx(f5s[:])}
	want := []string{"4a9ffac354dfafb3", "01cfaf9ec4e871e9", "a54211d5e3ba50bf", "aa689c648370",
		"b40ba9a3c58b2a05bbf0d987b21bf8cb", "f769bcd751044604127672711c6d3441", "451e8beca43b"}
	for i := range got {
		if got[i] != want[i] {
			t.Fatalf("f%d: got %s want %s", i, got[i], want[i])
		}
	}
}
