#!/bin/sh
# Builds the verifier offline from files on disk only.
set -e
cd "$(dirname "$0")"
export GOFLAGS=-mod=mod GOPROXY=off GOSUMDB=off GOTOOLCHAIN=local GOWORK=off
mkdir -p bin evidence replays
go build -o bin/govc ./cmd/govc
echo "govc built"
